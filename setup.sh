#!/bin/bash
# Offline warm build of the harness (MANIFEST.setup_cmd). Everything comes from
# files on disk: the cargo registry cache and /repo.
set -e
cd "$(dirname "$0")/harness"
export CARGO_NET_OFFLINE=true
cargo build --release -q -p rt -p progen
echo "setup ok"
