#!/bin/bash
# tools/with_mutant.sh <patch-or-sed-script.sh> <ID> [tier]  — apply a change to /repo, run a check, always revert.
# The first argument is either a .diff/.patch file (git apply) or an executable script run with cwd=/repo.
set -u
CHANGE="$(realpath "$1")"; shift
if ! git -C /repo diff --quiet; then echo "refusing: /repo has uncommitted changes"; exit 3; fi
trap 'git -C /repo checkout -- . ; git -C /repo clean -fdq -- src unimock_macros tests' EXIT
case "$CHANGE" in
  *.diff|*.patch) git -C /repo apply "$CHANGE" || exit 3 ;;
  *) (cd /repo && bash "$CHANGE") || exit 3 ;;
esac
rc=0
for id in "$@"; do
  /verif/check "$id" "${TIER:-quick}" | grep -vE "^  sub=" ; r=${PIPESTATUS[0]}; echo "== $id exit=$r"; [ $r -ne 0 ] && rc=$r
done
exit $rc
