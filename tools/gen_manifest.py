#!/usr/bin/env python3
"""Regenerates /verif/MANIFEST.json from the table below (run after adding a check)."""
import json, os, subprocess

ROOT = os.path.dirname(os.path.dirname(os.path.abspath(__file__)))

def repo_commits():
    out = subprocess.run(["git", "-C", "/repo", "log", "--format=%h %s"], capture_output=True, text=True).stdout
    return [l.split()[0] for l in out.splitlines() if l.split(" ", 1)[1].startswith("verif hook")]

E1 = "E1 model-diff interpreter (harness/rt)"
DYN = "each generated clause is wrapped in the DynClause hook (its builder type is only known at run time) and the clause list is a production tuple of that arity (nested beyond 16); proptest's generators and shrinking; the reference model in harness/rt/src/model.rs was written from the documentation"

CHECKS = {
 "C01": dict(engine=E1, cat="exploration", ref="§4 C01",
   technique="property-based testing: generated clause lists and call histories, differential against a reference model (first declared match), proptest shrinking",
   text="Generated search: tens of thousands (quick) to ~1.6 million (thorough) random unordered clause lists with arbitrary accept masks and histories are executed on the real mock and on an independent reference model; every call's returned tag (identifying pattern and segment), side effects and the verification message are compared. A second sub-check rewrites every pattern to an exact expectation derived from the model's counts so any miscount flips the verification message. The thorough tier repeats both against the no_std+spin-lock and the no-mutex builds of the library and adds a coverage-guided libFuzzer campaign (oracle inside the target).",
   note="sub-checks added after the seeding rounds: wide-clause-lists (up to 16 clauses, mocks are real tuples), zero-sized-inputs (methods without sized inputs), matchers written with the real matching! macro (alternatives, ranges, || guards, eq!, one macro_rules! table of eq! patterns) and matcher closures that register no function; " + DYN),
 "C02": dict(engine=E1, cat="exploration", ref="§4 C02",
   technique="property-based testing: generated quantifier chains x response kinds x match counts, differential against segment arithmetic of a reference model",
   text="Generated quantifier chains (1-5 segments, once/n_times(0..4)/at_least/then, all response kinds, some/each/next/stub entry forms, ordered and unordered) are built through the real type-state builder and matched 0..end+3 times; the tag of every response is compared with the model's segment arithmetic, single-use values must panic on the second request. Additionally every schedule of 2-3 threads walking one response chain is enumerated (engine E3): the multiset of responses must be chain positions 1..N.",
   note="further sub-checks: answers-after-rejections (histories continue after rejected calls; when pattern P answers, the segment must be the one for P's number of earlier answered matches), single-use-composite-shapes (grid shared with C12), racing-* (all schedules of 2-3 threads on one chain); " + DYN + "; return values beyond the end of an all-exact chain are not compared (undefined by the property)"),
 "C03": dict(engine=E1, cat="exploration", ref="§4 C03",
   technique="property-based testing with steered histories (counts at bound-1/bound/bound+1) plus an exhaustively enumerated boundary grid; oracle = reference model verdict and set of named expectations",
   text="Histories are synthesised so that every pattern lands one below, at or one above its bound (every subset of violated expectations occurs); the real verdict (drop / verify() / report()) must equal the model's in both directions and the failure text must name exactly the violated patterns/methods. The one-pattern boundary grid (entry form x quantifier kind x bound 0..3 x count x route x strict/partial) is enumerated exhaustively.",
   note="racing-*: every schedule of 2-3 threads x 1-2 calls (sampled to 4x3) on one pattern quantified n_times(N) / n_times(N+1) for N calls (C10's scheduler): only the count can go wrong, the verdict after join must be silent / name exactly that pattern; a quarter of the generated calls is made by a destructor during the unwinding of a caught user panic; wide-clause-lists: steered histories over up to 16 clauses (real tuples); verification through drop / verify() / report() / no_verify_in_drop()+verify(); " + DYN + "; report() is judged by its ExitCode; only the identity named by each line is compared, not wording or numbers"),
 "C04": dict(engine=E1, cat="exploration", ref="§4 C04",
   technique="property-based testing: model-guided random walks over generated ordered clause sequences, plus prefix x next-call enumeration per generated configuration; oracle = global slot-sequence model",
   text="Generated next_call sequences over several methods (counts 0..3, chains inside a slot range) interleaved with unordered clauses; histories follow the expected sequence with 80% probability and otherwise deviate; per configuration every accepted prefix is extended by every possible next call. Accepted calls must return the slot's response, the first deviation must panic, unordered calls must not move the sequence.",
   note="after-deviation: histories continue after deviations and only the stated necessary condition is checked (the i-th call made to an ordered method may be accepted only by slot i, with slot i's response); wide-clause-lists up to 16 clauses; " + DYN + "; behaviour after the first deviation is not compared"),
 "C07": dict(engine=E1, cat="exploration", ref="§4 C07",
   technique="exhaustive enumeration of the resolution decision table plus property-based random scenarios; oracle = reference model of the documented fall-through order, side-effect log of real functions / default bodies",
   text="The full table {strict,partial} x {unmentioned, unmatched, matched} x method facts {real fn, default body, both, neither; &self/&mut self} x {unordered, ordered} x every argument x position is enumerated; random scenarios with ~45% unmentioned methods add histories. Outcomes, the side-effect log (body/function really ran, once) and unchanged counts (two-segment chains shift a tag on any stray count) are compared with the model. The partial-by-default method of the crate (Termination::report) is enumerated separately: unmentioned it runs the real behaviour in strict and partial mocks, mentioned it returns the configured value.",
   note=DYN + "; thorough tier repeats the checks against the no_std+spin-lock build of the library"),
 "C18": dict(engine=E1, cat="exploration", ref="§4 C18",
   technique="metamorphic property-based testing: pairs of real runs related by clause permutation, call routing through clones, twin mocks, generic instantiation pairs",
   text="For generated scenarios of the C01-C04 spaces the transformed run (clauses permuted across methods, calls routed through clones, a twin mock interleaved) must produce identical per-call outcomes and an identical multiset of verification lines; two instantiations of a generic trait and of a generic method with overlapping patterns are checked against the model as distinct methods.",
   note="no model involved for the three relations (implementation compared with itself under a transformation that must be behaviour-preserving); clauses wrapped in the DynClause hook, lists are production tuples"),

 "C08": dict(engine="E1 + real threads (harness/rt)", cat="fault_enumeration", ref="§4 C08",
   technique="fault-injecting property-based testing: generated histories with every reachable mock-induced error kind at any position, on clones, on other threads (caught or propagated to join), concurrent bursts; invariant over the history + reference model for the negative controls",
   text="Every error kind reachable through the public API (no mock implementation, no matcher function, no matching patterns, no output, three call-order errors, value returned twice, explicit panic, cannot unmock, no default impl) is injected at generated positions of generated histories, through the original or clones, on the creator thread or spawned threads with the panic swallowed or propagated; then verification (drop / verify() / report()) must fail and its text must contain every captured error text (multiset). Panicking answer functions and matchers are negative controls: the verdict must then equal the model's count-based verdict. All interleavings of 2-3 threads whose calls all err (racing for the shared error list, at lock granularity) are enumerated with the controlled scheduler; the thorough tier adds a libFuzzer campaign over the same scenario space.",
   note=DYN + "; sub-check text-arguments: every error kind about calls whose arguments are generated Unicode strings (long, multi-byte, quotes, control characters) must be recorded and appear in the failing verification; std build only (the documented no_std behaviour is not run)"),
 "C09": dict(engine="lifecycle state machine in a crash-isolated worker (harness/rt)", cat="exploration", ref="§4 C09",
   technique="stateful property-based testing: generated lifecycle event sequences vs a lifecycle state-machine model, executed in a crash-isolated worker process, sequence shrinking",
   text="Sequences of up to 16 lifecycle events (clone of original/clone, drop, call, drop or call on another thread, verify(), report(), no_verify_in_drop(), delegated call creating the helper clone, make_ref holding a clone, caught mock-induced panic) over up to 6 instances; each step's outcome (silent, panic class, exit code) is compared with the model, which also counts that the original verifies at most once. A double panic aborts only the worker and is attributed to its sequence.",
   note="panic classes are recognised by the documented phrases (unknown wording is compared as panic/no panic only); report() on a clone is not generated"),
 "C10": dict(engine="E3 controlled scheduler (harness/rt/src/sched.rs)", cat="exploration", ref="§4 C10",
   technique="schedule enumeration and schedule fuzzing of the real code: a token-passing scheduler driven by yield hooks at every atomic operation and lock acquisition; exhaustive depth-first enumeration for small thread configurations, proptest-generated choice sequences for larger ones, 16-thread stress; threads call through clones or one shared &Unimock, with and without the constructing thread itself taking part; oracle = multiset of responses equals positions 1..N of the sequential reference model",
   text="The real runtime runs on real OS threads, one at a time, the next thread being chosen at every yield point by a schedule (a Vec<u8>, which is also the replay file). All schedules of (threads x calls) in {(2,1),(2,2),(3,1),(2,3)} (thorough: also (3,2),(4,1)) are enumerated for an unordered response chain, an ordered sequence (as many slots as calls, and one fewer) and both mixed, each through clones and through one shared &Unimock handle; larger configurations are sampled; a 16-thread unsynchronised stress run repeats the oracle. lent-answers: all schedules of 2 threads x 1-2 calls (thorough: 3x1, 2x3; sampled 2-4 x 2-3) answered through make_ref on one shared &Unimock, optionally racing for the delegation helper through a provided method: every call must read the value made for it at an address of its own, and teardown after join must be silent.",
   note="yield points exist only at unimock's own atomics, lock acquisitions and OnceCell operations (value-chain cells, delegator cell) (cfg unimock_verif); sequentially consistent interleavings only; std::sync::Mutex / Arc internals are trusted"),
 "C11": dict(engine="E4 fault table: worker thread + fresh child process per cell (harness/rt)", cat="fault_enumeration", ref="§4 C11",
   technique="fault enumeration: panic origin x instance topology x expectation state, every cell run on a thread of a crash-isolated worker and as the main thread of a fresh child process; oracle = exit status 101 (not SIGABRT), exactly one panic report, first message is the origin's",
   text="17 panic origins (test body before/between/after calls, matcher, answer, unmock function, default body, by-value default body, argument Debug, return-value Clone, 7 mock-induced kinds) x 11 instance topologies (original only, clone dropped before/after, clone alive on another thread, Rc/Arc/Box, foreign thread, helper clone alive, value chain holding a clone, call through a clone) x met/unmet x error recorded before: all 680 cells are executed both ways; the thread boundary / process must report exactly the original panic and must not abort.",
   note="std feature, panic=unwind; the second half of the property (usable after a caught user panic) is the exhaustive sub-check usable-after-caught-panic: 6 user-panic origins (matcher, answer, unmock function, default body, argument Debug, return-value Clone) x 5 ways of surviving the panic x 1-3 repeats x met / one call short; afterwards every pattern must answer again and verify() must reflect the matched counts"),
 "C12": dict(engine="E1 conservation check + E3 scheduler (harness/rt)", cat="exploration", ref="§4 C12",
   technique="property-based testing with an instrumented (drop- and clone-counting) value type: conservation oracle over generated request histories; exhaustive schedule enumeration for threads racing for one single-use value",
   text="Generated histories request 1-6 configured values (non-Clone tokens alone, in Option/Poll, as owned leaves of mixed tuples, as owned Err of Result<&T,E>, and two or three levels down in Option<Result<&T,E>>, Poll<Result<..>>, Poll<Option<Result<..>>>, Vec<Result<&T,E>>, (Option<Result<&T,E>>,&T); Clone tokens via single-use path, n_times, each_call) 0-4 times each through original and clones: the first request must deliver exactly the configured leaves, later ones must panic, stored values must stay undropped while the mock lives, repeat-use deliveries must be clones of the stored original, and after teardown every value ever constructed must have been dropped exactly once. All schedules of 2-3 threads competing for one single-use value are enumerated.",
   note="racing-leaves: all schedules of two threads (sampled for 2-4) requesting one single-use value whose owned leaves sit in several cells; the compile-time half (chains that must not type-check) is decided by the program-generation engine when present in the evidence (sub-check compile-fail); interleavings inside std::sync::Mutex are trusted"),
 "C13": dict(engine="value-chain shadow model in a crash-isolated worker (harness/rt)", cat="exploration", ref="§4 C13",
   technique="stateful property-based testing: generated lending sequences with a shadow list of (address, id, contents) and a drop registry; long-chain and multi-thread cases; crash-isolated worker with a small stack to expose recursive drops",
   text="Phases of lending operations (make_ref of several types, answers using make_ref, returns()-configured borrows, borrows through the delegation helper, bursts, lent values owning a clone of their instance) over original and clones, closed by make_mut / a make_mut-answered &mut return / a provided &mut self method that lends nothing (nothing may be released) / a provided &mut self method whose body lends through the helper, then 2-8 threads lending through a shared &Unimock, then teardown: every reference held is re-read after every operation, addresses of make_ref values are pairwise distinct, nothing is dropped early, everything is dropped exactly once. Chains of 5k-51k values are dropped on a 256 KiB stack.",
   note="references are held in safe Rust; scheduled-lent-answers: every schedule (yield points at the value-chain cells) of 2 threads lending through one shared &Unimock, sampled for 2-4 threads (C10's engine); interleavings inside once_cell itself are trusted"),

 "C05": dict(engine="E2 program generation (harness/progen)", cat="exploration", ref="§4 C05",
   technique="grammar-based program generation (proptest strategy over trait ASTs) -> generated crate -> observations vs generator-side expectation, manual shrinking across the compile boundary",
   text="Hundreds (quick) to ~16k (thorough) generated #[unimock] traits (7 receiver kinds x 0-5 parameters of 15 kinds with adjacent parameters often sharing a type x 6 return kinds x sync/async fn/impl Future/#[async_trait] x module/flattened/hidden api x method position, a twin method of identical signature next to it) are compiled against /repo and executed: the answer / real function also logs a receiver-identity probe (address equality, Rc/Arc strong_count, verify() for by-value self); a logging matcher and a logging, mutating, injective answer function must have seen exactly the caller's arguments in declaration order, the result and the caller's &mut variables must be what the answer produced, futures must not evaluate before / without a poll. Optional dimensions: ordered clause n_times(2) called twice, the method a provided one (its body must not run), the (sync) call made by a destructor while the thread unwinds from a caught user panic.",
   note="shapes rustc rejects are outside the property's domain (counted in evidence; > 5% rejected = exit 2); generated values' Debug strings are the channel of observation"),
 "C06": dict(engine="E2 program generation (harness/progen)", cat="exploration", ref="§4 C06",
   technique="grammar-based generation of matching! patterns, exhaustive evaluation over a finite argument domain, oracle = own pattern interpreter cross-checked by a native Rust match in the generated program",
   text="Each generated pattern (literals, ranges, wildcards, bindings, @-bindings, or-patterns, Option/tuple/struct/enum patterns, slice patterns with rest, string literals against &str/String/newtype, eq!/ne!, 1-3 alternatives, guards written as a user writes them) is evaluated by the real mock on every tuple of the product domain (<= 300) in unordered (diagnostics off) and ordered (diagnostics on) mode; both truth tables must equal the interpreter's. The forms shown verbatim in the documentation must compile (a rejection there is a violation).",
   note="type-directed grammar: only patterns the macro accepts for the argument type are generated (rejections counted); rustc's match semantics trusted for the interpreter cross-check"),
 "C15": dict(engine="E2 program generation (harness/progen)", cat="exploration", ref="§4 C15",
   technique="grammar-based generation of default bodies (expression grammar) and mixed direct/delegated histories; oracle = generator-side inlining of the body",
   text="Generated traits whose provided method calls 0-3 required methods with argument-derived values, for 8 receiver situations (&self, &mut self, self, Rc/Arc shared and sole owner, Pin<&mut Self>), required methods unordered with exact counts or as one ordered sequence, histories mixing direct and delegated calls, applies_default_impl() clauses (counted, catch-all, followed by a later answering clause, `.n_times(k).then().answers(..)`), the provided method optionally generic or carrying its own real function in unmock_with (which must not run), strict and partial mocks: the arguments seen by the required patterns, every result and the final verification must equal what inlining the body predicts.",
   note="clause lists of run-time length use the DynClause hook; rejected shapes counted"),
 "C16": dict(engine="E2 program generation (harness/progen)", cat="exploration", ref="§4 C16",
   technique="grammar-based generation of unmock_with registrations (path / path(permuted params) / _) per method position, recording real functions, recursion through the mock",
   text="Generated traits of 1-4 required or provided (default body) methods with individual registrations, &self/&mut self, sync/async/impl Future, optionally after a caught mock-induced panic on the same mock, resolved to the real implementation through partial fall-through (unmentioned / unmatched) or applies_unmocked() (optionally quantified n_times(q) with q earlier calls, the observed call being surplus), optionally next to an ordered clause on an unrelated method: exactly one invocation of the right function with self and the arguments in registered order, result returned unchanged, panic naming Trait::method when nothing is registered; recursive real functions (depth 0-6) call back into the same mock whose counted base-case pattern must verify.",
   note="rejected shapes counted"),
 "C17": dict(engine="E2 program generation (harness/progen)", cat="exploration", ref="§4 C17",
   technique="grammar-based generation of return types and values, round-trip oracle (Debug rendering computed independently by the generator)",
   text="Return types from the accepted families (borrowed leaves, Option/Result of borrows, Option/Poll wrappers to depth 3, Vec<&T>, Vec<Option<&T>>, 1-4-tuples mixing owned / borrowed / shallow containers, all-owned composites) with generated variants and lengths 0-4: returns(v) through next_call, each_call (3 calls, earlier borrows read after later calls), some_call.n_times(2) must reproduce v; on the single-use path a second request panics iff the value contains an owned leaf.",
   note="types outside the accepted families are not generated (calibrated on the unchanged tree; rejections counted)"),
 "C19": dict(engine="E2 program generation (harness/progen)", cat="exploration", ref="§4 C19",
   technique="grammar-based generation of method shapes x patterns x failing tuples; message-grammar oracle built from generator-known Debug strings, printed line numbers and the C06 interpreter",
   text="For each generated pattern and shape (incl. non-Debug, reference-depth, &mut and generic parameters) every mock-induced error kind is triggered on a fresh mock (the pattern-naming unordered kinds also by the second pattern of the method, behind a decoy pattern on another line); the message must render the call as Trait::method(args) from the generator's own Debug strings ('?' for non-Debug), name the pattern by location (file and the line the generator printed) and source text, and for guard-free single-alternative patterns list exactly the positions the interpreter rejects, each with the actual value.",
   note="sub-check text-arguments (hosted by harness/rt, no compilation): calls with generated Unicode string arguments must be rendered as Trait::method(<Debug of the arguments>) for every error kind; wrong-order errors are also raised while the pattern in line is partly consumed; only the parts named by the property are compared; ANSI codes stripped; pattern text compared in the documented short rendering with a literal-atoms fallback"),

 "C14": dict(engine="E1 tuple trees (harness/rt) + E2 compile-fail (harness/progen)", cat="exploration", ref="§4 C14",
   technique="exhaustive arity sweep + property-based random tuple trees over distinct ordered leaves (acceptance order reveals flattening order); generated offending clauses at generated positions; exhaustive enumeration of a builder-chain grammar judged by rustc against a type-level model",
   text="Every tuple arity 0, 2..16 (flat, and nested between further leaves) is built as a REAL tuple whose leaves are distinct ordered clauses: the in-order history must be accepted leaf by leaf and verify silently, every adjacent transposition must be refused; random trees up to depth 4 / 40 leaves repeat this. Consistent generated setups get one offending clause (opposite mode for a mentioned method, or an empty stub) injected at a generated position: construction itself must panic. All chains of a builder grammar (entry x response x quantifier x then) are type-checked by cargo check, one bin per chain: legal ones must compile, illegal ones must be rejected for the expected reason (E0271 naming InAnyOrder / Exact, E0599 for then() on an unquantified builder).",
   note="sub-trees are wrapped in the DynClause hook, nodes are production tuple impls; the 'return cannot be produced in the current feature set' case needs a no-mutex build and is only exercised by the thorough nostd variant when present"),
 "C20": dict(engine="E1 differential (harness/rt)", cat="exploration", ref="§4 C20",
   technique="differential property-based testing: generated scripts replayed by the mocked required methods vs a hand-written struct implementing the upstream trait with the same script, driven through upstream provided methods; wiring sweep enumerating every method of every mirrored trait (required, and provided mocked directly) on strict and partial mocks",
   text="On strict and on partial mocks, with 0-16 further clones alive during the drive, optionally catch-all applies_default_impl() clauses, ended by drop / report() / verify(): scripts of chunk sizes, short transfers, Interrupted/other errors and payloads are replayed through write_all, write_fmt, write_vectored, read_exact, read_to_end, read_to_string, read_vectored, read_line, read_until, rewind, stream_position, Hasher::write_u8..isize, format! with width/fill, DelayNs::delay_us/ms (incl. the overflow-splitting range), OutputPin::set_state, StatefulOutputPin::toggle, I2c read/write/write_read, SpiDevice read/write/transfer/transfer_in_place, SetDutyCycle provided methods: results, buffers and the sequence of required-method calls must equal those of the plain struct. 33 wiring probes configure one entry point at a time (embedded-hal neighbours of equal signature, SpiBus, std io provided methods mocked directly, Debug/Display, Error::source, tokio and futures-io poll_* methods and vectored defaults).",
   note="upstream provided methods are the reference on both sides; embedded-hal error paths are not scripted"),
}

NOT_YET = {
}

def main():
    props = [json.loads(l) for l in open(os.path.join(ROOT, "properties.jsonl"))]
    checks = []
    not_applicable = []
    for p in props:
        pid = p["id"]
        c = CHECKS.get(pid)
        if not c:
            not_applicable.append({"property_id": pid, "reason": NOT_YET.get(pid, "check under construction in this session; not claimed until it is built, mutation-tested and silent on the unchanged tree")})
            continue
        checks.append({
            "property_id": pid,
            "quick_cmd": f"./check {pid} quick",
            "thorough_cmd": f"./check {pid} thorough",
            "evidence_file": f"evidence/{pid}.json",
            "replay_cmd_template": "./check --replay {path}",
            "engine": c["engine"],
            "level_claimed": {"category": c["cat"], "text": c["text"], "design_ref": "DESIGN.md " + c["ref"]},
            "level_note": c["note"],
            "technique": c["technique"],
        })
    manifest = {
        "version": 1,
        "setup_cmd": "./setup.sh",
        "hooks": {
            "guard": "--cfg unimock_verif",
            "enable": "harness/.cargo/config.toml sets build.rustflags = [\"--cfg\", \"unimock_verif\"]; every check builds the harness (which path-depends on /repo) with it",
            "baseline_off_cmd": "cd /repo && cargo test --workspace --no-fail-fast --offline",
            "source_commits": repo_commits(),
            "add_only": True,
        },
        "engines": [
            {"name": "E1", "path": "harness/rt", "serves_properties": ["C01", "C02", "C03", "C04", "C07", "C18"],
             "kind_free_text": "in-process interpreter from generated scenario data to real clauses (public builder API) + reference model; proptest generators with shrinking; replay files are scenarios"},
            {"name": "E1-lifecycle/value-chain/faults", "path": "harness/rt/src/props/{c08,c09,c11,c12,c13}.rs", "serves_properties": ["C08", "C09", "C11", "C12", "C13"],
             "kind_free_text": "stateful generators executed in crash-isolated worker processes (vcore::worker) or fresh child processes; lifecycle / shadow-list / conservation oracles"},
            {"name": "E2", "path": "harness/progen", "serves_properties": ["C05", "C06", "C15", "C16", "C17", "C19"],
             "kind_free_text": "proptest strategies over program ASTs -> generated crate under harness/work (path-depends on /repo) -> cargo build -> observation lines -> comparison with generator-side expectations; manual ValueTree shrinking, one rebuild per step"},
            {"name": "E3", "path": "harness/rt/src/sched.rs", "serves_properties": ["C10", "C12", "C08", "C02", "C13"],
             "kind_free_text": "token-passing scheduler over the yield hook; exhaustive DFS over schedules or proptest-generated schedules"},
        ],
        "checks": checks,
        "notes": "Property-based testing / fuzzing only. Exit codes: 0 held, 1 violation (VIOLATION line + replay file), 2 inconclusive (harness build problem, watchdog). Known findings: known_findings.json.",
        "not_applicable": not_applicable,
    }
    json.dump(manifest, open(os.path.join(ROOT, "MANIFEST.json"), "w"), indent=1)
    print("MANIFEST.json:", len(checks), "checks,", len(not_applicable), "not claimed")

if __name__ == "__main__":
    main()
