#!/usr/bin/env python3
"""Regenerates /verif/MANIFEST.json from the table below (run after adding a check)."""
import json, os, subprocess

ROOT = os.path.dirname(os.path.dirname(os.path.abspath(__file__)))

def repo_commits():
    out = subprocess.run(["git", "-C", "/repo", "log", "--format=%h %s"], capture_output=True, text=True).stdout
    return [l.split()[0] for l in out.splitlines() if l.split(" ", 1)[1].startswith("verif hook")]

E1 = "E1 model-diff interpreter (harness/rt)"
DYN = "DynClause hook (run-time sized clause tuple) is trusted to deconstruct its elements in push order like the tuple impls do (C14 checks the tuple impls themselves); proptest's generators and shrinking; the reference model in harness/rt/src/model.rs was written from the documentation"

CHECKS = {
 "C01": dict(engine=E1, cat="exploration", ref="§4 C01",
   technique="property-based testing: generated clause lists and call histories, differential against a reference model (first declared match), proptest shrinking",
   text="Generated search: tens of thousands (quick) to ~1.6 million (thorough) random unordered clause lists with arbitrary accept masks and histories are executed on the real mock and on an independent reference model; every call's returned tag (identifying pattern and segment), side effects and the verification message are compared. A second sub-check rewrites every pattern to an exact expectation derived from the model's counts so any miscount flips the verification message.",
   note=DYN),
 "C02": dict(engine=E1, cat="exploration", ref="§4 C02",
   technique="property-based testing: generated quantifier chains x response kinds x match counts, differential against segment arithmetic of a reference model",
   text="Generated quantifier chains (1-5 segments, once/n_times(0..4)/at_least/then, all response kinds, some/each/next/stub entry forms, ordered and unordered) are built through the real type-state builder and matched 0..end+3 times; the tag of every response is compared with the model's segment arithmetic, single-use values must panic on the second request.",
   note=DYN + "; return values beyond the end of an all-exact chain are not compared (undefined by the property)"),
 "C03": dict(engine=E1, cat="exploration", ref="§4 C03",
   technique="property-based testing with steered histories (counts at bound-1/bound/bound+1) plus an exhaustively enumerated boundary grid; oracle = reference model verdict and set of named expectations",
   text="Histories are synthesised so that every pattern lands one below, at or one above its bound (every subset of violated expectations occurs); the real verdict (drop / verify() / report()) must equal the model's in both directions and the failure text must name exactly the violated patterns/methods. The one-pattern boundary grid (entry form x quantifier kind x bound 0..3 x count x route x strict/partial) is enumerated exhaustively.",
   note=DYN + "; report() is judged by its ExitCode; only the identity named by each line is compared, not wording or numbers"),
 "C04": dict(engine=E1, cat="exploration", ref="§4 C04",
   technique="property-based testing: model-guided random walks over generated ordered clause sequences, plus prefix x next-call enumeration per generated configuration; oracle = global slot-sequence model",
   text="Generated next_call sequences over several methods (counts 0..3, chains inside a slot range) interleaved with unordered clauses; histories follow the expected sequence with 80% probability and otherwise deviate; per configuration every accepted prefix is extended by every possible next call. Accepted calls must return the slot's response, the first deviation must panic, unordered calls must not move the sequence.",
   note=DYN + "; behaviour after the first deviation is not compared"),
 "C07": dict(engine=E1, cat="exploration", ref="§4 C07",
   technique="exhaustive enumeration of the resolution decision table plus property-based random scenarios; oracle = reference model of the documented fall-through order, side-effect log of real functions / default bodies",
   text="The full table {strict,partial} x {unmentioned, unmatched, matched} x method facts {real fn, default body, both, neither; &self/&mut self} x {unordered, ordered} x every argument x position is enumerated; random scenarios with ~45% unmentioned methods add histories. Outcomes, the side-effect log (body/function really ran, once) and unchanged counts (two-segment chains shift a tag on any stray count) are compared with the model.",
   note=DYN + "; partial-by-default methods exist only in the bundled TerminationMock (covered by C09's report() runs)"),
 "C18": dict(engine=E1, cat="exploration", ref="§4 C18",
   technique="metamorphic property-based testing: pairs of real runs related by clause permutation, call routing through clones, twin mocks, generic instantiation pairs",
   text="For generated scenarios of the C01-C04 spaces the transformed run (clauses permuted across methods, calls routed through clones, a twin mock interleaved) must produce identical per-call outcomes and an identical multiset of verification lines; two instantiations of a generic trait and of a generic method with overlapping patterns are checked against the model as distinct methods.",
   note="no model involved for the three relations (implementation compared with itself under a transformation that must be behaviour-preserving); DynClause hook assembles clause lists"),
}

NOT_YET = {
}

def main():
    props = [json.loads(l) for l in open(os.path.join(ROOT, "properties.jsonl"))]
    checks = []
    not_applicable = []
    for p in props:
        pid = p["id"]
        c = CHECKS.get(pid)
        if not c:
            not_applicable.append({"property_id": pid, "reason": NOT_YET.get(pid, "check under construction in this session; not claimed until it is built, mutation-tested and silent on the unchanged tree")})
            continue
        checks.append({
            "property_id": pid,
            "quick_cmd": f"./check {pid} quick",
            "thorough_cmd": f"./check {pid} thorough",
            "evidence_file": f"evidence/{pid}.json",
            "replay_cmd_template": "./check --replay {path}",
            "engine": c["engine"],
            "level_claimed": {"category": c["cat"], "text": c["text"], "design_ref": "DESIGN.md " + c["ref"]},
            "level_note": c["note"],
            "technique": c["technique"],
        })
    manifest = {
        "version": 1,
        "setup_cmd": "./setup.sh",
        "hooks": {
            "guard": "--cfg unimock_verif",
            "enable": "harness/.cargo/config.toml sets build.rustflags = [\"--cfg\", \"unimock_verif\"]; every check builds the harness (which path-depends on /repo) with it",
            "baseline_off_cmd": "cd /repo && cargo test --workspace --no-fail-fast --offline",
            "source_commits": repo_commits(),
            "add_only": True,
        },
        "engines": [
            {"name": "E1", "path": "harness/rt", "serves_properties": ["C01", "C02", "C03", "C04", "C07", "C18"],
             "kind_free_text": "in-process interpreter from generated scenario data to real clauses (public builder API) + reference model; proptest generators with shrinking; replay files are scenarios"},
        ],
        "checks": checks,
        "notes": "Property-based testing / fuzzing only. Exit codes: 0 held, 1 violation (VIOLATION line + replay file), 2 inconclusive (harness build problem, watchdog). Known findings: known_findings.json.",
        "not_applicable": not_applicable,
    }
    json.dump(manifest, open(os.path.join(ROOT, "MANIFEST.json"), "w"), indent=1)
    print("MANIFEST.json:", len(checks), "checks,", len(not_applicable), "not claimed")

if __name__ == "__main__":
    main()
