#!/bin/bash
# tools/seed_sweep.sh [names...] — run every stored seeded change (seeded/<name>/patch.diff) against the check of
# its property (quick tier) and print one line per seed: name, number of VIOLATION lines, exit code.
cd /verif
names="$@"; [ -z "$names" ] && names=$(ls seeded)
for n in $names; do
  id=${n%%-*}
  find replays/found -type f -delete 2>/dev/null   # a seed must be found afresh, not by an input saved for another one
  out=$(tools/with_mutant.sh seeded/$n/patch.diff $id 2>&1)
  v=$(echo "$out" | grep -c '^VIOLATION')
  ex=$(echo "$out" | grep -oE "exit=[0-9]+" | tail -1)
  subs=$(echo "$out" | grep -oE "failing sub-check [a-zA-Z0-9_-]+" | sed 's/failing sub-check //' | sort -u | tr '\n' ',' )
  note=""; grep -q '"detected": false' seeded/$n/meta.json 2>/dev/null && note=" (stored as not-a-violation of the property as stated: expected silent, see meta.json)"
  echo "SEED $n violations=$v $ex subs=$subs$note"
done
git -C /repo status --short | head -3
