#!/bin/bash
# tools/confirm_seed.sh <ID> [name] — confirm a sub-agent's seeded change in its scratch worktree /tmp/seed/<ID>:
# existing suite passes with the change, demo fails with it and passes without it; then store it under
# /verif/seeded/<name>/ and run our check against it (applied to /repo, reverted afterwards).
set -u
ID="$1"; NAME="${2:-$ID}"; WT=${SEEDROOT:-/tmp/seed}/$ID; OUT=/verif/seeded/$NAME
cd "$WT" || exit 2
[ -f seed_out/patch.diff ] || { echo "no patch.diff"; exit 2; }
export CARGO_NET_OFFLINE=true
FEATURES="${FEATURES:-}"
# start from the agent's patch on a clean checkout (worktrees share one stash: do not trust the working state)
git checkout -q -- src unimock_macros
git apply seed_out/patch.diff || { echo "patch does not apply"; exit 2; }
cp seed_out/seed_demo.rs tests/seed_demo.rs
echo "--- existing suite with the change"
SUITE=$(cargo test --workspace --no-fail-fast --offline 2>&1 | grep -E "^test result" | grep -v "seed_demo" )
echo "$SUITE"
PASSED=$(cargo test --workspace --no-fail-fast --offline --lib --bins --test it 2>&1 | grep -E "^test result" | awk '{s+=$4} END {print s}')
echo "passed (lib+it+macros): $PASSED"
echo "--- demo with the change (must fail)"
cargo test --offline $FEATURES --test seed_demo 2>&1 | grep -E "^test result|panicked at" | head -5
WITH=$(cargo test --offline $FEATURES --test seed_demo >/dev/null 2>&1; echo $?)
git apply -R seed_out/patch.diff
echo "--- demo without the change (must pass)"
cargo test --offline $FEATURES --test seed_demo 2>&1 | grep -E "^test result" | head -3
WITHOUT=$(cargo test --offline $FEATURES --test seed_demo >/dev/null 2>&1; echo $?)
git apply seed_out/patch.diff
echo "demo exit with change=$WITH without=$WITHOUT"
mkdir -p "$OUT"
git diff -- src unimock_macros > "$OUT/patch.diff"
cp tests/seed_demo.rs "$OUT/seed_demo.rs"
cp seed_out/notes.md "$OUT/agent_notes.md" 2>/dev/null
echo "--- our check against it"
shift; shift 2>/dev/null
cd /verif
CHECKS="${CHECKS:-$ID}"
RES=""
for c in $CHECKS; do
  OUTTXT=$(/verif/tools/with_mutant.sh "$OUT/patch.diff" $c 2>&1); rc=$?
  echo "$OUTTXT" | grep -E "failing|VIOLATION|exit=|INCONCL" | cut -c1-300
  RES="$RES $c:$(echo "$OUTTXT" | grep -c '^VIOLATION')"
done
echo "RESULT $NAME with=$WITH without=$WITHOUT checks:$RES"
