//! Panic capture. Mock-induced panics are expected outcomes of many cases, so the
//! process-wide hook is silent (unless VERIF_VERBOSE_PANICS is set) and the
//! message is recovered from the payload.

use std::panic::{catch_unwind, AssertUnwindSafe};
use std::sync::Once;

static INSTALL: Once = Once::new();

pub fn install_quiet_hook() {
    INSTALL.call_once(|| {
        if std::env::var_os("VERIF_VERBOSE_PANICS").is_none() {
            std::panic::set_hook(Box::new(|_| {}));
        }
    });
}

pub fn payload_to_string(payload: Box<dyn std::any::Any + Send>) -> String {
    if let Some(s) = payload.downcast_ref::<String>() {
        s.clone()
    } else if let Some(s) = payload.downcast_ref::<&'static str>() {
        (*s).to_string()
    } else {
        "<non-string panic payload>".to_string()
    }
}

/// Run `f`, turning a panic into `Err(message)`.
pub fn catch<R>(f: impl FnOnce() -> R) -> Result<R, String> {
    install_quiet_hook();
    catch_unwind(AssertUnwindSafe(f)).map_err(payload_to_string)
}
