//! Shared infrastructure of the verification harness: seeds, tiers, the proptest
//! runner wrapper with case statistics, shrinking → replay files, evidence files,
//! known findings, panic capture.

use std::collections::{BTreeMap, HashSet};
use std::fmt::Debug;
use std::hash::{Hash, Hasher};
use std::path::PathBuf;
use std::time::Instant;

use proptest::strategy::Strategy;
use proptest::test_runner::{Config, RngSeed, TestCaseError, TestError, TestRunner};
use serde::Serialize;
use serde_json::{json, Value};

pub mod panics;
pub mod worker;

pub const EXIT_OK: i32 = 0;
pub const EXIT_VIOLATION: i32 = 1;
pub const EXIT_INCONCLUSIVE: i32 = 2;

#[derive(Clone, Copy, PartialEq, Eq, Debug)]
pub enum Tier {
    Quick,
    Thorough,
}

impl Tier {
    pub fn name(self) -> &'static str {
        match self {
            Tier::Quick => "quick",
            Tier::Thorough => "thorough",
        }
    }
    /// `q` cases in the quick tier, `t` in the thorough tier.
    pub fn pick(self, q: u32, t: u32) -> u32 {
        match self {
            Tier::Quick => q,
            Tier::Thorough => t,
        }
    }
}

pub fn verif_root() -> PathBuf {
    if let Ok(root) = std::env::var("VERIF_ROOT") {
        return PathBuf::from(root);
    }
    // harness/<crate>/../..
    let p = PathBuf::from(env!("CARGO_MANIFEST_DIR"));
    p.parent().unwrap().parent().unwrap().to_path_buf()
}

pub fn stable_hash<T: Hash + ?Sized>(t: &T) -> u64 {
    // DefaultHasher::new() uses fixed keys: deterministic across runs.
    #[allow(deprecated)]
    let mut h = std::collections::hash_map::DefaultHasher::new();
    t.hash(&mut h);
    h.finish()
}

pub struct Ctx {
    pub prop: String,
    pub tier: Tier,
    pub seed: u64,
    pub start: Instant,
}

impl Ctx {
    pub fn new(prop: &str, tier: Tier) -> Self {
        let seed = std::env::var("VERIF_SEED")
            .ok()
            .and_then(|s| s.trim().parse::<i64>().ok())
            .unwrap_or(0) as u64;
        Ctx {
            prop: prop.to_string(),
            tier,
            seed,
            start: Instant::now(),
        }
    }

    pub fn sub_seed(&self, sub: &str) -> u64 {
        stable_hash(&(self.seed, self.prop.as_str(), sub))
    }
}

/// What a property closure reports about one passing case.
#[derive(Default, Clone)]
pub struct CaseInfo {
    pub nontrivial: bool,
    pub classes: Vec<&'static str>,
}

impl CaseInfo {
    pub fn new(nontrivial: bool) -> Self {
        Self {
            nontrivial,
            classes: vec![],
        }
    }
    pub fn class(mut self, c: &'static str) -> Self {
        self.classes.push(c);
        self
    }
    pub fn class_if(mut self, cond: bool, c: &'static str) -> Self {
        if cond {
            self.classes.push(c);
        }
        self
    }
}

#[derive(Clone, Debug)]
pub struct Failure {
    pub sub: String,
    pub case: Value,
    pub reason: String,
}

pub struct SubReport {
    pub name: String,
    pub evaluations: u64,
    pub nontrivial: HashSet<u64>,
    pub samples: Vec<Value>,
    /// first evaluated case (used as a sample if no non-trivial one exists)
    pub first_case: Option<Value>,
    pub classes: BTreeMap<String, u64>,
    pub exhaustive: bool,
    pub failure: Option<Failure>,
    /// Set when the sub-check could not be carried out (harness problem) → exit 2.
    pub inconclusive: Option<String>,
    pub extra: BTreeMap<String, Value>,
}

impl SubReport {
    pub fn new(name: &str) -> Self {
        SubReport {
            name: name.to_string(),
            evaluations: 0,
            nontrivial: HashSet::new(),
            samples: vec![],
            first_case: None,
            classes: BTreeMap::new(),
            exhaustive: false,
            failure: None,
            inconclusive: None,
            extra: BTreeMap::new(),
        }
    }

    pub fn record<T: Hash + Serialize>(&mut self, case: &T, info: &CaseInfo) {
        self.evaluations += 1;
        if self.first_case.is_none() {
            self.first_case = Some(serde_json::to_value(case).unwrap_or(Value::Null));
        }
        for c in &info.classes {
            *self.classes.entry((*c).to_string()).or_insert(0) += 1;
        }
        if info.nontrivial {
            let h = stable_hash(case);
            if self.nontrivial.insert(h) && self.samples.len() < 3 {
                self.samples
                    .push(serde_json::to_value(case).unwrap_or(Value::Null));
            }
        }
    }

    /// Rename the sub-check (also in a failure already recorded, so that its replay file routes correctly).
    pub fn rename(&mut self, name: String) {
        if let Some(f) = self.failure.as_mut() {
            f.sub = name.clone();
        }
        self.name = name;
    }

    pub fn fail<T: Serialize>(&mut self, case: &T, reason: String) {
        if self.failure.is_none() {
            self.failure = Some(Failure {
                sub: self.name.clone(),
                case: serde_json::to_value(case).unwrap_or(Value::Null),
                reason,
            });
        }
    }
}

impl SubReport {
    pub fn to_json(&self) -> Value {
        let mut nt: Vec<u64> = self.nontrivial.iter().copied().collect();
        nt.sort();
        json!({
            "name": self.name,
            "evaluations": self.evaluations,
            "nontrivial": nt,
            "samples": self.samples,
            "first_case": self.first_case,
            "classes": self.classes,
            "exhaustive": self.exhaustive,
            "failure": self.failure.as_ref().map(|f| json!({"sub": f.sub, "case": f.case, "reason": f.reason})),
            "inconclusive": self.inconclusive,
            "extra": self.extra,
        })
    }

    pub fn from_json(v: &Value) -> Option<SubReport> {
        let mut r = SubReport::new(v["name"].as_str()?);
        r.evaluations = v["evaluations"].as_u64()?;
        r.nontrivial = v["nontrivial"].as_array()?.iter().filter_map(|x| x.as_u64()).collect();
        r.samples = v["samples"].as_array().cloned().unwrap_or_default();
        r.first_case = if v["first_case"].is_null() { None } else { Some(v["first_case"].clone()) };
        if let Some(m) = v["classes"].as_object() {
            for (k, c) in m {
                r.classes.insert(k.clone(), c.as_u64().unwrap_or(0));
            }
        }
        r.exhaustive = v["exhaustive"].as_bool().unwrap_or(false);
        if v["failure"].is_object() {
            r.failure = Some(Failure {
                sub: v["failure"]["sub"].as_str().unwrap_or("").to_string(),
                case: v["failure"]["case"].clone(),
                reason: v["failure"]["reason"].as_str().unwrap_or("").to_string(),
            });
        }
        r.inconclusive = v["inconclusive"].as_str().map(|s| s.to_string());
        if let Some(m) = v["extra"].as_object() {
            for (k, x) in m {
                r.extra.insert(k.clone(), x.clone());
            }
        }
        Some(r)
    }
}

/// Run a sibling engine binary (same directory as the current executable) that prints one
/// SubReport as JSON on its last stdout line.
pub fn sub_report_from(engine: &str, args: &[&str], name: &str) -> SubReport {
    let fail = |msg: String| {
        let mut r = SubReport::new(name);
        r.inconclusive = Some(format!("HARNESS: {msg}"));
        r
    };
    let exe = match std::env::current_exe() {
        Ok(e) => e.with_file_name(engine),
        Err(e) => return fail(format!("current_exe: {e}")),
    };
    let out = match std::process::Command::new(&exe).args(args).output() {
        Ok(o) => o,
        Err(e) => return fail(format!("cannot run {}: {e}", exe.display())),
    };
    let stdout = String::from_utf8_lossy(&out.stdout);
    for line in stdout.lines().rev() {
        if let Ok(v) = serde_json::from_str::<Value>(line) {
            if let Some(r) = SubReport::from_json(&v) {
                return r;
            }
        }
    }
    fail(format!("{} printed no sub-report: {}", exe.display(), String::from_utf8_lossy(&out.stderr).chars().take(800).collect::<String>()))
}

const MAX_SAMPLE_BYTES: usize = 4000;

/// Run `f` over `cases` values drawn from `strat` with a seed derived from
/// (VERIF_SEED, property, sub). A failing case is shrunk by proptest; the shrunk
/// value is what ends up in the report.
pub fn run_proptest<T, S, F>(ctx: &Ctx, sub: &str, cases: u32, strat: S, f: F) -> SubReport
where
    T: Debug + Hash + Serialize + Clone,
    S: Strategy<Value = T>,
    F: Fn(&T) -> Result<CaseInfo, String>,
{
    let mut config = Config::default();
    config.cases = cases;
    config.failure_persistence = None;
    config.rng_seed = RngSeed::Fixed(ctx.sub_seed(sub));
    config.max_shrink_iters = 4096;
    config.max_global_rejects = 0;
    config.max_local_rejects = 65536;
    config.verbose = 0;
    let mut runner = TestRunner::new(config);

    let report = std::cell::RefCell::new(SubReport::new(sub));
    let failed = std::cell::Cell::new(false);

    let result = runner.run(&strat, |case| {
        match panics::catch(|| f(&case)) {
            Ok(Ok(info)) => {
                if !failed.get() {
                    report.borrow_mut().record(&case, &info);
                }
                Ok(())
            }
            Ok(Err(reason)) => {
                failed.set(true);
                Err(TestCaseError::fail(reason))
            }
            Err(panic_msg) => {
                // A panic escaping the property closure is a harness problem, but
                // let proptest shrink it all the same; it is reported as
                // inconclusive below.
                failed.set(true);
                Err(TestCaseError::fail(format!("HARNESS-PANIC: {panic_msg}")))
            }
        }
    });

    let mut report = report.into_inner();
    match result {
        Ok(()) => {}
        Err(TestError::Fail(reason, case)) => {
            let reason = reason.message().to_string();
            if reason.starts_with("HARNESS") {
                report.inconclusive = Some(format!(
                    "{reason}; case={}",
                    serde_json::to_string(&case).unwrap_or_default()
                ));
            } else {
                report.fail(&case, reason);
            }
        }
        Err(TestError::Abort(reason)) => {
            report.inconclusive = Some(format!("proptest aborted: {}", reason.message()));
        }
    }
    report
}

/// Run `f` over every element of a finite enumeration (exhaustive sub-space).
pub fn run_enumerated<T, I, F>(_ctx: &Ctx, sub: &str, iter: I, f: F) -> SubReport
where
    T: Hash + Serialize,
    I: IntoIterator<Item = T>,
    F: Fn(&T) -> Result<CaseInfo, String>,
{
    let mut report = SubReport::new(sub);
    report.exhaustive = true;
    for case in iter {
        match panics::catch(|| f(&case)) {
            Ok(Ok(info)) => report.record(&case, &info),
            Ok(Err(reason)) if reason.starts_with("HARNESS") => {
                report.inconclusive = Some(format!("{reason}; case={}", serde_json::to_string(&case).unwrap_or_default()));
                break;
            }
            Ok(Err(reason)) => {
                report.fail(&case, reason);
                break;
            }
            Err(msg) => {
                report.inconclusive = Some(format!(
                    "HARNESS-PANIC: {msg}; case={}",
                    serde_json::to_string(&case).unwrap_or_default()
                ));
                break;
            }
        }
    }
    report
}

// ------------------------------------------------------------------------------
// Known findings

#[derive(Clone, Debug, serde::Deserialize)]
pub struct Finding {
    pub property: String,
    pub signature: String,
    /// "known" or "fixed"
    pub status: String,
    #[serde(default)]
    pub commit: Option<String>,
    pub what_fails: String,
}

pub fn load_findings() -> Vec<Finding> {
    let path = verif_root().join("known_findings.json");
    match std::fs::read_to_string(&path) {
        Ok(s) => {
            #[derive(serde::Deserialize)]
            struct File {
                findings: Vec<Finding>,
            }
            serde_json::from_str::<File>(&s)
                .map(|f| f.findings)
                .unwrap_or_else(|e| {
                    eprintln!("known_findings.json does not parse: {e}");
                    std::process::exit(EXIT_INCONCLUSIVE)
                })
        }
        Err(_) => vec![],
    }
}

/// The finding with this signature if it is listed with status "known".
pub fn known_finding(prop: &str, signature: &str) -> Option<Finding> {
    load_findings()
        .into_iter()
        .find(|f| f.property == prop && f.signature == signature && f.status == "known")
}

// ------------------------------------------------------------------------------
// Evidence + verdict

pub struct Verdict {
    pub level: &'static str,
    pub rule: String,
    pub explanation: String,
    pub assumptions: Vec<String>,
    pub subs: Vec<SubReport>,
    /// (signature, what fails) of known findings confirmed by this run.
    pub known_findings: Vec<(String, String)>,
    pub excluded_known: u64,
}

impl Verdict {
    pub fn new(level: &'static str, rule: &str) -> Self {
        Verdict {
            level,
            rule: rule.to_string(),
            explanation: String::new(),
            assumptions: vec![],
            subs: vec![],
            known_findings: vec![],
            excluded_known: 0,
        }
    }
}

fn truncate_sample(v: Value) -> Value {
    let s = serde_json::to_string(&v).unwrap_or_default();
    if s.len() > MAX_SAMPLE_BYTES {
        let mut cut = MAX_SAMPLE_BYTES;
        while !s.is_char_boundary(cut) {
            cut -= 1;
        }
        json!({ "truncated_json": &s[..cut] })
    } else {
        v
    }
}

/// Writes evidence, prints the verdict lines, returns the process exit code.
pub fn finish(ctx: &Ctx, verdict: Verdict) -> i32 {
    let root = verif_root();
    let evaluations: u64 = verdict.subs.iter().map(|s| s.evaluations).sum();
    let mut distinct = 0u64;
    let mut samples: Vec<Value> = vec![];
    let mut sub_json = vec![];
    let mut any_exhaustive = false;
    let mut all_exhaustive = !verdict.subs.is_empty();
    for s in &verdict.subs {
        distinct += s.nontrivial.len() as u64;
        for smp in s.samples.iter().take(2) {
            samples.push(json!({"sub": s.name, "nontrivial": true, "case": truncate_sample(smp.clone())}));
        }
        if s.samples.is_empty() {
            if let Some(fc) = &s.first_case {
                samples.push(json!({"sub": s.name, "nontrivial": false, "case": truncate_sample(fc.clone())}));
            }
        }
        any_exhaustive |= s.exhaustive;
        all_exhaustive &= s.exhaustive;
        sub_json.push(json!({
            "sub": s.name,
            "evaluations": s.evaluations,
            "distinct_nontrivial": s.nontrivial.len(),
            "exhaustive": s.exhaustive,
            "classes": s.classes,
            "extra": s.extra,
        }));
    }

    let failures: Vec<&Failure> = verdict.subs.iter().filter_map(|s| s.failure.as_ref()).collect();
    let inconclusive: Vec<String> = verdict
        .subs
        .iter()
        .filter_map(|s| s.inconclusive.as_ref().map(|m| format!("{}: {}", s.name, m)))
        .collect();

    let mut explanation = verdict.explanation.clone();
    if any_exhaustive && !all_exhaustive {
        let names: Vec<&str> = verdict
            .subs
            .iter()
            .filter(|s| s.exhaustive)
            .map(|s| s.name.as_str())
            .collect();
        explanation.push_str(&format!(
            " Sub-checks enumerated exhaustively: {}; all others are sampled.",
            names.join(", ")
        ));
    }

    let evidence = json!({
        "property_id": ctx.prop,
        "tier": ctx.tier.name(),
        "seed": ctx.seed as i64,
        "level": verdict.level,
        "coverage": {
            "evaluations": evaluations,
            "distinct_nontrivial": distinct,
            "rule": verdict.rule,
            "samples": samples,
            "explanation": explanation,
            "exhaustive": all_exhaustive,
            "sub_checks": sub_json,
            "excluded_known": verdict.excluded_known,
            "known_findings_confirmed": verdict.known_findings.iter().map(|(s, _)| s.clone()).collect::<Vec<_>>(),
            "inconclusive": inconclusive,
        },
        "assumptions": verdict.assumptions,
        "wall_s": ctx.start.elapsed().as_secs_f64(),
        "violations": failures.len(),
    });
    let ev_dir = root.join("evidence");
    let _ = std::fs::create_dir_all(&ev_dir);
    let ev_path = ev_dir.join(format!("{}.json", ctx.prop));
    if let Err(e) = std::fs::write(&ev_path, serde_json::to_string_pretty(&evidence).unwrap()) {
        eprintln!("cannot write evidence {}: {e}", ev_path.display());
        return EXIT_INCONCLUSIVE;
    }

    for (sig, what) in &verdict.known_findings {
        println!("KNOWN-FINDING: property={} {} [{}]", ctx.prop, what, sig);
    }

    println!(
        "{} {} seed={} evaluations={} distinct_nontrivial={} wall={:.1}s",
        ctx.prop,
        ctx.tier.name(),
        ctx.seed,
        evaluations,
        distinct,
        ctx.start.elapsed().as_secs_f64()
    );
    for s in &verdict.subs {
        println!(
            "  sub={} evaluations={} distinct_nontrivial={}{} classes={:?}",
            s.name,
            s.evaluations,
            s.nontrivial.len(),
            if s.exhaustive { " exhaustive" } else { "" },
            s.classes
        );
    }

    if !failures.is_empty() {
        for f in &failures {
            let replay = json!({
                "property": ctx.prop,
                "sub": f.sub,
                "reason": f.reason,
                "case": f.case,
            });
            let text = serde_json::to_string_pretty(&replay).unwrap();
            let dir = root.join("replays").join("found");
            let _ = std::fs::create_dir_all(&dir);
            let name = format!("{}-{:016x}.json", ctx.prop, stable_hash(&text));
            let path = dir.join(name);
            let _ = std::fs::write(&path, text);
            println!("  failing sub-check {}: {}", f.sub, f.reason);
            println!("VIOLATION property={} replay={}", ctx.prop, path.display());
        }
        return EXIT_VIOLATION;
    }
    if !inconclusive.is_empty() {
        for m in &inconclusive {
            println!("INCONCLUSIVE {} {}", ctx.prop, m);
        }
        return EXIT_INCONCLUSIVE;
    }
    EXIT_OK
}

/// All replay files for a property (seed corpus first, then found), sorted by name.
pub fn replay_files(prop: &str) -> Vec<PathBuf> {
    let mut out = vec![];
    for dir in ["replays/seed", "replays/found"] {
        let d = verif_root().join(dir);
        let mut v: Vec<PathBuf> = std::fs::read_dir(&d)
            .map(|rd| {
                rd.filter_map(|e| e.ok().map(|e| e.path()))
                    .filter(|p| {
                        p.file_name()
                            .and_then(|n| n.to_str())
                            .map(|n| n.starts_with(&format!("{prop}-")) && n.ends_with(".json"))
                            .unwrap_or(false)
                    })
                    .collect()
            })
            .unwrap_or_default();
        v.sort();
        out.extend(v);
    }
    out
}

#[derive(serde::Deserialize)]
pub struct ReplayFile {
    pub property: String,
    pub sub: String,
    #[serde(default)]
    pub reason: String,
    pub case: Value,
}

pub fn load_replay(path: &std::path::Path) -> Result<ReplayFile, String> {
    let s = std::fs::read_to_string(path).map_err(|e| format!("{}: {e}", path.display()))?;
    serde_json::from_str(&s).map_err(|e| format!("{}: {e}", path.display()))
}
