//! Crash-isolated execution: cases that may abort the process (double panic) are
//! executed in a persistent child worker (`<exe> --worker <mode>`); one JSON line in,
//! one JSON line out. If the worker dies while a case is in flight, that case is
//! reported as `Crash` and a fresh worker is started.

use std::io::{BufRead, BufReader, Write};
use std::process::{Child, ChildStdin, ChildStdout, Command, Stdio};

pub struct Worker {
    mode: String,
    child: Option<(Child, ChildStdin, BufReader<ChildStdout>)>,
    pub spawned: u64,
}

#[derive(Debug, Clone)]
pub enum Reply {
    Line(String),
    /// the worker process died while executing the case (status text)
    Crash(String),
}

impl Worker {
    pub fn new(mode: &str) -> Self {
        Worker {
            mode: mode.to_string(),
            child: None,
            spawned: 0,
        }
    }

    fn ensure(&mut self) -> std::io::Result<()> {
        if self.child.is_none() {
            let exe = std::env::current_exe()?;
            let mut child = Command::new(exe)
                .arg("--worker")
                .arg(&self.mode)
                .env("RUST_BACKTRACE", "0")
                .stdin(Stdio::piped())
                .stdout(Stdio::piped())
                .stderr(Stdio::null())
                .spawn()?;
            let stdin = child.stdin.take().unwrap();
            let stdout = BufReader::new(child.stdout.take().unwrap());
            self.child = Some((child, stdin, stdout));
            self.spawned += 1;
        }
        Ok(())
    }

    pub fn run(&mut self, case_json: &str) -> Reply {
        if let Err(e) = self.ensure() {
            panic!("HARNESS: cannot spawn worker: {e}");
        }
        let (child, stdin, stdout) = self.child.as_mut().unwrap();
        let sent = writeln!(stdin, "{case_json}").and_then(|_| stdin.flush());
        let mut line = String::new();
        let got = if sent.is_ok() { stdout.read_line(&mut line) } else { Ok(0) };
        match got {
            Ok(n) if n > 0 && line.ends_with('\n') => Reply::Line(line.trim_end().to_string()),
            _ => {
                let status = child
                    .wait()
                    .map(|s| format!("{s}"))
                    .unwrap_or_else(|e| format!("wait failed: {e}"));
                self.child = None;
                Reply::Crash(status)
            }
        }
    }
}

impl Drop for Worker {
    fn drop(&mut self) {
        if let Some((mut child, stdin, _)) = self.child.take() {
            drop(stdin);
            let _ = child.wait();
        }
    }
}

/// Worker side: read cases line by line, answer each with one line.
pub fn serve(mut handle: impl FnMut(&str) -> String) {
    let stdin = std::io::stdin();
    let stdout = std::io::stdout();
    for line in stdin.lock().lines() {
        let Ok(line) = line else { break };
        let reply = handle(&line);
        let mut out = stdout.lock();
        let _ = writeln!(out, "{}", reply.replace('\n', " "));
        let _ = out.flush();
    }
}
