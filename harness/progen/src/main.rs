mod driver;
mod pat;
fn main() {}
