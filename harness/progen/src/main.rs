//! E2 — program generation engine: properties that quantify over programs.

mod c05;
mod c06;
mod c15;
mod c16;
mod c17;
mod c19;
mod cfail;
mod driver;
mod e2;
mod pat;

use serde_json::Value;
use vcore::{Ctx, Tier, EXIT_INCONCLUSIVE, EXIT_OK, EXIT_VIOLATION};

fn usage() -> ! {
    eprintln!("usage: progen <PROPERTY> [quick|thorough] | progen --replay <file>");
    std::process::exit(EXIT_INCONCLUSIVE)
}

type ReplayFn<'a> = &'a dyn Fn(&str, Value) -> Result<(), String>;

/// Replays every saved input of the property (one single-case build each).
pub fn replay_corpus(ctx: &Ctx, f: ReplayFn) -> vcore::SubReport {
    let mut rep = vcore::SubReport::new("replay-corpus");
    for path in vcore::replay_files(&ctx.prop) {
        let Ok(rf) = vcore::load_replay(&path) else {
            continue;
        };
        if rf.property != ctx.prop {
            continue;
        }
        rep.evaluations += 1;
        match f(&rf.sub, rf.case.clone()) {
            Ok(()) => {}
            Err(reason) if reason.starts_with("HARNESS") => {
                rep.inconclusive = Some(format!("{}: {reason}", path.display()));
            }
            Err(reason) => {
                if rep.failure.is_none() {
                    rep.failure = Some(vcore::Failure {
                        sub: rf.sub.clone(),
                        case: rf.case.clone(),
                        reason: format!("saved input {} fails again: {reason}", path.display()),
                    });
                }
            }
        }
    }
    rep
}

fn replay_case(prop: &str, sub: &str, case: Value) -> Result<(), String> {
    match prop {
        "C05" => c05::replay(sub, case),
        "C06" => c06::replay(sub, case),
        "C15" => c15::replay(sub, case),
        "C16" => c16::replay(sub, case),
        "C17" => c17::replay(sub, case),
        "C19" => c19::replay(sub, case),
        "C12" | "C14" if sub == "compile-fail" => cfail::replay(prop, case),
        other => Err(format!("HARNESS: progen has no replay for {other}")),
    }
}

fn main() {
    vcore::panics::install_quiet_hook();
    let args: Vec<String> = std::env::args().skip(1).collect();
    if args.is_empty() {
        usage();
    }
    if args[0] == "--sub-json" {
        // `progen --sub-json <C12|C14> <tier>`: one sub-report as JSON (used by the rt engine)
        let which = args.get(1).cloned().unwrap_or_default();
        let tier = if args.get(2).map(|s| s == "thorough").unwrap_or(false) {
            Tier::Thorough
        } else {
            Tier::Quick
        };
        let ctx = Ctx::new(&which, tier);
        let rep = cfail::run(&ctx, &which);
        println!("{}", serde_json::to_string(&rep.to_json()).unwrap());
        return;
    }
    if args[0] == "--cfail-only" {
        // `progen --cfail-only <C12|C14> <tier>`: used by ./check when the run-time engine does not build
        // against the current tree (a changed builder signature): the compile-time half still decides
        let which = args.get(1).cloned().unwrap_or_default();
        let tier = if args.get(2).map(|s| s == "thorough").unwrap_or(false) { Tier::Thorough } else { Tier::Quick };
        let ctx = Ctx::new(&which, tier);
        let mut v = vcore::Verdict::new("exploration", "compile-fail = every builder call chain of one or two segments over {some_call, next_call, each_call, stub} x {returns(Clone / non-Clone / composite values), answers} x {none, once, n_times, at_least_times}, judged by rustc against a type-level model of the builder (both directions)");
        v.explanation = "Only the compile-time half ran: the run-time engine (harness/rt) does not build against the current tree, which by itself means a builder signature changed.".into();
        let rep = cfail::run(&ctx, &which);
        let failed = rep.failure.is_some();
        v.subs.push(rep);
        if !failed {
            let mut r = vcore::SubReport::new("run-time-engine");
            r.inconclusive = Some("HARNESS: harness/rt does not build against the current tree (see logs/build-rt.log)".into());
            v.subs.push(r);
        }
        std::process::exit(vcore::finish(&ctx, v));
    }
    if args[0] == "--replay" {
        let Some(path) = args.get(1) else { usage() };
        let path = std::path::Path::new(path);
        let rf = match vcore::load_replay(path) {
            Ok(r) => r,
            Err(e) => {
                eprintln!("{e}");
                std::process::exit(EXIT_INCONCLUSIVE)
            }
        };
        let code = match replay_case(&rf.property, &rf.sub, rf.case.clone()) {
            Ok(()) => {
                println!(
                    "replay {}: property {} holds on this input",
                    path.display(),
                    rf.property
                );
                EXIT_OK
            }
            Err(r) if r.starts_with("HARNESS") => {
                println!("INCONCLUSIVE {r}");
                EXIT_INCONCLUSIVE
            }
            Err(r) => {
                println!("  {r}");
                println!(
                    "VIOLATION property={} replay={}",
                    rf.property,
                    path.display()
                );
                EXIT_VIOLATION
            }
        };
        std::process::exit(code);
    }
    let tier = match args
        .get(1)
        .cloned()
        .or_else(|| std::env::var("VERIF_TIER").ok())
        .as_deref()
    {
        Some("thorough") => Tier::Thorough,
        Some("quick") | None => Tier::Quick,
        Some(_) => usage(),
    };
    let ctx = Ctx::new(&args[0], tier);
    let verdict = match ctx.prop.as_str() {
        "C05" => c05::run(&ctx),
        "C06" => c06::run(&ctx),
        "C15" => c15::run(&ctx),
        "C16" => c16::run(&ctx),
        "C17" => c17::run(&ctx),
        "C19" => c19::run(&ctx),
        other => {
            eprintln!("progen: property {other} is not served by this engine");
            std::process::exit(EXIT_INCONCLUSIVE)
        }
    };
    std::process::exit(vcore::finish(&ctx, verdict));
}
