//! C06 — matching! accepts exactly what the equivalent Rust match would accept.

use proptest::prelude::*;
use serde::{Deserialize, Serialize};
use serde_json::Value;
use vcore::{CaseInfo, Ctx, Verdict};

use crate::e2::{self, Spec};
use crate::pat::*;

#[derive(Clone, Debug, PartialEq, Eq, Hash, Serialize, Deserialize)]
pub struct MatchCase {
    pub tys: Vec<Ty>,
    /// alternatives; each has one pattern per argument
    pub alts: Vec<Vec<P>>,
    pub guard: Option<G>,
    /// write a single alternative as `matching!((p0, p1))` instead of `matching!(p0, p1)`
    pub parenthesized: bool,
}

impl MatchCase {
    pub fn domain(&self) -> Vec<Vec<Val>> {
        let doms: Vec<Vec<Val>> = self.tys.iter().map(|t| t.domain()).collect();
        let mut out: Vec<Vec<Val>> = vec![vec![]];
        for d in &doms {
            let mut next = vec![];
            for prefix in &out {
                for v in d {
                    let mut p = prefix.clone();
                    p.push(v.clone());
                    next.push(p);
                }
            }
            out = next;
        }
        out
    }

    /// The property's right-hand side: would a Rust `match` with these patterns, guard and
    /// ==/!= comparisons select an arm?
    pub fn accepts(&self, args: &[Val]) -> bool {
        if self.tys.is_empty() {
            return true;
        }
        self.alts.iter().any(|alt| {
            let mut env = Env::new();
            alt.iter()
                .zip(args.iter())
                .all(|(p, v)| matches(p, v, &mut env))
                && self
                    .guard
                    .as_ref()
                    .map(|g| eval_guard(g, &env))
                    .unwrap_or(true)
        })
    }

    pub fn expected_bits(&self) -> String {
        self.domain()
            .iter()
            .map(|t| if self.accepts(t) { '1' } else { '0' })
            .collect()
    }

    pub fn macro_args(&self) -> String {
        if self.tys.is_empty() {
            return String::new();
        }
        let alt_str = |alt: &Vec<P>| {
            alt.iter()
                .zip(self.tys.iter())
                .map(|(p, t)| print_pat(p, *t))
                .collect::<Vec<_>>()
                .join(", ")
        };
        let body = if self.alts.len() == 1 && self.guard.is_none() {
            alt_str(&self.alts[0])
        } else {
            self.alts
                .iter()
                .map(|a| format!("({})", alt_str(a)))
                .collect::<Vec<_>>()
                .join(" | ")
        };
        match &self.guard {
            Some(g) => format!("{body} if {}", print_guard_user(g)),
            None => body,
        }
    }

    /// Is a plain `match` on references expressible (no AsRef coercion involved)?
    pub fn native_expressible(&self) -> bool {
        for (k, ty) in self.tys.iter().enumerate() {
            let coerces = self
                .alts
                .iter()
                .any(|alt| has_construct(&alt[k], &|p| matches!(p, P::Str(_) | P::Slice(..))));
            if coerces && matches!(ty, Ty::String | Ty::Newtype | Ty::VecU8) {
                return false;
            }
        }
        true
    }

    fn native_arms(&self) -> String {
        let mut arms = String::new();
        for alt in &self.alts {
            let mut pats = vec![];
            let mut guards = vec![];
            for (k, (p, t)) in alt.iter().zip(self.tys.iter()).enumerate() {
                match p {
                    P::Eq(v) => {
                        pats.push(format!("__m{k}"));
                        guards.push(format!("(__m{k} == {})", t.eq_operand(v)));
                    }
                    P::Ne(v) => {
                        pats.push(format!("__m{k}"));
                        guards.push(format!("(__m{k} != {})", t.eq_operand(v)));
                    }
                    p => pats.push(print_pat(p, *t)),
                }
            }
            if let Some(g) = &self.guard {
                guards.push(print_guard(g));
            }
            let pat = if pats.len() == 1 {
                pats[0].clone()
            } else {
                format!("({})", pats.join(", "))
            };
            let guard = if guards.is_empty() {
                String::new()
            } else {
                format!(" if {}", guards.join(" && "))
            };
            arms.push_str(&format!("            {pat}{guard} => true,\n"));
        }
        arms
    }
}

fn storage_ty(t: Ty) -> &'static str {
    match t {
        Ty::StrRef => "&'static str",
        Ty::SliceRef => "&'static [u8]",
        other => other.rust(),
    }
}

pub fn source(case: &MatchCase) -> String {
    let n = case.tys.len();
    let params: String = case
        .tys
        .iter()
        .enumerate()
        .map(|(k, t)| format!(", a{k}: {}", t.rust()))
        .collect();
    let mut s = String::new();
    s.push_str(&format!("#[unimock(api=M)]\npub trait T {{ fn f(&self{params}) -> u8; }}\n\npub fn run() -> String {{\n"));
    for (k, t) in case.tys.iter().enumerate() {
        let vals: Vec<String> = t.domain().iter().map(|v| t.arg_expr(v)).collect();
        s.push_str(&format!(
            "    let d{k}: Vec<{}> = vec![{}];\n",
            storage_ty(*t),
            vals.join(", ")
        ));
    }
    let pat = case.macro_args();
    s.push_str("    let mut unordered = String::new();\n    let mut ordered = String::new();\n    let mut native = String::new();\n");
    s.push_str(&format!(
        "    let u = Unimock::new(M::f.stub(|each| {{\n        each.call(matching!({pat})).returns(1u8);\n        each.call(&|m| m.func(|_, _| true)).returns(0u8);\n    }})).no_verify_in_drop();\n"
    ));
    for k in 0..n {
        s.push_str(&format!(
            "{}for i{k} in 0..d{k}.len() {{\n",
            "    ".repeat(k + 1)
        ));
    }
    let ind = "    ".repeat(n + 1);
    let args: String = case
        .tys
        .iter()
        .enumerate()
        .map(|(k, t)| match t {
            Ty::StrRef | Ty::SliceRef => format!(", d{k}[i{k}]"),
            _ => format!(", d{k}[i{k}].clone()"),
        })
        .collect();
    s.push_str(&format!("{ind}let r = <Unimock as T>::f(&u{args});\n"));
    s.push_str(&format!(
        "{ind}unordered.push(if r == 1 {{ '1' }} else {{ '0' }});\n"
    ));
    s.push_str(&format!("{ind}let o = Unimock::new(M::f.next_call(matching!({pat})).returns(1u8)).no_verify_in_drop();\n"));
    s.push_str(&format!(
        "{ind}let r = std::panic::catch_unwind(std::panic::AssertUnwindSafe(|| <Unimock as T>::f(&o{args})));\n"
    ));
    s.push_str(&format!(
        "{ind}ordered.push(match r {{ Ok(1) => '1', Ok(_) => '?', Err(_) => '0' }});\n"
    ));
    if n > 0 && case.native_expressible() {
        for (k, t) in case.tys.iter().enumerate() {
            match t {
                Ty::StrRef | Ty::SliceRef => s.push_str(&format!("{ind}let n{k} = d{k}[i{k}];\n")),
                _ => s.push_str(&format!("{ind}let n{k} = d{k}[i{k}].clone();\n")),
            }
        }
        // reference-typed arguments matched against string literals / slice patterns: the macro
        // converts them with as_str_ref / as_slice; the native equivalent matches the reference itself
        let scr = |k: usize| {
            let coerces = case
                .alts
                .iter()
                .any(|alt| has_construct(&alt[k], &|p| matches!(p, P::Str(_) | P::Slice(..))));
            if coerces && matches!(case.tys[k], Ty::StrRef | Ty::SliceRef) {
                format!("n{k}")
            } else {
                format!("&n{k}")
            }
        };
        let scrutinee = if n == 1 {
            scr(0)
        } else {
            format!("({})", (0..n).map(scr).collect::<Vec<_>>().join(", "))
        };
        s.push_str(&format!(
            "{ind}let nat = match {scrutinee} {{\n{}            _ => false,\n{ind}}};\n",
            case.native_arms()
        ));
        s.push_str(&format!(
            "{ind}native.push(if nat {{ '1' }} else {{ '0' }});\n"
        ));
    }
    for k in (0..n).rev() {
        s.push_str(&format!("{}}}\n", "    ".repeat(k + 1)));
    }
    s.push_str("    format!(\"{{\\\"u\\\":\\\"{}\\\",\\\"o\\\":\\\"{}\\\",\\\"n\\\":\\\"{}\\\"}}\", unordered, ordered, native)\n}\n");
    s
}

pub fn constructs(case: &MatchCase) -> Vec<&'static str> {
    let mut c = vec![];
    let any = |f: &dyn Fn(&P) -> bool| {
        case.alts
            .iter()
            .any(|a| a.iter().any(|p| has_construct(p, f)))
    };
    if any(&|p| matches!(p, P::Or(_))) {
        c.push("or-pattern");
    }
    if case.guard.is_some() {
        c.push("guard");
    }
    if any(&|p| matches!(p, P::Eq(_))) {
        c.push("eq!");
    }
    if any(&|p| matches!(p, P::Ne(_))) {
        c.push("ne!");
    }
    if case.alts.len() > 1 {
        c.push("alternatives");
    }
    if any(&|p| matches!(p, P::Slice(_, Some(_), _))) {
        c.push("slice-rest");
    }
    if !case.native_expressible() {
        c.push("asref-coercion");
    }
    if any(&|p| matches!(p, P::At(..))) {
        c.push("@-binding");
    }
    if any(&|p| matches!(p, P::Range(..) | P::CharRange(..))) {
        c.push("range");
    }
    if any(&|p| {
        matches!(
            p,
            P::EC(..) | P::S(..) | P::EB(_) | P::Some(_) | P::Pair(..)
        )
    }) {
        c.push("nested-structure");
    }
    c
}

pub fn judge(case: &MatchCase, line: &str) -> Result<CaseInfo, String> {
    let v: Value =
        serde_json::from_str(line).map_err(|e| format!("HARNESS: bad output line {e}: {line}"))?;
    let (u, o, n) = (
        v["u"].as_str().unwrap_or(""),
        v["o"].as_str().unwrap_or(""),
        v["n"].as_str().unwrap_or(""),
    );
    let exp = case.expected_bits();
    if !n.is_empty() && n != exp {
        return Err(format!(
            "HARNESS: the pattern evaluator disagrees with a native Rust match: evaluator {exp}, native {n}"
        ));
    }
    let dom = case.domain();
    let first_diff = |bits: &str| -> String {
        for (i, (a, b)) in bits.chars().zip(exp.chars()).enumerate() {
            if a != b {
                return format!(
                    "arguments {:?}: matching! {} them, a Rust match {} them",
                    dom[i],
                    if a == '1' { "accepts" } else { "rejects" },
                    if b == '1' { "accepts" } else { "rejects" }
                );
            }
        }
        format!("length {} vs {}", bits.len(), exp.len())
    };
    if u != exp {
        return Err(format!(
            "matching!({}) in unordered evaluation (diagnostics off): {}",
            case.macro_args(),
            first_diff(u)
        ));
    }
    if o != exp {
        return Err(format!(
            "matching!({}) in ordered evaluation (diagnostics on): {}",
            case.macro_args(),
            first_diff(o)
        ));
    }
    if !exp.contains('0') && std::env::var_os("VERIF_DEBUG_C06").is_some() {
        eprintln!("ACCEPT-ALL {:?} :: {}", case.tys, case.macro_args());
    }
    let cs = constructs(case);
    let mixed = exp.contains('1') && exp.contains('0');
    let mut info = CaseInfo::new(cs.len() >= 2 && mixed)
        .class_if(!n.is_empty(), "native-match-cross-check")
        .class_if(!mixed && exp.contains('1'), "accepts-everything")
        .class_if(!mixed && !exp.contains('1'), "accepts-nothing");
    let macro_like = {
        let mut found = false;
        let mut c2 = case.clone();
        for alt in c2.alts.iter_mut() {
            for p in alt.iter_mut() {
                visit_names_p(p, &mut |n: &mut String| found |= MACRO_LIKE_NAMES.contains(&n.as_str()) || (n.len() == 2 && (n.starts_with('m') || n.starts_with('l')) && n.as_bytes()[1].is_ascii_digit()));
            }
        }
        found
    };
    info = info.class_if(macro_like, "binding-named-like-a-macro-internal(a0,l0,reporter..)");
    let moving = case.alts.len() >= 2 && {
        let pos_of = |alt: &Vec<P>| alt.iter().position(|p| matches!(p, P::Bind(n) if n == "mv"));
        let first = pos_of(&case.alts[0]);
        first.is_some() && case.alts.iter().any(|a| pos_of(a) != first)
    };
    info = info.class_if(moving, "guard-variable-bound-at-different-positions");
    info.classes.extend(cs);
    Ok(info)
}

pub fn case_strategy() -> impl Strategy<Value = MatchCase> {
    let arity = prop_oneof![1 => Just(0usize), 8 => Just(1usize), 10 => Just(2usize), 8 => Just(3usize), 5 => Just(4usize)];
    let tys = arity
        .prop_flat_map(|n| proptest::collection::vec(0..ALL_TYS.len(), n))
        .prop_map(|idx| {
            // keep the product domain small
            let mut tys: Vec<Ty> = vec![];
            let mut size = 1usize;
            for i in idx {
                let t = ALL_TYS[i];
                let d = t.domain().len();
                if size * d <= 300 {
                    size *= d;
                    tys.push(t);
                }
            }
            tys
        });
    let n_alts = prop_oneof![6 => Just(1usize), 3 => Just(2usize), 2 => Just(3usize)];
    (
        tys,
        n_alts,
        proptest::collection::vec(any::<bool>(), 4),
        any::<u8>(),
        any::<bool>(),
    )
        .prop_flat_map(|(mut tys, mut n_alts, structural, guard_sel, parenthesized)| {
            if guard_sel % 5 == 2 && tys.len() >= 2 {
                // the "guard variable moves between alternatives" family needs two positions of one
                // simple type and at least two alternatives
                let t = if guard_sel % 2 == 0 { Ty::U8 } else { Ty::Bool };
                tys[0] = t;
                tys[1] = t;
                let mut size = 1usize;
                tys.retain(|t| {
                    let d = t.domain().len();
                    if size * d <= 300 {
                        size *= d;
                        true
                    } else {
                        false
                    }
                });
                n_alts = n_alts.max(2);
            }
            let n_alts = if tys.is_empty() { 1 } else { n_alts };
            let mut alts: Vec<BoxedStrategy<Vec<(P, Vec<(String, VarKind)>)>>> = vec![];
            for _ in 0..n_alts {
                let mut positions: Vec<BoxedStrategy<(P, Vec<(String, VarKind)>)>> = vec![];
                for (k, t) in tys.iter().enumerate() {
                    let coercing = matches!(
                        t,
                        Ty::StrRef | Ty::String | Ty::Newtype | Ty::VecU8 | Ty::SliceRef
                    );
                    let st = !coercing || structural[k];
                    let allow_eq = !coercing || !structural[k];
                    positions.push(arg_pat_mode(*t, format!("v{k}"), st, allow_eq));
                }
                alts.push(positions.into_iter().collect::<Vec<_>>().boxed());
            }
            let tys2 = tys.clone();
            alts.prop_flat_map(move |alts| {
                // guard variables: bound (with the same kind) in every alternative
                let mut common: Vec<(String, VarKind)> =
                    alts[0].iter().flat_map(|(_, v)| v.clone()).collect();
                for alt in &alts[1..] {
                    let vars: Vec<(String, VarKind)> =
                        alt.iter().flat_map(|(_, v)| v.clone()).collect();
                    common.retain(|c| vars.contains(c));
                }
                let pats: Vec<Vec<P>> = alts
                    .iter()
                    .map(|a| a.iter().map(|(p, _)| p.clone()).collect())
                    .collect();
                let want_guard = !tys2.is_empty() && (guard_sel % 3 == 0);
                let tys3 = tys2.clone();
                let g: BoxedStrategy<Option<G>> = if want_guard {
                    guard(common).prop_map(Some).boxed()
                } else {
                    Just(None).boxed()
                };
                g.prop_map(move |guard| {
                    let mut case = MatchCase {
                        tys: tys3.clone(),
                        alts: pats.clone(),
                        guard,
                        parenthesized,
                    };
                    // a pattern that rejects the whole domain exercises little: generalise the first
                    // alternative just enough to accept one tuple (chosen by the guard selector byte)
                    let dom = case.domain();
                    if !dom.is_empty()
                        && !case.tys.is_empty()
                        && !dom.iter().any(|t| case.accepts(t))
                    {
                        // the (alternative, tuple) pair with the fewest rejecting positions
                        let mut best: Option<(usize, usize, usize)> = None;
                        for (ai, alt) in case.alts.iter().enumerate() {
                            for (ti, t) in dom.iter().enumerate() {
                                let rejecting = alt
                                    .iter()
                                    .zip(t.iter())
                                    .filter(|(p, v)| !matches(p, v, &mut Env::new()))
                                    .count();
                                let ti_rot = (ti + guard_sel as usize) % dom.len();
                                if best
                                    .map(|(r, _, tr)| {
                                        rejecting < r || (rejecting == r && ti_rot < tr)
                                    })
                                    .unwrap_or(true)
                                {
                                    best = Some((rejecting, ai, ti_rot));
                                    if rejecting == 0 {
                                        break;
                                    }
                                }
                            }
                        }
                        let (_, ai, ti_rot) = best.unwrap();
                        let ti = (ti_rot + dom.len() - guard_sel as usize % dom.len()) % dom.len();
                        let target = dom[ti].clone();
                        let mut replaced = false;
                        for (k, v) in target.iter().enumerate() {
                            let mut env = Env::new();
                            if !matches(&case.alts[ai][k], v, &mut env) {
                                case.alts[ai][k] = P::Wild;
                                replaced = true;
                            }
                        }
                        if replaced {
                            // the guard may refer to a binding that was just generalised away
                            case.guard = None;
                        }
                        if !case.accepts(&target) {
                            // the guard (or a binding it needs, now generalised away) is in the way
                            case.guard = None;
                        }
                    }
                    if guard_sel % 5 == 2 && case.alts.len() >= 2 {
                        // the guard's variable is bound at a DIFFERENT position in each alternative
                        // (`(x, _) | (_, x) if ..`): which alternative accepts depends on the guard
                        for want in [Ty::U8, Ty::Bool] {
                            let positions: Vec<usize> = case.tys.iter().enumerate().filter(|(_, t)| **t == want).map(|(k, _)| k).collect();
                            if positions.len() < 2 {
                                continue;
                            }
                            let catch_all_first = guard_sel % 2 == 0;
                            for (a, alt) in case.alts.iter_mut().enumerate() {
                                let at = positions[(a + guard_sel as usize / 5) % positions.len()];
                                alt[at] = P::Bind("mv".to_string());
                                if a == 0 && catch_all_first {
                                    for (k, p) in alt.iter_mut().enumerate() {
                                        if k != at {
                                            *p = P::Wild;
                                        }
                                    }
                                }
                            }
                            case.guard = Some(match want {
                                Ty::U8 => G::CmpConst("mv".to_string(), [Op::Eq, Op::Lt, Op::Gt, Op::Ne][guard_sel as usize / 10 % 4], guard_sel / 40 % 4),
                                _ => G::BoolVar("mv".to_string(), guard_sel / 10 % 2 == 1),
                            });
                            break;
                        }
                    }
                    if guard_sel % 4 == 1 {
                        // bindings named like identifiers the macro generates itself
                        let mut map: Vec<(String, String)> = vec![];
                        // with eq!/ne! in the pattern the macro also defines l<n> (operands) and m<position>
                        let has_cmp = case.alts.iter().flatten().any(|p| has_construct(p, &|q| matches!(q, P::Eq(_) | P::Ne(_))));
                        let names: Vec<String> = if has_cmp {
                            // the closure parameter of an eq!/ne! position first, then the operand locals
                            let mut v: Vec<String> = vec![];
                            for alt in &case.alts {
                                for (k, p) in alt.iter().enumerate() {
                                    if matches!(p, P::Eq(_) | P::Ne(_)) {
                                        v.push(format!("a{k}"));
                                    }
                                }
                            }
                            v.extend(["l0".to_string(), "l1".to_string()]);
                            v.extend((0..case.tys.len()).map(|k| format!("m{k}")));
                            v.extend(MACRO_LIKE_NAMES.iter().map(|s| s.to_string()));
                            v.dedup();
                            let mut seen = std::collections::BTreeSet::new();
                            v.retain(|x| seen.insert(x.clone()));
                            v
                        } else {
                            MACRO_LIKE_NAMES.iter().map(|s| s.to_string()).collect()
                        };
                        let rot = if has_cmp { (guard_sel as usize / 4) % 4 } else { guard_sel as usize / 4 };
                        let mut rename = |n: &mut String| {
                            if let Some((_, to)) = map.iter().find(|(from, _)| from == n) {
                                *n = to.clone();
                            } else if map.len() < names.len() {
                                let to = names[(map.len() + rot) % names.len()].clone();
                                map.push((n.clone(), to.clone()));
                                *n = to;
                            }
                        };
                        for alt in case.alts.iter_mut() {
                            for p in alt.iter_mut() {
                                visit_names_p(p, &mut rename);
                            }
                        }
                        if let Some(g) = case.guard.as_mut() {
                            visit_names_g(g, &mut rename);
                        }
                    }
                    case
                })
            })
        })
}

fn arg_pat_mode(
    t: Ty,
    prefix: String,
    structural: bool,
    allow_eq: bool,
) -> BoxedStrategy<(P, Vec<(String, VarKind)>)> {
    arg_pat(t, prefix, structural, allow_eq, true)
        .prop_map(move |(p, v)| {
            // in non-structural mode a coercing type must not produce literal / slice patterns
            if !structural && has_construct(&p, &|q| matches!(q, P::Str(_) | P::Slice(..))) {
                (P::Wild, vec![])
            } else {
                (p, v)
            }
        })
        .boxed()
}

pub const RULE: &str = "programs = generated `matching!` invocations over 0-4 arguments typed from {u8, bool, char, &str, String, newtype with AsRef<str>, Option<u8>, (u8,u8), enum with unit/tuple/struct variants, struct, Vec<u8>, &[u8]}: literals, ranges, wildcards, bindings, @-bindings, or-patterns, Option/tuple/struct/enum patterns, slice patterns with rest, string literals against &str/String/newtypes, eq!/ne!, 1-3 top-level alternatives, guards over bound variables, simple and parenthesized forms, matching!(); each evaluated on EVERY tuple of the finite product domain (<= 300 tuples) in unordered (diagnostics off) and ordered (diagnostics on) evaluation. Oracle: the generator's own pattern interpreter; for patterns without AsRef coercion a native Rust match in the generated program cross-checks the interpreter. Non-trivial = >= 2 constructs among {or, guard, eq!, ne!, alternatives, slice rest, coercion, @-binding, range, nested structure} and the pattern accepts some tuples and rejects others; distinct = distinct pattern";

fn spec<'a>() -> Spec<'a, MatchCase> {
    Spec {
        project: "C06",
        prelude: PRELUDE,
        source: &source,
        judge: &judge,
        nbins: 16,
        max_shrink_steps: 30,
        extra_deps: "",
    }
}

pub fn run(ctx: &Ctx) -> Verdict {
    let mut v = Verdict::new("exploration", RULE);
    v.explanation = "Each generated pattern is compiled into a program that asks the real mock, for every tuple of the domain, whether the pattern answers the call (unordered stub with a catch-all behind it; fresh next_call mock per tuple). Both truth tables must equal the interpreter's.".into();
    v.assumptions = vec![
        "the type-directed grammar only produces patterns the macro accepts for the argument type (rejected programs are counted, > 5% = inconclusive)".into(),
        "rustc's own match semantics are trusted for the cross-check of the interpreter".into(),
    ];
    v.subs
        .push(crate::replay_corpus(ctx, &|sub, case| replay(sub, case)));
    v.subs.push(run_documented(ctx));
    let n = ctx.tier.pick(1600, 32_000) as usize;
    let batches = n.div_ceil(1600);
    for b in 0..batches {
        let count = (n / batches).max(1);
        let sub = if batches == 1 {
            "patterns".to_string()
        } else {
            format!("patterns-{b}")
        };
        v.subs
            .push(e2::run(ctx, &sub, case_strategy(), count, &spec()));
        if v.subs
            .last()
            .map(|s| s.failure.is_some() || s.inconclusive.is_some())
            .unwrap_or(false)
        {
            break;
        }
    }
    v
}

/// Forms the documentation of `matching!` shows verbatim: they must compile (a rejection is a
/// violation here, not a domain filter) and behave like the equivalent match.
pub fn documented_forms() -> Vec<MatchCase> {
    let s = |x: &str| P::Str(x.to_string());
    vec![
        // matching!((1, 2) | (3, 4) | (5, 6))
        MatchCase {
            tys: vec![Ty::U8, Ty::U8],
            alts: vec![
                vec![P::U8(1), P::U8(2)],
                vec![P::U8(3), P::U8(5)],
                vec![P::U8(5), P::U8(9)],
            ],
            guard: None,
            parenthesized: false,
        },
        // matching!("a", _, "c" | "C") on &str arguments
        MatchCase {
            tys: vec![Ty::StrRef, Ty::StrRef, Ty::StrRef],
            alts: vec![vec![s("a"), P::Wild, P::Or(vec![s("b"), s("ab")])]],
            guard: None,
            parenthesized: false,
        },
        // matching!(("a", "b", "c") | ("d", "e", "f" | "F"))
        MatchCase {
            tys: vec![Ty::StrRef, Ty::StrRef, Ty::StrRef],
            alts: vec![
                vec![s("a"), s("b"), s("ab")],
                vec![s(""), s("a"), P::Or(vec![s("b"), s("ab")])],
            ],
            guard: None,
            parenthesized: false,
        },
        // four alternatives over String / newtype / i32-like arguments: ("a", _, "c", _) | (_, "b", _, 42) | ..
        MatchCase {
            tys: vec![Ty::String, Ty::Newtype, Ty::U8],
            alts: vec![
                vec![s("a"), P::Wild, P::Wild],
                vec![P::Wild, s("b"), P::U8(3)],
                vec![s("ab"), s("ab"), P::Wild],
                vec![P::Wild, P::Wild, P::U8(9)],
            ],
            guard: None,
            parenthesized: false,
        },
        // matching!((a, 1) | (a, 2) | (a, 3) if ..)
        MatchCase {
            tys: vec![Ty::U8, Ty::U8],
            alts: vec![
                vec![P::Bind("v0w".into()), P::U8(1)],
                vec![P::Bind("v0w".into()), P::U8(2)],
                vec![P::Bind("v0w".into()), P::U8(3)],
            ],
            guard: Some(G::CmpConst("v0w".into(), Op::Gt, 1)),
            parenthesized: false,
        },
        // matching!()
        MatchCase {
            tys: vec![],
            alts: vec![vec![]],
            guard: None,
            parenthesized: false,
        },
    ]
}

pub fn run_documented(ctx: &Ctx) -> vcore::SubReport {
    let mut rep = vcore::SubReport::new("documented-forms");
    rep.exhaustive = true;
    let cases = documented_forms();
    let project = crate::driver::Project::new("C06-doc", PRELUDE);
    let gen: Vec<crate::driver::GenCase> = cases
        .iter()
        .enumerate()
        .map(|(id, c)| crate::driver::GenCase {
            id,
            source: source(c),
        })
        .collect();
    let _ = ctx;
    match project.run_batch(&gen, 2) {
        Err(e) => rep.inconclusive = Some(format!("HARNESS: {e}")),
        Ok(res) => {
            for (id, c) in cases.iter().enumerate() {
                if let Some(err) = res.rejected.get(&id) {
                    rep.fail(
                        c,
                        format!(
                            "documented form matching!({}) does not compile: {}",
                            c.macro_args(),
                            err.lines().next().unwrap_or("")
                        ),
                    );
                    break;
                }
                match res.lines.get(&id) {
                    Some(line) => match judge(c, line) {
                        Ok(_) => rep.record(c, &CaseInfo::new(true).class("documented-form")),
                        Err(r) if r.starts_with("HARNESS") => {
                            rep.inconclusive = Some(r);
                            break;
                        }
                        Err(r) => {
                            rep.fail(c, r);
                            break;
                        }
                    },
                    None => {
                        rep.inconclusive = Some("HARNESS: no output for a documented form".into());
                        break;
                    }
                }
            }
        }
    }
    rep
}

pub fn replay(_sub: &str, case: Value) -> Result<(), String> {
    let c: MatchCase =
        serde_json::from_value(case).map_err(|e| format!("HARNESS: bad case: {e}"))?;
    match e2::run_single(&spec(), &c) {
        Ok(r) => r.map(|_| ()),
        Err(e) => Err(format!("HARNESS: {e}")),
    }
}
