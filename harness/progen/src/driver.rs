//! E2 driver: writes generated cases into a scratch crate under harness/work/<name>/,
//! builds it with cargo (offline, path-dependency on /repo), runs the bins and collects
//! one observation line per case. Compile errors are attributed to case files.

use std::collections::{BTreeMap, BTreeSet};
use std::path::{Path, PathBuf};
use std::process::Command;

#[derive(Clone, Debug)]
pub struct GenCase {
    pub id: usize,
    /// Rust source of the case module body. Must define `pub fn run() -> String`
    /// (one line of JSON, no newline).
    pub source: String,
}

pub struct BatchResult {
    /// case id -> output line
    pub lines: BTreeMap<usize, String>,
    /// case id -> first compiler error that mentions its file
    pub rejected: BTreeMap<usize, String>,
    /// cases whose bin crashed before printing their line (case id -> note)
    pub crashed: BTreeMap<usize, String>,
    pub build_secs: f64,
    pub run_secs: f64,
}

pub fn work_dir(name: &str) -> PathBuf {
    vcore::verif_root().join("harness").join("work").join(name)
}

fn unimock_features() -> &'static str {
    r#"["std", "pretty-print", "mock-core", "mock-std"]"#
}

pub const BIN_MAIN: &str = r#"
fn main() {
    std::panic::set_hook(Box::new(|_| {}));
    let only: Option<usize> = std::env::args().nth(1).and_then(|s| s.parse().ok());
    for (id, f) in CASES {
        if let Some(o) = only { if o != *id { continue; } }
        let r = std::panic::catch_unwind(|| f());
        match r {
            Ok(line) => println!("CASE {} {}", id, line.replace('\n', " ")),
            Err(p) => {
                let msg = if let Some(s) = p.downcast_ref::<String>() { s.clone() } else if let Some(s) = p.downcast_ref::<&str>() { s.to_string() } else { "?".to_string() };
                println!("CASE {} {{\"harness_panic\":{:?}}}", id, msg)
            }
        }
    }
}
"#;

pub struct Project {
    pub name: String,
    pub dir: PathBuf,
    pub prelude: String,
    pub extra_deps: String,
}

impl Project {
    pub fn new(name: &str, prelude: &str) -> Project {
        Project {
            name: name.to_string(),
            dir: work_dir(name),
            prelude: prelude.to_string(),
            extra_deps: String::new(),
        }
    }

    fn write(&self, cases: &[GenCase], nbins: usize) -> std::io::Result<Vec<Vec<usize>>> {
        let src = self.dir.join("src");
        let _ = std::fs::remove_dir_all(&src);
        std::fs::create_dir_all(src.join("bin"))?;
        std::fs::create_dir_all(src.join("cases"))?;
        let lock_src = Path::new("/repo/Cargo.lock");
        let lock_dst = self.dir.join("Cargo.lock");
        if !lock_dst.exists() {
            // start from the harness lock file (superset of /repo's)
            let harness_lock = vcore::verif_root().join("harness").join("Cargo.lock");
            let from = if harness_lock.exists() {
                harness_lock
            } else {
                lock_src.to_path_buf()
            };
            let _ = std::fs::copy(from, &lock_dst);
        }
        std::fs::write(
            self.dir.join("Cargo.toml"),
            format!(
                "[package]\nname = \"gen_{}\"\nversion = \"0.0.0\"\nedition = \"2021\"\n\n[workspace]\n\n[dependencies]\nunimock = {{ path = \"/repo\", default-features = false, features = {} }}\n{}\n[profile.dev]\ndebug = false\nincremental = false\nopt-level = 0\n",
                self.name.to_lowercase(),
                unimock_features(),
                self.extra_deps
            ),
        )?;
        std::fs::write(src.join("prelude.rs"), &self.prelude)?;
        for c in cases {
            std::fs::write(
                src.join("cases").join(format!("c{}.rs", c.id)),
                format!("#![allow(unused, non_snake_case, non_camel_case_types, clippy::all)]\nuse crate::prelude::*;\n{}\n", c.source),
            )?;
        }
        let nbins = nbins.max(1).min(cases.len().max(1));
        let mut bins: Vec<Vec<usize>> = vec![vec![]; nbins];
        for (k, c) in cases.iter().enumerate() {
            bins[k % nbins].push(c.id);
        }
        for (b, ids) in bins.iter().enumerate() {
            let mut s =
                String::from("#![allow(unused)]\n#[path = \"../prelude.rs\"]\nmod prelude;\n");
            for id in ids {
                s.push_str(&format!("#[path = \"../cases/c{id}.rs\"]\nmod c{id};\n"));
            }
            s.push_str("static CASES: &[(usize, fn() -> String)] = &[\n");
            for id in ids {
                s.push_str(&format!("    ({id}, c{id}::run),\n"));
            }
            s.push_str("];\n");
            s.push_str(BIN_MAIN);
            std::fs::write(
                src.join("bin")
                    .join(format!("{}_b{b}.rs", self.name.to_lowercase())),
                s,
            )?;
        }
        Ok(bins)
    }

    fn cargo(&self) -> Command {
        let mut c = Command::new("cargo");
        c.current_dir(&self.dir)
            .env("CARGO_NET_OFFLINE", "true")
            .env("CARGO_TARGET_DIR", work_dir("target-gen"))
            .env("RUST_BACKTRACE", "0");
        c
    }

    /// Build all bins; returns per-file error attribution (case id -> message) and whether
    /// errors outside case files occurred (fatal).
    fn build(&self, check_only: bool) -> Result<BTreeMap<usize, String>, String> {
        let mut cmd = self.cargo();
        cmd.arg(if check_only { "check" } else { "build" })
            .arg("--bins")
            .arg("--offline")
            .arg("--keep-going")
            .arg("--message-format=json")
            .arg("-q");
        let out = cmd.output().map_err(|e| format!("cannot run cargo: {e}"))?;
        let stdout = String::from_utf8_lossy(&out.stdout);
        let mut rejected: BTreeMap<usize, String> = BTreeMap::new();
        let mut other_errors = vec![];
        for line in stdout.lines() {
            let Ok(v) = serde_json::from_str::<serde_json::Value>(line) else {
                continue;
            };
            if v["reason"] != "compiler-message" {
                continue;
            }
            let m = &v["message"];
            if m["level"] != "error" {
                continue;
            }
            let text = m["rendered"].as_str().unwrap_or("").to_string();
            let mut attributed = false;
            let mut files: Vec<String> = vec![];
            collect_files(m, &mut files);
            for f in files {
                if let Some(id) = case_id_of(&f) {
                    rejected.entry(id).or_insert_with(|| text.clone());
                    attributed = true;
                }
            }
            if !attributed
                && !text.contains("aborting due to")
                && !text.contains("could not compile")
            {
                other_errors.push(text);
            }
        }
        if !out.status.success() && rejected.is_empty() {
            let stderr = String::from_utf8_lossy(&out.stderr);
            return Err(format!(
                "cargo failed without attributable errors:\n{}\n{}",
                other_errors.join("\n"),
                stderr
                    .chars()
                    .rev()
                    .take(3000)
                    .collect::<String>()
                    .chars()
                    .rev()
                    .collect::<String>()
            ));
        }
        Ok(rejected)
    }

    /// Build and run the cases. Cases rustc rejects are removed and the rest rebuilt (up to 3 rounds).
    pub fn run_batch(&self, cases: &[GenCase], nbins: usize) -> Result<BatchResult, String> {
        let t0 = std::time::Instant::now();
        let mut remaining: Vec<GenCase> = cases.to_vec();
        let mut rejected_all: BTreeMap<usize, String> = BTreeMap::new();
        let mut bins = vec![];
        for _round in 0..4 {
            bins = self
                .write(&remaining, nbins)
                .map_err(|e| format!("cannot write project: {e}"))?;
            let rejected = self.build(false)?;
            if rejected.is_empty() {
                break;
            }
            let ids: BTreeSet<usize> = rejected.keys().copied().collect();
            rejected_all.extend(rejected);
            remaining.retain(|c| !ids.contains(&c.id));
        }
        let build_secs = t0.elapsed().as_secs_f64();
        let t1 = std::time::Instant::now();
        let mut lines = BTreeMap::new();
        let mut crashed = BTreeMap::new();
        // run the bins in parallel
        let target = work_dir("target-gen").join("debug");
        let handles: Vec<_> = bins
            .iter()
            .enumerate()
            .map(|(b, ids)| {
                let exe = target.join(format!("{}_b{b}", self.name.to_lowercase()));
                let ids = ids.clone();
                std::thread::spawn(move || {
                    let out = Command::new(&exe).env("RUST_BACKTRACE", "0").output();
                    (ids, exe, out)
                })
            })
            .collect();
        for h in handles {
            let (ids, exe, out) = h.join().map_err(|_| "runner thread panicked".to_string())?;
            let out = out.map_err(|e| format!("cannot run {}: {e}", exe.display()))?;
            let stdout = String::from_utf8_lossy(&out.stdout);
            for l in stdout.lines() {
                if let Some(rest) = l.strip_prefix("CASE ") {
                    if let Some((id, json)) = rest.split_once(' ') {
                        if let Ok(id) = id.parse::<usize>() {
                            lines.insert(id, json.to_string());
                        }
                    }
                }
            }
            if !out.status.success() {
                // the bin died (abort / stack overflow): re-run the missing cases one by one
                for id in ids {
                    if lines.contains_key(&id) {
                        continue;
                    }
                    let one = Command::new(&exe)
                        .arg(id.to_string())
                        .env("RUST_BACKTRACE", "0")
                        .output();
                    match one {
                        Ok(o) => {
                            let so = String::from_utf8_lossy(&o.stdout);
                            let mut found = false;
                            for l in so.lines() {
                                if let Some(rest) = l.strip_prefix("CASE ") {
                                    if let Some((i, json)) = rest.split_once(' ') {
                                        if i.parse::<usize>().ok() == Some(id) {
                                            lines.insert(id, json.to_string());
                                            found = true;
                                        }
                                    }
                                }
                            }
                            if !found {
                                crashed.insert(
                                    id,
                                    format!("process ended with {} before reporting", o.status),
                                );
                            }
                        }
                        Err(e) => {
                            crashed.insert(id, format!("cannot run: {e}"));
                        }
                    }
                }
            }
        }
        Ok(BatchResult {
            lines,
            rejected: rejected_all,
            crashed,
            build_secs,
            run_secs: t1.elapsed().as_secs_f64(),
        })
    }

    /// `cargo check` verdict per case file: Ok = compiles, Err(diagnostic text).
    /// Used by the compile-fail properties, where the rustc verdict is the observation.
    pub fn check_each(
        &self,
        cases: &[GenCase],
    ) -> Result<BTreeMap<usize, Result<(), String>>, String> {
        // one bin per case so that one rejected case does not hide the verdict of another
        let src = self.dir.join("src");
        let _ = std::fs::remove_dir_all(&src);
        std::fs::create_dir_all(src.join("bin")).map_err(|e| e.to_string())?;
        self.write(&[], 1).map_err(|e| e.to_string())?;
        let _ = std::fs::remove_file(
            src.join("bin")
                .join(format!("{}_b0.rs", self.name.to_lowercase())),
        );
        for c in cases {
            std::fs::write(
                src.join("bin").join(format!("{}_k{}.rs", self.name.to_lowercase(), c.id)),
                format!(
                    "#![allow(unused, non_snake_case, non_camel_case_types)]\n#[path = \"../prelude.rs\"]\nmod prelude;\nuse prelude::*;\n{}\nfn main() {{}}\n",
                    c.source
                ),
            )
            .map_err(|e| e.to_string())?;
        }
        let mut cmd = self.cargo();
        cmd.args([
            "check",
            "--bins",
            "--offline",
            "--keep-going",
            "--message-format=json",
            "-q",
        ]);
        let out = cmd.output().map_err(|e| format!("cannot run cargo: {e}"))?;
        let stdout = String::from_utf8_lossy(&out.stdout);
        let mut verdicts: BTreeMap<usize, Result<(), String>> =
            cases.iter().map(|c| (c.id, Ok(()))).collect();
        let mut seen_artifacts: BTreeSet<usize> = BTreeSet::new();
        for line in stdout.lines() {
            let Ok(v) = serde_json::from_str::<serde_json::Value>(line) else {
                continue;
            };
            if v["reason"] == "compiler-artifact" {
                if let Some(name) = v["target"]["name"].as_str() {
                    if let Some(id) = name
                        .rsplit_once("_k")
                        .and_then(|(_, s)| s.parse::<usize>().ok())
                    {
                        seen_artifacts.insert(id);
                    }
                }
            }
            if v["reason"] != "compiler-message" || v["message"]["level"] != "error" {
                continue;
            }
            let name = v["target"]["name"].as_str().unwrap_or("");
            if let Some(id) = name
                .rsplit_once("_k")
                .and_then(|(_, s)| s.parse::<usize>().ok())
            {
                let text = v["message"]["rendered"].as_str().unwrap_or("").to_string();
                let code = v["message"]["code"]["code"]
                    .as_str()
                    .unwrap_or("")
                    .to_string();
                if text.contains("aborting due to") || text.contains("could not compile") {
                    continue;
                }
                let entry = verdicts.entry(id).or_insert(Ok(()));
                match entry {
                    Ok(()) => *entry = Err(format!("[{code}] {text}")),
                    Err(prev) => {
                        prev.push_str(&format!("\n[{code}] {text}"));
                    }
                }
            }
        }
        // a case without artifact and without error means cargo stopped early: treat as harness problem
        for c in cases {
            if verdicts[&c.id].is_ok() && !seen_artifacts.contains(&c.id) {
                return Err(format!(
                    "no verdict for case {} (cargo output incomplete): {}",
                    c.id,
                    String::from_utf8_lossy(&out.stderr)
                        .chars()
                        .take(2000)
                        .collect::<String>()
                ));
            }
        }
        Ok(verdicts)
    }

    pub fn cleanup(&self) {
        let _ = std::fs::remove_dir_all(&self.dir);
    }
}

fn collect_files(m: &serde_json::Value, out: &mut Vec<String>) {
    if let Some(spans) = m["spans"].as_array() {
        for s in spans {
            if let Some(f) = s["file_name"].as_str() {
                out.push(f.to_string());
            }
            let mut exp = &s["expansion"];
            while exp.is_object() {
                if let Some(f) = exp["span"]["file_name"].as_str() {
                    out.push(f.to_string());
                }
                exp = &exp["span"]["expansion"];
            }
        }
    }
    if let Some(children) = m["children"].as_array() {
        for c in children {
            collect_files(c, out);
        }
    }
}

fn case_id_of(file: &str) -> Option<usize> {
    let name = Path::new(file).file_name()?.to_str()?;
    let p = Path::new(file).parent()?.file_name()?.to_str()?;
    if p != "cases" {
        return None;
    }
    name.strip_prefix('c')?.strip_suffix(".rs")?.parse().ok()
}
