//! C15 — default-method delegation runs the trait's own body against the same mock.

use proptest::prelude::*;
use serde::{Deserialize, Serialize};
use serde_json::Value;
use vcore::{CaseInfo, Ctx, Verdict};

use crate::e2::{self, Spec};

#[derive(Clone, Copy, Debug, PartialEq, Eq, Hash, Serialize, Deserialize)]
pub enum Recv {
    Ref,
    Mut,
    Value,
    /// Rc<Self>, an outer handle is kept alive by the caller
    RcShared,
    /// Rc<Self>, the call consumes the only handle
    RcSole,
    ArcShared,
    ArcSole,
    PinMut,
}

/// Arithmetic over the method's arguments and earlier results (u32, wrapping).
#[derive(Clone, Debug, PartialEq, Eq, Hash, Serialize, Deserialize)]
pub enum E {
    A,
    B,
    /// result of body call k
    V(usize),
    Const(u32),
    Add(Box<E>, Box<E>),
    Mul(Box<E>, Box<E>),
}

impl E {
    fn eval(&self, a: u32, b: u32, vs: &[u32]) -> u32 {
        match self {
            E::A => a,
            E::B => b,
            E::V(k) => vs[*k],
            E::Const(c) => *c,
            E::Add(x, y) => x.eval(a, b, vs).wrapping_add(y.eval(a, b, vs)),
            E::Mul(x, y) => x.eval(a, b, vs).wrapping_mul(y.eval(a, b, vs)),
        }
    }
    fn print(&self) -> String {
        match self {
            E::A => "a".into(),
            E::B => "b".into(),
            E::V(k) => format!("v{k}"),
            E::Const(c) => format!("{c}u32"),
            E::Add(x, y) => format!("({}).wrapping_add({})", x.print(), y.print()),
            E::Mul(x, y) => format!("({}).wrapping_mul({})", x.print(), y.print()),
        }
    }
    fn max_v(&self) -> Option<usize> {
        match self {
            E::V(k) => Some(*k),
            E::Add(x, y) | E::Mul(x, y) => x.max_v().max(y.max_v()),
            _ => None,
        }
    }
}

#[derive(Clone, Debug, PartialEq, Eq, Hash, Serialize, Deserialize)]
pub struct Body {
    /// (required method index 0/1, argument expression)
    pub calls: Vec<(u8, E)>,
    pub result: E,
}

#[derive(Clone, Debug, PartialEq, Eq, Hash, Serialize, Deserialize)]
pub enum Op {
    /// direct call of required method .0 with argument .1
    Direct(u8, u32),
    /// call of the provided method d(a, b)
    Delegated(u32, u32),
}

#[derive(Clone, Debug, PartialEq, Eq, Hash, Serialize, Deserialize)]
pub struct DelegCase {
    pub recv: Recv,
    pub body: Body,
    pub history: Vec<Op>,
    /// required methods are configured with next_call (one slot per expected call) instead of each_call
    pub ordered: bool,
    /// the provided method is mentioned with applies_default_impl() (counted) instead of left unmentioned
    pub explicit_default_impl: bool,
    /// the mock is built with Unimock::new_partial (no unmock functions exist: an unmentioned
    /// provided method still runs its default body)
    #[serde(default)]
    pub partial: bool,
    /// a later clause of the provided method accepts the same calls and answers a constant: the
    /// earlier applies_default_impl() clause must keep its priority (first declared wins)
    #[serde(default)]
    pub later_answering_clause: bool,
    /// > 0: the applies_default_impl() clause is `..applies_default_impl().n_times(k).then().answers(424242)`,
    /// k = 1 + (this - 1) % (delegated calls - 1): from delegated call k+1 on the clause answers itself and
    /// the default body (and the required methods) must not run
    #[serde(default)]
    pub then_answer_after: u8,
    /// the provided method has a type parameter (`fn d<T: 'static>(..)`, called as `d::<u8>`)
    #[serde(default)]
    pub generic_method: bool,
    /// the applies_default_impl() clause is the documented catch-all: unquantified, next to a specific clause
    /// of the same method that never matches (`some_call(<rejects>).returns(0)` declared before it)
    #[serde(default)]
    pub catch_all_default: bool,
    /// the provided method also has a real function registered (`unmock_with=[_, _, real_d(a, b)]`): the default
    /// body must still be what runs (no clause says applies_unmocked(); an unmentioned provided method runs its body)
    #[serde(default)]
    pub provided_has_real_fn: bool,
    /// 1: the trait declares `const K: u32;`, the attribute supplies `const K: u32 = 10;`; 2: the trait declares
    /// `const K: u32 = 1;` and the attribute overrides it with 10. The default body adds `Self::K` to its result:
    /// inside the body `Self` must see the same constant as `<Unimock as Tr>::K` (10)
    #[serde(default)]
    pub assoc_const: u8,
    /// the trait has a third required method `r2` with a clause expecting exactly one call that never happens: the
    /// verification at the end of the instance's life (inside the last call for by-value / sole-owner receivers)
    /// must fail naming `Tr::r2`, exactly as it would after direct calls only
    #[serde(default)]
    pub unmet_extra: bool,
    /// Rc / Arc receivers: a `Weak` to the handle stays alive for the whole program (a sole STRONG owner is still the
    /// sole owner; nothing may change)
    #[serde(default)]
    pub weak_alive: bool,
}

/// response of required method m for argument x (a known function, so results can be predicted)
pub fn required_result(m: u8, x: u32) -> u32 {
    x.wrapping_mul(3).wrapping_add(m as u32 * 1000 + 1)
}

impl DelegCase {
    /// number of delegated calls answered by the default body before the clause answers itself
    pub fn default_body_calls(&self) -> Option<usize> {
        let delegated = self.history.iter().filter(|o| matches!(o, Op::Delegated(..))).count();
        if self.then_answer_after > 0 && self.explicit_default_impl && !self.ordered && delegated >= 2 {
            Some(1 + (self.then_answer_after as usize - 1) % (delegated - 1))
        } else {
            None
        }
    }
    /// Inline the body: (all required-method calls in order, results of the history ops)
    pub fn expected(&self) -> (Vec<(u8, u32)>, Vec<u32>) {
        let mut calls = vec![];
        let mut results = vec![];
        let limit = self.default_body_calls();
        let mut delegated_seen = 0usize;
        for op in &self.history {
            match op {
                Op::Direct(m, x) => {
                    calls.push((*m, *x));
                    results.push(required_result(*m, *x));
                }
                Op::Delegated(a, b) => {
                    delegated_seen += 1;
                    if limit.map(|k| delegated_seen > k).unwrap_or(false) {
                        results.push(424242);
                        continue;
                    }
                    let mut vs = vec![];
                    for (m, e) in &self.body.calls {
                        let x = e.eval(*a, *b, &vs);
                        calls.push((*m, x));
                        vs.push(required_result(*m, x));
                    }
                    results.push(self.body.result.eval(*a, *b, &vs).wrapping_add(if self.assoc_const % 3 > 0 { 10 } else { 0 }));
                }
            }
        }
        (calls, results)
    }
}

fn recv_decl(r: Recv) -> &'static str {
    match r {
        Recv::Ref => "&self",
        Recv::Mut => "&mut self",
        Recv::Value => "self",
        Recv::RcShared | Recv::RcSole => "self: std::rc::Rc<Self>",
        Recv::ArcShared | Recv::ArcSole => "self: std::sync::Arc<Self>",
        Recv::PinMut => "mut self: std::pin::Pin<&mut Self>",
    }
}

fn body_source(c: &DelegCase) -> String {
    let mut s = String::new();
    let n = c.body.calls.len();
    for (k, (m, e)) in c.body.calls.iter().enumerate() {
        let last = k + 1 == n;
        let recv = match c.recv {
            Recv::Ref | Recv::Mut => "self".to_string(),
            Recv::PinMut => "self.as_mut()".to_string(),
            Recv::Value => "self".to_string(),
            _ => {
                if last {
                    "self".to_string()
                } else {
                    "self.clone()".to_string()
                }
            }
        };
        let (recv_expr, self_rebind) = if c.recv == Recv::Value && !last {
            // by-value receiver: only the last call may consume self; earlier ones are not expressible
            ("self".to_string(), "")
        } else {
            (recv, "")
        };
        let _ = self_rebind;
        s.push_str(&format!(
            "        let v{k} = Tr::r{m}({recv_expr}, {});\n",
            e.print()
        ));
    }
    if c.assoc_const % 3 > 0 {
        s.push_str(&format!("        ({}).wrapping_add(Self::K)\n", c.body.result.print()));
    } else {
        s.push_str(&format!("        {}\n", c.body.result.print()));
    }
    s
}

pub fn source(c: &DelegCase) -> String {
    let mut s = String::new();
    s.push_str("static LOG: Mutex<Vec<String>> = Mutex::new(Vec::new());\nfn log(s: String) { LOG.lock().unwrap().push(s) }\nfn take() -> Vec<String> { std::mem::take(&mut *LOG.lock().unwrap()) }\n\n");
    let sized = if matches!(
        c.recv,
        Recv::Value | Recv::RcShared | Recv::RcSole | Recv::ArcShared | Recv::ArcSole
    ) {
        ": Sized"
    } else {
        ""
    };
    let (dgen, dwt, dturbo, dparam, darg, dans) = if c.generic_method {
        ("<T: 'static + std::fmt::Debug>", ".with_types::<u8>()", "::<u8>", ", _t: T", ", 7u8", ", _")
    } else {
        ("", "", "", "", "", "")
    };
    let rd = recv_decl(c.recv);
    let rd_req = if c.recv == Recv::PinMut {
        "self: std::pin::Pin<&mut Self>"
    } else {
        rd
    };
    let (const_attr, const_decl) = match c.assoc_const % 3 {
        1 => (", const K: u32 = 10;", "    const K: u32;\n"),
        2 => (", const K: u32 = 10;", "    const K: u32 = 1;\n"),
        _ => ("", ""),
    };
    let attr = if c.provided_has_real_fn {
        s.push_str("pub fn real_d(a: u32, b: u32) -> u32 {\n    log(format!(\"REAL-FUNCTION-OF-d:{a}:{b}\"));\n    777_000_000 + a + b\n}\n\n");
        format!("#[unimock(api=M, unmock_with=[_, _, real_d(a, b){}]{const_attr})]", if c.unmet_extra { ", _" } else { "" })
    } else {
        format!("#[unimock(api=M{const_attr})]")
    };
    let r2_decl = if c.unmet_extra { format!("    fn r2({rd_req}, x: u32) -> u32;\n") } else { String::new() };
    s.push_str(&format!(
        "{attr}\npub trait Tr{sized} {{\n{const_decl}    fn r0({rd_req}, x: u32) -> u32;\n    fn r1({rd_req}, x: u32) -> u32;\n    fn d{dgen}({rd}, a: u32, b: u32{dparam}) -> u32 {{\n{}    }}\n{r2_decl}}}\n\n",
        body_source(c)
    ));
    s.push_str("pub fn run() -> String {\n");
    let (calls, _) = c.expected();
    // clauses
    let mut clauses: Vec<String> = vec![];
    if c.ordered {
        for (m, x) in &calls {
            clauses.push(format!(
                "M::r{m}.next_call(&|m| m.func(|x: &u32, _| {{ log(format!(\"r{m}:{{}}\", x)); *x == {x} }})).answers(&|_, x| x.wrapping_mul(3).wrapping_add({}))",
                *m as u32 * 1000 + 1
            ));
        }
    } else {
        for m in 0..2u8 {
            let count = calls.iter().filter(|(mm, _)| *mm == m).count();
            if count > 0 {
                clauses.push(format!(
                    "M::r{m}.each_call(&|m| m.func(|x: &u32, _| {{ log(format!(\"r{m}:{{}}\", x)); true }})).answers(&|_, x| x.wrapping_mul(3).wrapping_add({})).n_times({count})",
                    m as u32 * 1000 + 1
                ));
            }
        }
    }
    let delegated = c
        .history
        .iter()
        .filter(|o| matches!(o, Op::Delegated(..)))
        .count();
    if let Some(k) = c.default_body_calls() {
        clauses.push(format!(
            "M::d{dwt}.each_call(&|m| m.func(|_, _| true)).applies_default_impl().n_times({k}).then().answers(&|_, _, _{dans}| 424242u32)"
        ));
    } else if c.explicit_default_impl && delegated > 0 && !c.ordered && c.catch_all_default {
        clauses.push(format!("M::d{dwt}.each_call(&|m| m.func(|_, _| false)).answers(&|_, _, _{dans}| 31337u32)"));
        clauses.push(format!("M::d{dwt}.each_call(&|m| m.func(|_, _| true)).applies_default_impl()"));
    } else if c.explicit_default_impl && delegated > 0 && !c.ordered {
        clauses.push(format!(
            "M::d{dwt}.each_call(&|m| m.func(|_, _| true)).applies_default_impl().n_times({delegated})"
        ));
        if c.later_answering_clause {
            clauses.push(format!("M::d{dwt}.each_call(&|m| m.func(|_, _| true)).answers(&|_, _, _{dans}| 424242u32)"));
        }
    }
    if c.unmet_extra {
        clauses.push("M::r2.each_call(&|m| m.func(|_, _| true)).answers(&|_, x| x).n_times(1)".to_string());
    }
    s.push_str("    let mut dc = unimock::verif::DynClause::new();\n");
    for cl in &clauses {
        s.push_str(&format!("    dc.push({cl});\n"));
    }
    s.push_str("    let mut results: Vec<String> = vec![];\n");
    let ctor = if c.partial { "Unimock::new_partial(dc)" } else { "Unimock::new(dc)" };
    let wrap = match c.recv {
        Recv::RcShared | Recv::RcSole => format!("let h = std::rc::Rc::new({ctor});"),
        Recv::ArcShared | Recv::ArcSole => format!("let h = std::sync::Arc::new({ctor});"),
        _ => format!("let mut h = {ctor};"),
    };
    s.push_str(&format!("    {wrap}\n"));
    if c.weak_alive {
        match c.recv {
            Recv::RcShared | Recv::RcSole => s.push_str("    let _weak = std::rc::Rc::downgrade(&h);\n"),
            Recv::ArcShared | Recv::ArcSole => s.push_str("    let _weak = std::sync::Arc::downgrade(&h);\n"),
            _ => {}
        }
    }
    s.push_str("    let outcome = std::panic::catch_unwind(std::panic::AssertUnwindSafe(move || {\n        let mut results: Vec<String> = vec![];\n");
    let n_ops = c.history.len();
    for (i, op) in c.history.iter().enumerate() {
        let last = i + 1 == n_ops;
        let recv = match c.recv {
            Recv::Ref => "&h".to_string(),
            Recv::Mut => "&mut h".to_string(),
            Recv::Value => "h".to_string(),
            Recv::PinMut => "std::pin::Pin::new(&mut h)".to_string(),
            Recv::RcSole | Recv::ArcSole => {
                if last {
                    "h".to_string()
                } else {
                    "h.clone()".to_string()
                }
            }
            Recv::RcShared | Recv::ArcShared => "h.clone()".to_string(),
        };
        let call = match op {
            Op::Direct(m, x) => format!("<Unimock as Tr>::r{m}({recv}, {x}u32)"),
            Op::Delegated(a, b) => format!("<Unimock as Tr>::d{dturbo}({recv}, {a}u32, {b}u32{darg})"),
        };
        // by-value / sole-owner receivers consume the mock: `h` is moved by the last call
        if matches!(c.recv, Recv::Value) || (matches!(c.recv, Recv::RcSole | Recv::ArcSole) && last)
        {
            s.push_str(&format!(
                "        results.push(format!(\"{{}}\", {call}));\n        return results;\n"
            ));
            break;
        } else {
            s.push_str(&format!(
                "        results.push(format!(\"{{}}\", {call}));\n"
            ));
        }
    }
    let consumed = matches!(c.recv, Recv::Value)
        || (matches!(c.recv, Recv::RcSole | Recv::ArcSole) && !c.history.is_empty());
    if !consumed {
        // verification: shared handles are dropped here, the plain mock is verified explicitly
        match c.recv {
            Recv::RcShared | Recv::ArcShared | Recv::RcSole | Recv::ArcSole => {
                s.push_str("        drop(h);\n        results\n")
            }
            _ => s.push_str("        h.verify();\n        results\n"),
        }
    }
    s.push_str("    }));\n");
    s.push_str("    let (res, verdict) = match outcome { Ok(r) => (r.join(\"\\u{2}\"), \"ok\".to_string()), Err(p) => (String::new(), format!(\"PANIC:{}\", p.downcast_ref::<String>().cloned().unwrap_or_default())) };\n");
    s.push_str("    let logv = take();\n    format!(\"{}\\u{1}{}\\u{1}{}\", logv.join(\"\\u{2}\"), res, verdict)\n}\n");
    s
}

pub fn judge(c: &DelegCase, line: &str) -> Result<CaseInfo, String> {
    let parts: Vec<&str> = line.split('\u{1}').collect();
    if parts.len() != 3 {
        return Err(format!("HARNESS: malformed output {line:?}"));
    }
    let (calls, results) = c.expected();
    let desc = format!(
        "provided method `fn d({}, a: u32, b: u32)` with body calling {:?}, history {:?}, required methods {}",
        recv_decl(c.recv),
        c.body.calls.iter().map(|(m, e)| format!("r{m}({})", e.print())).collect::<Vec<_>>(),
        c.history,
        if c.ordered { "ordered" } else { "unordered" }
    );
    if c.unmet_extra {
        if parts[2] == "ok" {
            return Err(format!("{desc}: the clause `r2 .. n_times(1)` was never matched, yet the instance ended its life without a verification failure"));
        }
        if !parts[2].contains("Tr::r2") {
            return Err(format!("{desc}: the run panicked, but not with the verification failure about Tr::r2: {}", parts[2]));
        }
    } else if parts[2] != "ok" {
        return Err(format!(
            "{desc}: the run panicked instead of delegating: {}",
            parts[2]
        ));
    }
    let want_log: Vec<String> = calls.iter().map(|(m, x)| format!("r{m}:{x}")).collect();
    let log: Vec<&str> = if parts[0].is_empty() {
        vec![]
    } else {
        parts[0].split('\u{2}').collect()
    };
    if log != want_log.iter().map(|s| s.as_str()).collect::<Vec<_>>() {
        return Err(format!("{desc}: required-method patterns saw {log:?}, inlining the default body gives {want_log:?}"));
    }
    let want_res: Vec<String> = results.iter().map(|r| format!("{r}")).collect();
    let res: Vec<&str> = if parts[1].is_empty() {
        vec![]
    } else {
        parts[1].split('\u{2}').collect()
    };
    if !c.unmet_extra && res != want_res.iter().map(|s| s.as_str()).collect::<Vec<_>>() {
        return Err(format!(
            "{desc}: results {res:?}, inlining the default body gives {want_res:?}"
        ));
    }
    let delegated = c
        .history
        .iter()
        .filter(|o| matches!(o, Op::Delegated(..)))
        .count();
    let interleaved = c.history.windows(3).any(|w| {
        matches!(w[0], Op::Delegated(..))
            && matches!(w[1], Op::Direct(..))
            && matches!(w[2], Op::Delegated(..))
    });
    Ok(CaseInfo::new(
        c.body.calls.len() >= 2 && (interleaved || delegated >= 1 && c.history.len() >= 2),
    )
    .class(match c.recv {
        Recv::Ref => "recv:&self",
        Recv::Mut => "recv:&mut self",
        Recv::Value => "recv:self",
        Recv::RcShared => "recv:Rc<Self>(outer handle alive)",
        Recv::RcSole => "recv:Rc<Self>(sole owner)",
        Recv::ArcShared => "recv:Arc<Self>(outer handle alive)",
        Recv::ArcSole => "recv:Arc<Self>(sole owner)",
        Recv::PinMut => "recv:Pin<&mut Self>",
    })
    .class_if(c.partial, "partial-mock")
    .class_if(c.generic_method, "provided-method-has-a-type-parameter")
    .class_if(c.provided_has_real_fn, "provided-method-also-has-a-real-function")
    .class_if(c.weak_alive && matches!(c.recv, Recv::RcSole | Recv::ArcSole), "sole-strong-owner-with-a-live-Weak")
    .class_if(c.weak_alive && matches!(c.recv, Recv::RcShared | Recv::ArcShared), "shared-handle-with-a-live-Weak")
    .class_if(c.unmet_extra, "an-unmet-expectation-must-fail-the-final-verification")
    .class_if(c.assoc_const % 3 == 1, "body-reads-an-associated-const-supplied-by-the-attribute")
    .class_if(c.assoc_const % 3 == 2, "body-reads-an-associated-const-whose-trait-default-the-attribute-overrides")
    .class_if(c.catch_all_default && c.explicit_default_impl && !c.ordered && c.default_body_calls().is_none(), "catch-all-applies_default_impl-after-a-specific-clause")
    .class_if(c.ordered, "required:ordered")
    .class_if(!c.ordered, "required:unordered")
    .class_if(
        c.explicit_default_impl && !c.ordered,
        "applies_default_impl-clause",
    )
    .class_if(c.explicit_default_impl && !c.ordered && c.later_answering_clause && delegated > 0, "later-clause-of-the-provided-method-also-matches")
    .class_if(c.default_body_calls().is_some(), "default-body-for-k-calls-then-the-clause-answers")
    .class_if(interleaved, "direct-call-between-delegated")
    .class_if(delegated == 0, "no-delegated-call")
    .class_if(c.body.calls.is_empty(), "body-calls-nothing"))
}

fn expr(max_v: usize) -> BoxedStrategy<E> {
    let mut leaves: Vec<BoxedStrategy<E>> = vec![
        Just(E::A).boxed(),
        Just(E::B).boxed(),
        (0..50u32).prop_map(E::Const).boxed(),
    ];
    if max_v > 0 {
        leaves.push((0..max_v).prop_map(E::V).boxed());
    }
    let leaf = proptest::strategy::Union::new(leaves);
    leaf.prop_recursive(2, 6, 2, |inner| {
        prop_oneof![
            (inner.clone(), inner.clone()).prop_map(|(x, y)| E::Add(Box::new(x), Box::new(y))),
            (inner.clone(), inner).prop_map(|(x, y)| E::Mul(Box::new(x), Box::new(y))),
        ]
    })
    .boxed()
}

fn body_strategy() -> impl Strategy<Value = Body> {
    (0..=3usize).prop_flat_map(|n| {
        let calls: Vec<BoxedStrategy<(u8, E)>> =
            (0..n).map(|k| (0..2u8, expr(k)).boxed()).collect();
        (calls, expr(n)).prop_map(|(calls, result)| Body { calls, result })
    })
}

pub fn case_strategy() -> impl Strategy<Value = DelegCase> {
    let op = prop_oneof![
        2 => (0..2u8, 0..20u32).prop_map(|(m, x)| Op::Direct(m, x)),
        3 => (0..12u32, 0..12u32).prop_map(|(a, b)| Op::Delegated(a, b)),
    ];
    (
        prop_oneof![
            3 => Just(Recv::Ref), 2 => Just(Recv::Mut), 1 => Just(Recv::Value), 1 => Just(Recv::RcShared), 1 => Just(Recv::RcSole),
            1 => Just(Recv::ArcShared), 1 => Just(Recv::ArcSole), 2 => Just(Recv::PinMut)
        ],
        body_strategy(),
        proptest::collection::vec(op, 1..=6),
        any::<bool>(),
        any::<bool>(),
        proptest::bool::weighted(0.4),
        any::<bool>(),
        (prop_oneof![2 => Just(0u8), 1 => 1..8u8], proptest::bool::weighted(0.3), proptest::bool::weighted(0.3), proptest::bool::weighted(0.3), prop_oneof![2 => Just(0u8), 1 => Just(1u8), 1 => Just(2u8)], proptest::bool::weighted(0.3), proptest::bool::weighted(0.5)),
    )
        .prop_map(|(recv, mut body, mut history, ordered, explicit_default_impl, partial, later_answering_clause, (then_answer_after, generic_method, catch_all_default, provided_has_real_fn, assoc_const, unmet_extra, weak_alive))| {
            if recv == Recv::Value {
                // a by-value receiver is consumed by the first call it is passed to
                body.calls.truncate(1);
                if body.result.max_v().map(|k| k >= body.calls.len()).unwrap_or(false) {
                    body.result = E::Add(Box::new(E::A), Box::new(E::B));
                }
                history.truncate(1);
            }
            DelegCase { recv, body, history, ordered, explicit_default_impl, partial, later_answering_clause, then_answer_after, generic_method, catch_all_default, provided_has_real_fn, assoc_const, unmet_extra, weak_alive }
        })
}

pub const RULE: &str = "programs = generated traits with two required methods and a provided method whose default body (drawn from an expression grammar) calls 0-3 required methods with values derived from its arguments and earlier results and combines the results; receiver kinds &self, &mut self, self, Rc<Self> / Arc<Self> (with an outer handle alive, and as sole owner; each with or without a live Weak), Pin<&mut Self>; required methods configured unordered with exact counts or as one ordered next_call sequence; histories of 1-6 operations mixing direct required calls and delegated calls, the provided method unmentioned or mentioned with applies_default_impl(); strict and partial mocks. Non-trivial = the body calls >= 2 required methods and the history has a delegated call plus another operation; distinct = distinct case";

fn spec<'a>() -> Spec<'a, DelegCase> {
    Spec {
        project: "C15",
        prelude: crate::c05::PRELUDE,
        source: &source,
        judge: &judge,
        nbins: 16,
        max_shrink_steps: 30,
        extra_deps: "",
    }
}

pub fn run(ctx: &Ctx) -> Verdict {
    let mut v = Verdict::new("exploration", RULE);
    v.explanation = "The generator inlines the default body: the sequence of required-method arguments seen by the patterns (direct and delegated calls interleaved), every result, and the final verification (exact counts / a fully consumed ordered sequence shared between direct and delegated calls) must be what inlining predicts.".into();
    v.assumptions = vec!["clause lists of run-time length use the DynClause hook".into()];
    let known = vcore::known_finding("C15", SIG_SOLE_RC);
    v.subs
        .push(crate::replay_corpus(ctx, &|sub, case| replay(sub, case)));
    let n = ctx.tier.pick(1280, 24_000) as usize;
    let exclude_sole = known.is_some();
    if let Some(f) = &known {
        v.known_findings
            .push((SIG_SOLE_RC.to_string(), f.what_fails.clone()));
    }
    let batches = n.div_ceil(1600);
    for b in 0..batches {
        let strat = case_strategy().prop_map(move |mut c| {
            if exclude_sole {
                c.recv = match c.recv {
                    Recv::RcSole => Recv::RcShared,
                    Recv::ArcSole => Recv::ArcShared,
                    r => r,
                };
            }
            c
        });
        let sub = if batches == 1 {
            "delegation".to_string()
        } else {
            format!("delegation-{b}")
        };
        v.subs
            .push(e2::run(ctx, &sub, strat, (n / batches).max(1), &spec()));
        if v.subs
            .last()
            .map(|s| s.failure.is_some() || s.inconclusive.is_some())
            .unwrap_or(false)
        {
            break;
        }
    }
    v
}

pub const SIG_SOLE_RC: &str = "sole-owner-rc-arc-receiver-delegation-panics";

pub fn replay(_sub: &str, case: Value) -> Result<(), String> {
    let c: DelegCase =
        serde_json::from_value(case).map_err(|e| format!("HARNESS: bad case: {e}"))?;
    match e2::run_single(&spec(), &c) {
        Ok(r) => r.map(|_| ()),
        Err(e) => Err(format!("HARNESS: {e}")),
    }
}
