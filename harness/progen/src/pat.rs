//! Typed pattern AST for `matching!`, with its own evaluator (independent of rustc and of
//! the macro), a printer to Rust source, and proptest generators. Shared by C06 and C19.

use proptest::prelude::*;
use serde::{Deserialize, Serialize};
use std::collections::BTreeMap;

#[derive(Clone, Copy, Debug, PartialEq, Eq, Hash, Serialize, Deserialize)]
pub enum Ty {
    U8,
    Bool,
    Char,
    StrRef,
    String,
    Newtype,
    OptU8,
    Pair,
    Enum,
    Struct,
    VecU8,
    SliceRef,
    /// a type with PartialEq but without Debug (`NdEq(u8)`): rendered as `?`; patterns: `_`, bindings, eq!/ne!
    NoDbg,
}

pub const ALL_TYS: [Ty; 13] = [
    Ty::U8,
    Ty::Bool,
    Ty::Char,
    Ty::StrRef,
    Ty::String,
    Ty::Newtype,
    Ty::OptU8,
    Ty::Pair,
    Ty::Enum,
    Ty::Struct,
    Ty::VecU8,
    Ty::SliceRef,
    Ty::NoDbg,
];

#[derive(Clone, Debug, PartialEq, Eq, Hash, Serialize, Deserialize)]
pub enum Val {
    U8(u8),
    Bool(bool),
    Char(char),
    Str(String),
    Opt(Option<u8>),
    Pair(u8, u8),
    EA,
    EB(u8),
    EC(u8, bool),
    S(u8, bool),
    Bytes(Vec<u8>),
}

impl Ty {
    pub fn rust(self) -> &'static str {
        match self {
            Ty::U8 => "u8",
            Ty::Bool => "bool",
            Ty::Char => "char",
            Ty::StrRef => "&str",
            Ty::String => "String",
            Ty::Newtype => "Nt",
            Ty::OptU8 => "Option<u8>",
            Ty::Pair => "(u8, u8)",
            Ty::Enum => "E",
            Ty::Struct => "S",
            Ty::VecU8 => "Vec<u8>",
            Ty::SliceRef => "&[u8]",
            Ty::NoDbg => "NdEq",
        }
    }

    pub fn domain(self) -> Vec<Val> {
        let s = |x: &str| Val::Str(x.to_string());
        match self {
            Ty::U8 => [0u8, 1, 2, 3, 5, 9].iter().map(|v| Val::U8(*v)).collect(),
            Ty::Bool => vec![Val::Bool(false), Val::Bool(true)],
            Ty::NoDbg => vec![Val::U8(0), Val::U8(1)],
            Ty::Char => vec![Val::Char('a'), Val::Char('b'), Val::Char('z')],
            Ty::StrRef | Ty::String | Ty::Newtype => vec![s(""), s("a"), s("ab"), s("b")],
            Ty::OptU8 => vec![
                Val::Opt(None),
                Val::Opt(Some(0)),
                Val::Opt(Some(1)),
                Val::Opt(Some(3)),
            ],
            Ty::Pair => vec![
                Val::Pair(0, 0),
                Val::Pair(0, 1),
                Val::Pair(1, 0),
                Val::Pair(1, 1),
                Val::Pair(2, 3),
            ],
            Ty::Enum => vec![
                Val::EA,
                Val::EB(0),
                Val::EB(1),
                Val::EB(7),
                Val::EC(0, false),
                Val::EC(1, true),
                Val::EC(1, false),
            ],
            Ty::Struct => vec![
                Val::S(0, false),
                Val::S(1, false),
                Val::S(1, true),
                Val::S(4, true),
            ],
            Ty::VecU8 | Ty::SliceRef => vec![
                Val::Bytes(vec![]),
                Val::Bytes(vec![1]),
                Val::Bytes(vec![2]),
                Val::Bytes(vec![1, 2]),
                Val::Bytes(vec![2, 1]),
                Val::Bytes(vec![1, 2, 3]),
            ],
        }
    }

    /// Expression constructing the value as the method argument (owned or borrowed).
    pub fn arg_expr(self, v: &Val) -> String {
        match (self, v) {
            (Ty::U8, Val::U8(x)) => format!("{x}u8"),
            (Ty::NoDbg, Val::U8(x)) => format!("NdEq({x})"),
            (Ty::Bool, Val::Bool(b)) => format!("{b}"),
            (Ty::Char, Val::Char(c)) => format!("{c:?}"),
            (Ty::StrRef, Val::Str(s)) => format!("{s:?}"),
            (Ty::String, Val::Str(s)) => format!("String::from({s:?})"),
            (Ty::Newtype, Val::Str(s)) => format!("Nt(String::from({s:?}))"),
            (Ty::OptU8, Val::Opt(None)) => "None::<u8>".into(),
            (Ty::OptU8, Val::Opt(Some(x))) => format!("Some({x}u8)"),
            (Ty::Pair, Val::Pair(a, b)) => format!("({a}u8, {b}u8)"),
            (Ty::Enum, Val::EA) => "E::A".into(),
            (Ty::Enum, Val::EB(x)) => format!("E::B({x})"),
            (Ty::Enum, Val::EC(x, y)) => format!("E::C {{ x: {x}, y: {y} }}"),
            (Ty::Struct, Val::S(a, b)) => format!("S {{ a: {a}, b: {b} }}"),
            (Ty::VecU8, Val::Bytes(b)) => format!("vec!{b:?}"),
            (Ty::SliceRef, Val::Bytes(b)) => format!("&{b:?}[..]"),
            _ => panic!("HARNESS: value {v:?} does not inhabit {self:?}"),
        }
    }

    /// `{:?}` rendering of the argument as unimock's `debug_inputs` sees it.
    pub fn debug_string(self, v: &Val) -> String {
        match (self, v) {
            (Ty::NoDbg, _) => "?".into(),
            (_, Val::U8(x)) => format!("{x}"),
            (_, Val::Bool(b)) => format!("{b}"),
            (_, Val::Char(c)) => format!("{c:?}"),
            (Ty::Newtype, Val::Str(s)) => format!("Nt({s:?})"),
            (_, Val::Str(s)) => format!("{s:?}"),
            (_, Val::Opt(None)) => "None".into(),
            (_, Val::Opt(Some(x))) => format!("Some({x})"),
            (_, Val::Pair(a, b)) => format!("({a}, {b})"),
            (_, Val::EA) => "A".into(),
            (_, Val::EB(x)) => format!("B({x})"),
            (_, Val::EC(x, y)) => format!("C {{ x: {x}, y: {y} }}"),
            (_, Val::S(a, b)) => format!("S {{ a: {a}, b: {b} }}"),
            (_, Val::Bytes(b)) => format!("{b:?}"),
        }
    }

    /// `eq!` / `ne!` operand for a value of this argument type.
    pub fn eq_operand(self, v: &Val) -> String {
        match self {
            Ty::StrRef => format!("&{}", self.arg_expr(v)),
            Ty::SliceRef => format!("&{}", self.arg_expr(v)),
            _ => format!("&{}", self.arg_expr(v)),
        }
    }
}

/// Types shared by every generated case.
pub const PRELUDE: &str = r#"
#![allow(unused)]
pub use unimock::*;
#[derive(Clone, PartialEq, Eq)]
pub struct NdEq(pub u8);
#[derive(Debug, Clone, PartialEq, Eq)]
pub struct Nt(pub String);
impl AsRef<str> for Nt { fn as_ref(&self) -> &str { self.0.as_str() } }
#[derive(Debug, Clone, PartialEq, Eq)]
pub enum E { A, B(u8), C { x: u8, y: bool } }
#[derive(Debug, Clone, PartialEq, Eq)]
pub struct S { pub a: u8, pub b: bool }
"#;

#[derive(Clone, Debug, PartialEq, Eq, Hash, Serialize, Deserialize)]
pub enum P {
    Wild,
    Bind(String),
    /// `name @ sub` (sub binds nothing)
    At(String, Box<P>),
    U8(u8),
    Range(u8, u8),
    Bool(bool),
    Char(char),
    CharRange(char, char),
    Str(String),
    Or(Vec<P>),
    Some(Box<P>),
    None,
    Pair(Box<P>, Box<P>),
    EA,
    EB(Box<P>),
    /// `E::C { x: .., y: .. }`; an absent field is covered by `..`
    EC(Option<Box<P>>, Option<Box<P>>),
    S(Option<Box<P>>, Option<Box<P>>),
    /// `[prefix.., rest?, suffix..]`; rest: None = no rest, Some(None) = `..`, Some(Some(n)) = `n @ ..`
    Slice(Vec<P>, Option<Option<String>>, Vec<P>),
    Eq(Val),
    Ne(Val),
}

#[derive(Clone, Copy, Debug, PartialEq, Eq, Hash, Serialize, Deserialize)]
pub enum VarKind {
    U8,
    Bool,
    /// has `.len()`: strings and byte slices
    Len,
    Other,
}

#[derive(Clone, Copy, Debug, PartialEq, Eq, Hash, Serialize, Deserialize)]
pub enum Op {
    Lt,
    Le,
    Eq,
    Ne,
    Gt,
}

impl Op {
    fn rust(self) -> &'static str {
        match self {
            Op::Lt => "<",
            Op::Le => "<=",
            Op::Eq => "==",
            Op::Ne => "!=",
            Op::Gt => ">",
        }
    }
    fn eval(self, a: i64, b: i64) -> bool {
        match self {
            Op::Lt => a < b,
            Op::Le => a <= b,
            Op::Eq => a == b,
            Op::Ne => a != b,
            Op::Gt => a > b,
        }
    }
}

#[derive(Clone, Debug, PartialEq, Eq, Hash, Serialize, Deserialize)]
pub enum G {
    True,
    CmpConst(String, Op, u8),
    CmpVars(String, Op, String),
    LenCmp(String, Op, u8),
    BoolVar(String, bool),
    And(Box<G>, Box<G>),
    Or(Box<G>, Box<G>),
    Not(Box<G>),
}

/// Visit every variable name bound by the pattern.
pub fn visit_names_p(p: &mut P, f: &mut dyn FnMut(&mut String)) {
    match p {
        P::Bind(n) => f(n),
        P::At(n, sub) => {
            f(n);
            visit_names_p(sub, f)
        }
        P::Or(v) => v.iter_mut().for_each(|x| visit_names_p(x, f)),
        P::Some(x) | P::EB(x) => visit_names_p(x, f),
        P::Pair(a, b) => {
            visit_names_p(a, f);
            visit_names_p(b, f)
        }
        P::EC(a, b) | P::S(a, b) => {
            if let Some(a) = a {
                visit_names_p(a, f)
            }
            if let Some(b) = b {
                visit_names_p(b, f)
            }
        }
        P::Slice(pre, rest, suf) => {
            pre.iter_mut().for_each(|x| visit_names_p(x, f));
            if let Some(Some(n)) = rest {
                f(n)
            }
            suf.iter_mut().for_each(|x| visit_names_p(x, f));
        }
        _ => {}
    }
}

/// Visit every variable name used by the guard.
pub fn visit_names_g(g: &mut G, f: &mut dyn FnMut(&mut String)) {
    match g {
        G::True => {}
        G::CmpConst(v, _, _) | G::LenCmp(v, _, _) | G::BoolVar(v, _) => f(v),
        G::CmpVars(a, _, b) => {
            f(a);
            f(b)
        }
        G::And(a, b) | G::Or(a, b) => {
            visit_names_g(a, f);
            visit_names_g(b, f)
        }
        G::Not(a) => visit_names_g(a, f),
    }
}

/// Names a user may well choose that coincide with identifiers the macro generates itself
/// (closure parameters a<i>, eq!/ne! locals l<n>, the mismatch reporter, the matching handle).
pub const MACRO_LIKE_NAMES: [&str; 10] = ["a0", "a1", "a2", "l0", "l1", "reporter", "_m", "a3", "l2", "input"];

pub type Env = BTreeMap<String, Val>;

pub fn str_of(v: &Val) -> &str {
    match v {
        Val::Str(s) => s.as_str(),
        _ => panic!("HARNESS: not a string value"),
    }
}

/// Does pattern `p` accept value `v`? Bindings are added to `env`.
pub fn matches(p: &P, v: &Val, env: &mut Env) -> bool {
    match (p, v) {
        (P::Wild, _) => true,
        (P::Bind(n), v) => {
            env.insert(n.clone(), v.clone());
            true
        }
        (P::At(n, sub), v) => {
            if matches(sub, v, env) {
                env.insert(n.clone(), v.clone());
                true
            } else {
                false
            }
        }
        (P::U8(x), Val::U8(y)) => x == y,
        (P::Range(lo, hi), Val::U8(y)) => lo <= y && y <= hi,
        (P::Bool(x), Val::Bool(y)) => x == y,
        (P::Char(x), Val::Char(y)) => x == y,
        (P::CharRange(lo, hi), Val::Char(y)) => lo <= y && y <= hi,
        (P::Str(x), Val::Str(y)) => x == y,
        (P::Or(alts), v) => alts.iter().any(|a| matches(a, v, env)),
        (P::Some(sub), Val::Opt(Some(x))) => matches(sub, &Val::U8(*x), env),
        (P::Some(_), Val::Opt(None)) => false,
        (P::None, Val::Opt(o)) => o.is_none(),
        (P::Pair(a, b), Val::Pair(x, y)) => {
            matches(a, &Val::U8(*x), env) && matches(b, &Val::U8(*y), env)
        }
        (P::EA, v @ (Val::EA | Val::EB(_) | Val::EC(..))) => matches!(v, Val::EA),
        (P::EB(sub), Val::EB(x)) => matches(sub, &Val::U8(*x), env),
        (P::EB(_), Val::EA | Val::EC(..)) => false,
        (P::EC(px, py), Val::EC(x, y)) => {
            px.as_ref()
                .map(|p| matches(p, &Val::U8(*x), env))
                .unwrap_or(true)
                && py
                    .as_ref()
                    .map(|p| matches(p, &Val::Bool(*y), env))
                    .unwrap_or(true)
        }
        (P::EC(..), Val::EA | Val::EB(_)) => false,
        (P::S(pa, pb), Val::S(a, b)) => {
            pa.as_ref()
                .map(|p| matches(p, &Val::U8(*a), env))
                .unwrap_or(true)
                && pb
                    .as_ref()
                    .map(|p| matches(p, &Val::Bool(*b), env))
                    .unwrap_or(true)
        }
        (P::Slice(prefix, rest, suffix), Val::Bytes(bytes)) => {
            let need = prefix.len() + suffix.len();
            match rest {
                None => {
                    if bytes.len() != need {
                        return false;
                    }
                }
                Some(_) => {
                    if bytes.len() < need {
                        return false;
                    }
                }
            }
            for (p, b) in prefix.iter().zip(bytes.iter()) {
                if !matches(p, &Val::U8(*b), env) {
                    return false;
                }
            }
            let tail_start = bytes.len() - suffix.len();
            for (p, b) in suffix.iter().zip(bytes[tail_start..].iter()) {
                if !matches(p, &Val::U8(*b), env) {
                    return false;
                }
            }
            if let Some(Some(name)) = rest {
                env.insert(
                    name.clone(),
                    Val::Bytes(bytes[prefix.len()..tail_start].to_vec()),
                );
            }
            true
        }
        (P::Eq(x), v) => x == v,
        (P::Ne(x), v) => x != v,
        (p, v) => panic!("HARNESS: ill-typed pattern {p:?} for value {v:?}"),
    }
}

pub fn eval_guard(g: &G, env: &Env) -> bool {
    let num = |n: &String| -> i64 {
        match env.get(n) {
            Some(Val::U8(x)) => *x as i64,
            other => panic!("HARNESS: guard variable {n} is {other:?}"),
        }
    };
    match g {
        G::True => true,
        G::CmpConst(v, op, c) => op.eval(num(v), *c as i64),
        G::CmpVars(a, op, b) => op.eval(num(a), num(b)),
        G::LenCmp(v, op, c) => {
            let len = match env.get(v) {
                Some(Val::Str(s)) => s.len(),
                Some(Val::Bytes(b)) => b.len(),
                other => panic!("HARNESS: len guard variable {v} is {other:?}"),
            };
            op.eval(len as i64, *c as i64)
        }
        G::BoolVar(v, negate) => match env.get(v) {
            Some(Val::Bool(b)) => *b != *negate,
            other => panic!("HARNESS: bool guard variable {v} is {other:?}"),
        },
        G::And(a, b) => eval_guard(a, env) && eval_guard(b, env),
        G::Or(a, b) => eval_guard(a, env) || eval_guard(b, env),
        G::Not(a) => !eval_guard(a, env),
    }
}

pub fn print_guard(g: &G) -> String {
    match g {
        G::True => "true".into(),
        G::CmpConst(v, op, c) => format!("*{v} {} {c}", op.rust()),
        G::CmpVars(a, op, b) => format!("*{a} {} *{b}", op.rust()),
        G::LenCmp(v, op, c) => format!("{v}.len() {} {c}", op.rust()),
        G::BoolVar(v, negate) => format!("{}*{v}", if *negate { "!" } else { "" }),
        G::And(a, b) => format!("({} && {})", print_guard(a), print_guard(b)),
        G::Or(a, b) => format!("({} || {})", print_guard(a), print_guard(b)),
        G::Not(a) => format!("!({})", print_guard(a)),
    }
}

/// The guard as a user writes it after `if`: no parentheses around the outermost `||` / `&&`.
pub fn print_guard_user(g: &G) -> String {
    match g {
        G::And(a, b) => format!("{} && {}", print_guard(a), print_guard(b)),
        G::Or(a, b) => format!("{} || {}", print_guard(a), print_guard(b)),
        other => print_guard(other),
    }
}

thread_local! {
    /// when set, every multi-element list inside a printed pattern (tuple, tuple struct, struct, slice) ends in a
    /// trailing separator — legal Rust with the same meaning, and the documented short rendering stays the same
    pub static TRAILING_COMMAS: std::cell::Cell<bool> = const { std::cell::Cell::new(false) };
}

/// does the pattern contain a tuple, tuple struct or non-empty slice (a list that can carry a trailing comma)?
pub fn print_pat_has_list(c: &crate::c06::MatchCase) -> bool {
    c.alts.iter().flatten().any(|p| {
        has_construct(p, &|q| match q {
            P::Pair(..) | P::EB(..) => true,
            P::Slice(a, r, b) => !a.is_empty() || r.is_some() || !b.is_empty(),
            _ => false,
        })
    })
}

fn tc() -> &'static str {
    if TRAILING_COMMAS.with(|c| c.get()) {
        ","
    } else {
        ""
    }
}

pub fn print_pat(p: &P, ty: Ty) -> String {
    let f = |o: &Option<Box<P>>, name: &str, t: Ty| {
        o.as_ref().map(|p| format!("{name}: {}", print_pat(p, t)))
    };
    match p {
        P::Wild => "_".into(),
        P::Bind(n) => n.clone(),
        P::At(n, sub) => format!("{n} @ {}", paren_if_or(sub, ty)),
        P::U8(x) => format!("{x}"),
        P::Range(lo, hi) => format!("{lo}..={hi}"),
        P::Bool(b) => format!("{b}"),
        P::Char(c) => format!("{c:?}"),
        P::CharRange(lo, hi) => format!("{lo:?}..={hi:?}"),
        P::Str(s) => format!("{s:?}"),
        P::Or(alts) => alts
            .iter()
            .map(|a| print_pat(a, ty))
            .collect::<Vec<_>>()
            .join(" | "),
        P::Some(sub) => format!("Some({})", print_pat(sub, Ty::U8)),
        P::None => "None".into(),
        P::Pair(a, b) => format!("({}, {}{})", print_pat(a, Ty::U8), print_pat(b, Ty::U8), tc()),
        P::EA => "E::A".into(),
        P::EB(sub) => format!("E::B({}{})", print_pat(sub, Ty::U8), tc()),
        P::EC(x, y) => {
            let mut parts: Vec<String> = [f(x, "x", Ty::U8), f(y, "y", Ty::Bool)]
                .into_iter()
                .flatten()
                .collect();
            if x.is_none() || y.is_none() {
                parts.push("..".into());
            }
            format!("E::C {{ {} }}", parts.join(", "))
        }
        P::S(a, b) => {
            let mut parts: Vec<String> = [f(a, "a", Ty::U8), f(b, "b", Ty::Bool)]
                .into_iter()
                .flatten()
                .collect();
            if a.is_none() || b.is_none() {
                parts.push("..".into());
            }
            format!("S {{ {} }}", parts.join(", "))
        }
        P::Slice(prefix, rest, suffix) => {
            let mut parts: Vec<String> = prefix.iter().map(|p| print_pat(p, Ty::U8)).collect();
            match rest {
                None => {}
                Some(None) => parts.push("..".into()),
                Some(Some(n)) => parts.push(format!("{n} @ ..")),
            }
            parts.extend(suffix.iter().map(|p| print_pat(p, Ty::U8)));
            let t = if parts.is_empty() { "" } else { tc() };
            format!("[{}{t}]", parts.join(", "))
        }
        P::Eq(v) => format!("eq!({})", ty.eq_operand(v)),
        P::Ne(v) => format!("ne!({})", ty.eq_operand(v)),
    }
}

fn paren_if_or(p: &P, ty: Ty) -> String {
    match p {
        P::Or(_) => format!("({})", print_pat(p, ty)),
        _ => print_pat(p, ty),
    }
}

pub fn has_construct(p: &P, f: &dyn Fn(&P) -> bool) -> bool {
    if f(p) {
        return true;
    }
    match p {
        P::At(_, s) | P::Some(s) | P::EB(s) => has_construct(s, f),
        P::Or(v) => v.iter().any(|s| has_construct(s, f)),
        P::Pair(a, b) => has_construct(a, f) || has_construct(b, f),
        P::EC(a, b) | P::S(a, b) => {
            a.as_ref().map(|s| has_construct(s, f)).unwrap_or(false)
                || b.as_ref().map(|s| has_construct(s, f)).unwrap_or(false)
        }
        P::Slice(pre, _, suf) => pre.iter().chain(suf.iter()).any(|s| has_construct(s, f)),
        _ => false,
    }
}

// ------------------------------------------------------------------------------------
// generators

/// u8-position pattern without bindings
fn u8_nobind() -> BoxedStrategy<P> {
    let lit = prop_oneof![
        Just(0u8),
        Just(1),
        Just(2),
        Just(3),
        Just(5),
        Just(9),
        Just(7)
    ];
    let leaf = prop_oneof![
        3 => lit.clone().prop_map(P::U8),
        2 => (0..6u8, 0..5u8).prop_map(|(lo, w)| P::Range(lo, lo + w)),
        1 => Just(P::Wild),
    ];
    prop_oneof![
        4 => leaf.clone(),
        1 => proptest::collection::vec(leaf, 2..=3).prop_map(P::Or),
    ]
    .boxed()
}

/// u8-position pattern; `var` = name to bind if a binding is generated
fn u8_pat(var: String) -> BoxedStrategy<(P, Vec<(String, VarKind)>)> {
    let v2 = var.clone();
    let v3 = var.clone();
    prop_oneof![
        5 => u8_nobind().prop_map(|p| (p, vec![])),
        2 => Just((P::Bind(var.clone()), vec![(v2.clone(), VarKind::U8)])),
        2 => u8_nobind().prop_filter("at needs non-wild", |p| !matches!(p, P::Wild)).prop_map(move |p| (P::At(v3.clone(), Box::new(p)), vec![(v3.clone(), VarKind::U8)])),
    ]
    .boxed()
}

fn bool_pat(var: String) -> BoxedStrategy<(P, Vec<(String, VarKind)>)> {
    let v2 = var.clone();
    prop_oneof![
        2 => any::<bool>().prop_map(|b| (P::Bool(b), vec![])),
        1 => Just((P::Wild, vec![])),
        1 => Just((P::Bind(var.clone()), vec![(v2.clone(), VarKind::Bool)])),
    ]
    .boxed()
}

type PV = (P, Vec<(String, VarKind)>);

fn opt_box(p: PV, keep: bool) -> (Option<Box<P>>, Vec<(String, VarKind)>) {
    if keep {
        (Some(Box::new(p.0)), p.1)
    } else {
        (None, vec![])
    }
}

/// Pattern for one argument position. `allow_str_lit` / `allow_slice` / `allow_eq` encode the
/// macro's coercion rules across alternatives (see gen_case); `prefix` makes variable names unique.
pub fn arg_pat(
    ty: Ty,
    prefix: String,
    allow_str_lit: bool,
    allow_eq: bool,
    allow_bind: bool,
) -> BoxedStrategy<PV> {
    let whole = format!("{prefix}w");
    let whole_kind = match ty {
        Ty::U8 => VarKind::U8,
        Ty::Bool => VarKind::Bool,
        Ty::StrRef | Ty::String => VarKind::Len,
        Ty::VecU8 | Ty::SliceRef => VarKind::Len,
        _ => VarKind::Other,
    };
    let dom = ty.domain();
    let eqs: BoxedStrategy<PV> = if allow_eq {
        let d2 = dom.clone();
        prop_oneof![
            (0..dom.len()).prop_map(move |i| (P::Eq(dom[i].clone()), vec![])),
            (0..d2.len()).prop_map(move |i| (P::Ne(d2[i].clone()), vec![])),
        ]
        .boxed()
    } else {
        Just((P::Wild, vec![])).boxed()
    };
    let wild: BoxedStrategy<PV> = Just((P::Wild, vec![])).boxed();
    let bind: BoxedStrategy<PV> = if allow_bind {
        Just((P::Bind(whole.clone()), vec![(whole.clone(), whole_kind)])).boxed()
    } else {
        Just((P::Wild, vec![])).boxed()
    };
    let structural: BoxedStrategy<PV> = match ty {
        // no literal syntax for this type: compare (eq!/ne!) or ignore
        Ty::NoDbg => {
            if allow_eq {
                eqs.clone()
            } else {
                wild.clone()
            }
        }
        Ty::U8 => u8_pat(format!("{prefix}a")),
        Ty::Bool => bool_pat(format!("{prefix}a")),
        Ty::Char => prop_oneof![
            prop_oneof![Just('a'), Just('b'), Just('z'), Just('q')].prop_map(|c| (P::Char(c), vec![])),
            Just((P::CharRange('a', 'b'), vec![])),
            Just((P::CharRange('b', 'z'), vec![])),
            Just((P::Or(vec![P::Char('a'), P::Char('z')]), vec![])),
        ]
        .boxed(),
        Ty::StrRef | Ty::String | Ty::Newtype => {
            if allow_str_lit {
                let lit = prop_oneof![Just(""), Just("a"), Just("ab"), Just("b"), Just("zz")];
                prop_oneof![
                    3 => lit.clone().prop_map(|s| (P::Str(s.to_string()), vec![])),
                    1 => proptest::collection::vec(lit, 2..=3).prop_map(|v| (P::Or(v.into_iter().map(|s| P::Str(s.to_string())).collect()), vec![])),
                ]
                .boxed()
            } else {
                wild.clone()
            }
        }
        Ty::OptU8 => prop_oneof![
            1 => Just((P::None, vec![])),
            3 => u8_pat(format!("{prefix}a")).prop_map(|(p, v)| (P::Some(Box::new(p)), v)),
        ]
        .boxed(),
        Ty::Pair => (u8_pat(format!("{prefix}a")), u8_pat(format!("{prefix}b")))
            .prop_map(|((p, mut v), (q, w))| {
                v.extend(w);
                (P::Pair(Box::new(p), Box::new(q)), v)
            })
            .boxed(),
        Ty::Enum => prop_oneof![
            1 => Just((P::EA, vec![])),
            2 => u8_pat(format!("{prefix}a")).prop_map(|(p, v)| (P::EB(Box::new(p)), v)),
            3 => (u8_pat(format!("{prefix}a")), bool_pat(format!("{prefix}b")), any::<bool>(), any::<bool>()).prop_map(|(x, y, kx, ky)| {
                let (px, mut v) = opt_box(x, kx);
                let (py, w) = opt_box(y, ky);
                v.extend(w);
                (P::EC(px, py), v)
            }),
            1 => Just((P::Or(vec![P::EA, P::EB(Box::new(P::U8(1)))]), vec![])),
        ]
        .boxed(),
        Ty::Struct => (u8_pat(format!("{prefix}a")), bool_pat(format!("{prefix}b")), any::<bool>(), any::<bool>())
            .prop_map(|(x, y, kx, ky)| {
                let (px, mut v) = opt_box(x, kx);
                let (py, w) = opt_box(y, ky);
                v.extend(w);
                (P::S(px, py), v)
            })
            .boxed(),
        Ty::VecU8 | Ty::SliceRef => {
            let pre = prefix.clone();
            (
                proptest::collection::vec(u8_nobind(), 0..=2),
                prop_oneof![Just(0u8), Just(1), Just(2)],
                proptest::collection::vec(u8_nobind(), 0..=1),
                any::<bool>(),
            )
                .prop_map(move |(mut p, rest, s, bind_first)| {
                    let mut vars = vec![];
                    if bind_first && !p.is_empty() {
                        let n = format!("{pre}a");
                        p[0] = P::Bind(n.clone());
                        vars.push((n, VarKind::U8));
                    }
                    let rest = match rest {
                        0 => None,
                        1 => Some(None),
                        _ => {
                            let n = format!("{pre}r");
                            vars.push((n.clone(), VarKind::Len));
                            Some(Some(n))
                        }
                    };
                    let s = if rest.is_none() { vec![] } else { s };
                    (P::Slice(p, rest, s), vars)
                })
                .boxed()
        }
    };
    let coercing = matches!(
        ty,
        Ty::StrRef | Ty::String | Ty::Newtype | Ty::VecU8 | Ty::SliceRef
    );
    match (coercing, allow_str_lit, allow_eq) {
        // literal / slice patterns at this position (eq!/ne! excluded by the macro's coercion)
        (true, true, _) => prop_oneof![9 => structural, 1 => wild, 1 => bind].boxed(),
        // no literal patterns here: compare with eq!/ne!, bind, or ignore
        (true, false, true) => prop_oneof![7 => eqs, 2 => bind, 1 => wild].boxed(),
        (true, false, false) => prop_oneof![1 => bind, 1 => wild].boxed(),
        (false, _, true) => prop_oneof![9 => structural, 1 => wild, 1 => bind, 2 => eqs].boxed(),
        (false, _, false) => prop_oneof![9 => structural, 1 => wild, 1 => bind].boxed(),
    }
}

fn guard_atom(vars: Vec<(String, VarKind)>) -> BoxedStrategy<G> {
    let u8s: Vec<String> = vars
        .iter()
        .filter(|(_, k)| *k == VarKind::U8)
        .map(|(n, _)| n.clone())
        .collect();
    let bools: Vec<String> = vars
        .iter()
        .filter(|(_, k)| *k == VarKind::Bool)
        .map(|(n, _)| n.clone())
        .collect();
    let lens: Vec<String> = vars
        .iter()
        .filter(|(_, k)| *k == VarKind::Len)
        .map(|(n, _)| n.clone())
        .collect();
    let op = prop_oneof![
        Just(Op::Lt),
        Just(Op::Le),
        Just(Op::Eq),
        Just(Op::Ne),
        Just(Op::Gt)
    ];
    let mut options: Vec<BoxedStrategy<G>> = vec![];
    if !u8s.is_empty() {
        let u = u8s.clone();
        options.push(
            (0..u8s.len(), op.clone(), 0..6u8)
                .prop_map(move |(i, op, c)| G::CmpConst(u[i].clone(), op, c))
                .boxed(),
        );
    }
    if u8s.len() >= 2 {
        let u = u8s.clone();
        options.push(
            (0..u8s.len(), op.clone(), 0..u8s.len())
                .prop_map(move |(i, op, j)| G::CmpVars(u[i].clone(), op, u[j].clone()))
                .boxed(),
        );
    }
    if !bools.is_empty() {
        let b = bools.clone();
        options.push(
            (0..bools.len(), any::<bool>())
                .prop_map(move |(i, n)| G::BoolVar(b[i].clone(), n))
                .boxed(),
        );
    }
    if !lens.is_empty() {
        let l = lens.clone();
        options.push(
            (0..lens.len(), op, 0..3u8)
                .prop_map(move |(i, op, c)| G::LenCmp(l[i].clone(), op, c))
                .boxed(),
        );
    }
    if options.is_empty() {
        return prop_oneof![3 => Just(G::True), 1 => Just(G::Not(Box::new(G::True)))].boxed();
    }
    proptest::strategy::Union::new(options).boxed()
}

pub fn guard(vars: Vec<(String, VarKind)>) -> BoxedStrategy<G> {
    let atom = guard_atom(vars);
    prop_oneof![
        3 => atom.clone(),
        1 => (atom.clone(), atom.clone()).prop_map(|(a, b)| G::And(Box::new(a), Box::new(b))),
        1 => (atom.clone(), atom.clone()).prop_map(|(a, b)| G::Or(Box::new(a), Box::new(b))),
        1 => atom.prop_map(|a| G::Not(Box::new(a))),
    ]
    .boxed()
}
