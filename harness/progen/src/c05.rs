//! C05 — #[unimock] impls forward arguments, receiver and result unchanged.

use proptest::prelude::*;
use serde::{Deserialize, Serialize};
use serde_json::Value;
use vcore::{CaseInfo, Ctx, Verdict};

use crate::e2::{self, Spec};

#[derive(Clone, Copy, Debug, PartialEq, Eq, Hash, Serialize, Deserialize)]
pub enum Recv {
    Ref,
    Mut,
    Value,
    Rc,
    Arc,
    PinMut,
    Boxed,
}

#[derive(Clone, Copy, Debug, PartialEq, Eq, Hash, Serialize, Deserialize)]
pub enum Param {
    U8,
    I32,
    Str,
    String,
    VecU8,
    RefU32,
    Slice,
    MutU32,
    MutVec,
    /// `&mut &'static str`: contains a lifetime, so the matcher sees `Impossible`
    MutStrRef,
    Tuple,
    OptRef,
    /// trait-level generic parameter `G` (instantiated with u16)
    TraitGeneric,
    /// method-level generic parameter `U: 'static` (instantiated with i64)
    MethodGeneric,
    /// `impl Debug + 'static` (called with a u64)
    ImplTrait,
}

pub const PARAMS: [Param; 15] = [
    Param::U8,
    Param::I32,
    Param::Str,
    Param::String,
    Param::VecU8,
    Param::RefU32,
    Param::Slice,
    Param::MutU32,
    Param::MutVec,
    Param::MutStrRef,
    Param::Tuple,
    Param::OptRef,
    Param::TraitGeneric,
    Param::MethodGeneric,
    Param::ImplTrait,
];

#[derive(Clone, Copy, Debug, PartialEq, Eq, Hash, Serialize, Deserialize)]
pub enum Ret {
    Unit,
    U32,
    Str,
    RefSelf,
    /// returns the reference passed as parameter k (a RefU32 parameter)
    RefParam(usize),
    Generic,
}

#[derive(Clone, Copy, Debug, PartialEq, Eq, Hash, Serialize, Deserialize)]
pub enum Asy {
    Sync,
    AsyncFn,
    ImplFuture,
    /// `#[async_trait]` on the trait, `async fn` methods
    AsyncTrait,
}

#[derive(Clone, Copy, Debug, PartialEq, Eq, Hash, Serialize, Deserialize)]
pub enum Api {
    Module,
    Flattened,
    /// no api: exercised through unmock_with + new_partial
    Hidden,
}

#[derive(Clone, Debug, PartialEq, Eq, Hash, Serialize, Deserialize)]
pub struct TraitCase {
    pub recv: Recv,
    pub params: Vec<Param>,
    pub ret: Ret,
    pub asy: Asy,
    pub api: Api,
    /// other (trivial) methods declared before / after the tested one
    pub before: usize,
    pub after: usize,
    /// the answer is installed with answers_arc instead of answers
    pub arc: bool,
    /// another method with the identical signature is declared right after the tested one
    pub twin: bool,
    /// the clause is `next_call(..)..n_times(2)` and the method is called twice: the second call of the
    /// ordered range must reach matcher and answer function like the first
    #[serde(default)]
    pub ordered_twice: bool,
    /// the tested method is a PROVIDED one (it has a default body, which must never run: the clause answers)
    #[serde(default)]
    pub provided: bool,
    /// the call is made by a destructor that runs while the thread unwinds from a user panic (RAII cleanup):
    /// matcher and answer function must see the arguments exactly as in a plain call
    #[serde(default)]
    pub from_unwinding_destructor: bool,
    /// before the observed call another call on the same mock (a method of a second mocked trait that no clause
    /// mentions) was rejected and that mock-induced panic was caught: the state it leaves behind must not change
    /// how a later, valid call is forwarded
    #[serde(default)]
    pub prior_error: bool,
}

impl TraitCase {
    /// `ordered_twice` needs a receiver that survives the call, no caller-visible mutation between the two
    /// calls and a clause to quantify
    /// a default body is declared where the clause (not a real function) resolves the call
    pub fn has_default_body(&self) -> bool {
        // (provided methods with a Box<Self> receiver are not supported by the macro: calibrated on the unchanged tree)
        self.provided && self.api != Api::Hidden && self.asy != Asy::ImplFuture && self.recv != Recv::Boxed
    }
    /// (not for by-value receivers: their identity probe is `verify()`, which rightly fails after a recorded error)
    pub fn has_prior_error(&self) -> bool {
        self.prior_error && self.recv != Recv::Value
    }
    pub fn calls_while_unwinding(&self) -> bool {
        self.from_unwinding_destructor && self.asy == Asy::Sync && !self.calls_twice()
    }
    pub fn calls_twice(&self) -> bool {
        self.ordered_twice
            && self.api != Api::Hidden
            && matches!(self.recv, Recv::Ref | Recv::Mut | Recv::PinMut)
            && !self.params.iter().any(|p| p.is_mut())
    }
}

pub fn fnv(s: &str) -> u32 {
    let mut h: u32 = 0x811c9dc5;
    for b in s.bytes() {
        h ^= b as u32;
        h = h.wrapping_mul(0x01000193);
    }
    h
}

impl Param {
    fn ty(self) -> &'static str {
        match self {
            Param::U8 => "u8",
            Param::I32 => "i32",
            Param::Str => "&str",
            Param::String => "String",
            Param::VecU8 => "Vec<u8>",
            Param::RefU32 => "&u32",
            Param::Slice => "&[u8]",
            Param::MutU32 => "&mut u32",
            Param::MutVec => "&mut Vec<u8>",
            Param::MutStrRef => "&mut &'static str",
            Param::Tuple => "(u8, String)",
            Param::OptRef => "Option<&u32>",
            Param::TraitGeneric => "G",
            Param::MethodGeneric => "U",
            Param::ImplTrait => "impl std::fmt::Debug + 'static",
        }
    }
    /// statements preparing caller-side variables, argument expression, Debug string of the value
    fn arg(self, k: usize) -> (String, String, String) {
        match self {
            Param::U8 => (
                String::new(),
                format!("{}u8", 10 + k),
                format!("{}", 10 + k),
            ),
            Param::I32 => (
                String::new(),
                format!("-{}i32", 100 + k),
                format!("-{}", 100 + k),
            ),
            Param::Str => (String::new(), format!("\"str{k}\""), format!("\"str{k}\"")),
            Param::String => (
                String::new(),
                format!("String::from(\"s{k}\")"),
                format!("\"s{k}\""),
            ),
            Param::VecU8 => (
                String::new(),
                format!("vec![{k}u8, {}]", k + 1),
                format!("[{k}, {}]", k + 1),
            ),
            Param::RefU32 => (
                format!("let r{k}: u32 = {};\n", 1000 + k),
                format!("&r{k}"),
                format!("{}", 1000 + k),
            ),
            Param::Slice => (
                String::new(),
                format!("&[{k}u8, 9][..]"),
                format!("[{k}, 9]"),
            ),
            Param::MutU32 => (
                format!("let mut m{k}: u32 = {};\n", 2000 + k),
                format!("&mut m{k}"),
                format!("{}", 2000 + k),
            ),
            Param::MutVec => (
                format!("let mut m{k}: Vec<u8> = vec![{k}u8];\n"),
                format!("&mut m{k}"),
                format!("[{k}]"),
            ),
            Param::MutStrRef => (
                format!("let mut m{k}: &'static str = \"before{k}\";\n"),
                format!("&mut m{k}"),
                format!("\"before{k}\""),
            ),
            Param::Tuple => (
                String::new(),
                format!("({}u8, String::from(\"t{k}\"))", 50 + k),
                format!("({}, \"t{k}\")", 50 + k),
            ),
            Param::OptRef => (
                format!("let r{k}: u32 = {};\n", 3000 + k),
                format!("Some(&r{k})"),
                format!("Some({})", 3000 + k),
            ),
            Param::TraitGeneric => (
                String::new(),
                format!("{}u16", 300 + k),
                format!("{}", 300 + k),
            ),
            Param::MethodGeneric => (
                String::new(),
                format!("-{}i64", 5000 + k),
                format!("-{}", 5000 + k),
            ),
            Param::ImplTrait => (
                String::new(),
                format!("{}u64", 4000 + k),
                format!("{}", 4000 + k),
            ),
        }
    }
    fn is_mut(self) -> bool {
        matches!(self, Param::MutU32 | Param::MutVec | Param::MutStrRef)
    }
    /// what the matcher's Debug shows for this parameter
    fn matcher_debug(self, k: usize) -> String {
        match self {
            Param::MutStrRef => "Impossible".into(),
            p => p.arg(k).2,
        }
    }
}

impl TraitCase {
    fn trait_generic(&self) -> bool {
        self.params.contains(&Param::TraitGeneric) || self.ret == Ret::Generic
    }
    fn method_generic(&self) -> bool {
        self.params.contains(&Param::MethodGeneric)
    }
    fn ret_ty(&self) -> &'static str {
        match self.ret {
            Ret::Unit => "()",
            Ret::U32 => "u32",
            Ret::Str => "String",
            Ret::RefSelf => "&u32",
            Ret::RefParam(_) => "&'a u32",
            Ret::Generic => "G",
        }
    }
    fn recv_decl(&self) -> &'static str {
        match self.recv {
            Recv::Ref => "&self",
            Recv::Mut => "&mut self",
            Recv::Value => "self",
            Recv::Rc => "self: std::rc::Rc<Self>",
            Recv::Arc => "self: std::sync::Arc<Self>",
            Recv::PinMut => "self: std::pin::Pin<&mut Self>",
            Recv::Boxed => "self: Box<Self>",
        }
    }
    fn recv_real_ty(&self) -> &'static str {
        match self.recv {
            Recv::Ref => "&Unimock",
            Recv::Mut => "&mut Unimock",
            Recv::Value => "Unimock",
            Recv::Rc => "std::rc::Rc<Unimock>",
            Recv::Arc => "std::sync::Arc<Unimock>",
            Recv::PinMut => "std::pin::Pin<&mut Unimock>",
            Recv::Boxed => "Box<Unimock>",
        }
    }
    fn recv_expr(&self) -> &'static str {
        match self.recv {
            Recv::Ref => "&u",
            Recv::Mut => "&mut u",
            Recv::Value => "u",
            Recv::Rc => "std::rc::Rc::new(u)",
            Recv::Arc => "std::sync::Arc::new(u)",
            Recv::PinMut => "std::pin::Pin::new(&mut u)",
            Recv::Boxed => "Box::new(u)",
        }
    }
    fn method_sig(&self, with_names: bool) -> String {
        let mut generics = vec![];
        if matches!(self.ret, Ret::RefParam(_)) {
            generics.push("'a".to_string());
        }
        if self.method_generic() {
            generics.push("U: 'static + std::fmt::Debug".to_string());
        }
        let g = if generics.is_empty() {
            String::new()
        } else {
            format!("<{}>", generics.join(", "))
        };
        let params: String = self
            .params
            .iter()
            .enumerate()
            .map(|(k, p)| {
                let ty = if matches!(self.ret, Ret::RefParam(j) if j == k) {
                    "&'a u32"
                } else {
                    p.ty()
                };
                if with_names {
                    format!(", a{k}: {ty}")
                } else {
                    format!(", {ty}")
                }
            })
            .collect();
        let ret = match self.ret {
            Ret::Unit => String::new(),
            _ => format!(" -> {}", self.ret_ty()),
        };
        match self.asy {
            Asy::Sync => format!("fn m{g}({}{params}){ret}", self.recv_decl()),
            Asy::AsyncFn | Asy::AsyncTrait => {
                format!("async fn m{g}({}{params}){ret}", self.recv_decl())
            }
            Asy::ImplFuture => format!(
                "fn m{g}({}{params}) -> impl std::future::Future<Output = {}>",
                self.recv_decl(),
                self.ret_ty()
            ),
        }
    }

    /// "A|d0|d1|.." as the answer function logs it
    pub fn arg_string(&self, tag: &str, matcher_view: bool) -> String {
        let mut s = tag.to_string();
        for (k, p) in self.params.iter().enumerate() {
            s.push('|');
            s.push_str(&if matcher_view {
                p.matcher_debug(k)
            } else {
                p.arg(k).2
            });
        }
        s
    }

    pub fn expected_ret(&self) -> String {
        let a = self.arg_string("A", false);
        match self.ret {
            Ret::Unit => "()".into(),
            Ret::U32 | Ret::RefSelf => format!("{}", fnv(&a)),
            Ret::Str => format!("{:?}", format!("R<{a}>")),
            Ret::RefParam(k) => self.params[k].arg(k).2,
            Ret::Generic => format!("{}", fnv(&a) as u16),
        }
    }

    pub fn expected_muts(&self) -> Vec<String> {
        let a = self.arg_string("A", false);
        let h = fnv(&a);
        self.params
            .iter()
            .enumerate()
            .filter(|(_, p)| p.is_mut())
            .map(|(k, p)| match p {
                Param::MutU32 => format!("{}", h ^ (k as u32 + 1)),
                Param::MutVec => format!("[{k}, {}]", (h as u8) ^ (k as u8)),
                Param::MutStrRef => format!("\"after{k}\""),
                _ => unreachable!(),
            })
            .collect()
    }
}

pub const PRELUDE: &str = r#"
#![allow(unused)]
pub use unimock::*;
pub use std::sync::{Arc, Mutex};
pub fn fnv(s: &str) -> u32 {
    let mut h: u32 = 0x811c9dc5;
    for b in s.bytes() { h ^= b as u32; h = h.wrapping_mul(0x01000193); }
    h
}
pub fn block_on<F: std::future::Future>(f: F) -> F::Output {
    use std::task::{Context, Poll, Wake, Waker};
    struct W;
    impl Wake for W { fn wake(self: Arc<Self>) {} }
    let w = Waker::from(Arc::new(W));
    let mut cx = Context::from_waker(&w);
    let mut f = std::pin::pin!(f);
    loop { if let Poll::Ready(v) = f.as_mut().poll(&mut cx) { return v; } }
}
"#;

fn body_of_answer(c: &TraitCase, self_name: &str) -> String {
    // logs, mutates &mut params, returns an injective function of the arguments
    let mut s = String::new();
    let fmt: String = std::iter::once("A".to_string())
        .chain(c.params.iter().map(|_| "{:?}".to_string()))
        .collect::<Vec<_>>()
        .join("|");
    let args: String = c
        .params
        .iter()
        .enumerate()
        .map(|(k, _)| format!(", a{k}"))
        .collect();
    s.push_str(&format!("        let s = format!(\"{fmt}\"{args});\n        log(s.clone());\n        let h = fnv(&s);\n"));
    for (k, p) in c.params.iter().enumerate() {
        match p {
            Param::MutU32 => s.push_str(&format!("        *a{k} = h ^ {};\n", k + 1)),
            Param::MutVec => s.push_str(&format!("        a{k}.push((h as u8) ^ {k});\n")),
            Param::MutStrRef => s.push_str(&format!("        *a{k} = \"after{k}\";\n")),
            _ => {}
        }
    }
    // receiver identity: the answer (or real) function must get the caller's own receiver
    let addr = "std::sync::atomic::Ordering::SeqCst";
    match c.recv {
        Recv::Ref => s.push_str(&format!(
            "        log(format!(\"RECV|{{}}\", ({self_name} as *const Unimock as usize) == EXPECT_ADDR.load({addr})));\n"
        )),
        Recv::Mut | Recv::PinMut | Recv::Boxed => s.push_str(&format!(
            "        log(format!(\"RECV|{{}}\", (&*{self_name} as *const Unimock as usize) == EXPECT_ADDR.load({addr})));\n"
        )),
        Recv::Rc => s.push_str(&format!(
            "        log(format!(\"RECV|{{}}|{{}}\", (&*{self_name} as *const Unimock as usize) == EXPECT_ADDR.load({addr}), std::rc::Rc::strong_count(&{self_name})));\n"
        )),
        Recv::Arc => s.push_str(&format!(
            "        log(format!(\"RECV|{{}}|{{}}\", (&*{self_name} as *const Unimock as usize) == EXPECT_ADDR.load({addr}), std::sync::Arc::strong_count(&{self_name})));\n"
        )),
        Recv::Value => {}
    }
    let ret = match c.ret {
        Ret::Unit => "()".to_string(),
        Ret::U32 => "h".to_string(),
        Ret::Str => "format!(\"R<{}>\", s)".to_string(),
        Ret::RefSelf => match c.recv {
            Recv::Mut | Recv::PinMut => format!("{self_name}.make_mut(h) as &u32"),
            _ => format!("{self_name}.make_ref(h)"),
        },
        Ret::RefParam(k) => format!("a{k}"),
        Ret::Generic => "h as u16".to_string(),
    };
    if c.recv == Recv::Value {
        // a by-value receiver must be the original instance itself: verify() refuses clones
        s.push_str(&format!(
            "        let ret_value = {ret};\n        let is_original = std::panic::catch_unwind(std::panic::AssertUnwindSafe(move || {self_name}.verify())).is_ok();\n        log(format!(\"RECV|{{}}\", is_original));\n        ret_value\n"
        ));
    } else {
        s.push_str(&format!("        {ret}\n"));
    }
    s
}

pub fn source(c: &TraitCase) -> String {
    let n = c.params.len();
    let tg = c.trait_generic();
    let trait_generics = if tg {
        "<G: 'static + std::fmt::Debug + Clone>"
    } else {
        ""
    };
    let trait_args = if tg { "<u16>" } else { "" };
    let sized = if matches!(c.recv, Recv::Value) {
        ": Sized"
    } else {
        ""
    };
    let mut s = String::new();
    s.push_str("static LOG: Mutex<Vec<String>> = Mutex::new(Vec::new());\nfn log(s: String) { LOG.lock().unwrap().push(s) }\nfn take() -> Vec<String> { std::mem::take(&mut *LOG.lock().unwrap()) }\nstatic EXPECT_ADDR: std::sync::atomic::AtomicUsize = std::sync::atomic::AtomicUsize::new(0);\n\n");
    // attribute
    let total = c.before + 1 + c.after + c.twin as usize;
    let attr = match c.api {
        Api::Module => "api=M".to_string(),
        Api::Flattened => format!(
            "api=[{}]",
            (0..total)
                .map(|i| format!("F{i}"))
                .collect::<Vec<_>>()
                .join(", ")
        ),
        Api::Hidden => format!(
            "unmock_with=[{}]",
            (0..total)
                .map(|i| if i == c.before {
                    "real_m".to_string()
                } else {
                    "_".to_string()
                })
                .collect::<Vec<_>>()
                .join(", ")
        ),
    };
    let async_trait_attr = if c.asy == Asy::AsyncTrait {
        "#[::async_trait::async_trait]\n"
    } else {
        ""
    };
    if c.has_prior_error() {
        s.push_str("#[unimock(api=ZzMock)]\npub trait Zz {\n    fn zz(&self) -> u8;\n}\n\n");
    }
    s.push_str(&format!(
        "#[unimock({attr})]\n{async_trait_attr}pub trait Tr{trait_generics}{sized} {{\n"
    ));
    for i in 0..c.before {
        s.push_str(&format!("    fn other_b{i}(&self, x: u8) -> u8;\n"));
    }
    if c.has_default_body() {
        s.push_str(&format!("    {} {{ panic!(\"DEFAULT-BODY-REACHED\") }}\n", c.method_sig(true)));
    } else {
        s.push_str(&format!("    {};\n", c.method_sig(true)));
    }
    if c.twin {
        s.push_str(&format!(
            "    {};\n",
            c.method_sig(true).replacen("fn m", "fn m_twin", 1)
        ));
    }
    for i in 0..c.after {
        s.push_str(&format!("    fn other_a{i}(&self, x: u8) -> u8;\n"));
    }
    s.push_str("}\n\n");
    if c.api == Api::Hidden {
        // the real function: same observable behaviour as the answer function
        let mut generics = vec![];
        if matches!(c.ret, Ret::RefParam(_)) {
            generics.push("'a");
        }
        let g = if generics.is_empty() {
            String::new()
        } else {
            format!("<{}>", generics.join(", "))
        };
        let params: String = c
            .params
            .iter()
            .enumerate()
            .map(|(k, p)| {
                let ty = if matches!(c.ret, Ret::RefParam(j) if j == k) {
                    "&'a u32"
                } else {
                    p.ty()
                };
                format!(", a{k}: {ty}")
            })
            .collect();
        let (self_ty, self_pat): (String, &str) = match (c.recv, c.ret) {
            (Recv::Ref, Ret::RefSelf) => ("&Unimock".into(), "u_"),
            (Recv::Mut, Ret::RefSelf) => ("&mut Unimock".into(), "u_"),
            _ => (c.recv_real_ty().to_string(), "u_"),
        };
        let asy = if c.asy == Asy::Sync { "" } else { "async " };
        s.push_str(&format!(
            "pub {asy}fn real_m{g}({self_pat}: {self_ty}{params}) -> {} {{\n{}}}\n\n",
            c.ret_ty(),
            body_of_answer(c, "u_")
        ));
    }
    s.push_str("pub fn run() -> String {\n");
    let mut arg_exprs = vec![];
    for (k, p) in c.params.iter().enumerate() {
        let (prep, expr, _) = p.arg(k);
        if !prep.is_empty() {
            s.push_str(&format!("    {prep}"));
        }
        arg_exprs.push(expr);
    }
    // the mock
    let mock_fn = match c.api {
        Api::Module => "M::m".to_string(),
        Api::Flattened => format!("F{}", c.before),
        Api::Hidden => String::new(),
    };
    let mut type_args = vec![];
    if tg {
        type_args.push("u16");
    }
    if c.method_generic() {
        type_args.push("i64");
    }
    if c.params.contains(&Param::ImplTrait) {
        for p in &c.params {
            if *p == Param::ImplTrait {
                type_args.push("u64");
            }
        }
    }
    let with_types = if type_args.is_empty() {
        String::new()
    } else {
        format!(".with_types::<{}>()", type_args.join(", "))
    };
    let self_name = "u_";
    if c.api != Api::Hidden {
        let pat = match n {
            0 => "_".to_string(),
            1 => "a0".to_string(),
            _ => format!(
                "({})",
                (0..n)
                    .map(|k| format!("a{k}"))
                    .collect::<Vec<_>>()
                    .join(", ")
            ),
        };
        let fmt: String = std::iter::once("M".to_string())
            .chain(c.params.iter().map(|_| "{:?}".to_string()))
            .collect::<Vec<_>>()
            .join("|");
        let fargs: String = (0..n).map(|k| format!(", a{k}")).collect();
        let closure_params: String = (0..n).map(|k| format!(", a{k}")).collect();
        let answer = format!(
            "|{self_name}{closure_params}| {{\n{}    }}",
            body_of_answer(c, self_name)
        );
        let install = if c.arc {
            format!(".answers_arc(Arc::new({answer}))")
        } else {
            format!(".answers(&{answer})")
        };
        let (entry, quantify) = if c.calls_twice() { ("next_call", ".n_times(2)") } else { ("each_call", "") };
        s.push_str(&format!(
            "    let clause = {mock_fn}{with_types}\n        .{entry}(&|m| m.func(|{pat}, _| {{ log(format!(\"{fmt}\"{fargs})); true }}))\n        {install}{quantify};\n"
        ));
        s.push_str("    let mut u = Unimock::new(clause).no_verify_in_drop();\n");
    } else {
        s.push_str("    let mut u = Unimock::new_partial(()).no_verify_in_drop();\n");
    }
    if c.has_prior_error() {
        s.push_str("    {\n        let prior = std::panic::catch_unwind(std::panic::AssertUnwindSafe(|| <Unimock as Zz>::zz(&u)));\n        assert!(prior.is_err(), \"HARNESS: zz() did not panic\");\n    }\n");
    }
    let method_targs = if c.method_generic() { "::<i64>" } else { "" };
    let call = |recv: &str| {
        format!(
            "<Unimock as Tr{trait_args}>::m{method_targs}({recv}{})",
            arg_exprs
                .iter()
                .map(|e| format!(", {e}"))
                .collect::<String>()
        )
    };
    let mut lazy = "n/a".to_string();
    let _ = &mut lazy;
    let twice = c.calls_twice();
    let store = "std::sync::atomic::Ordering::SeqCst";
    let recv_arg: String = match c.recv {
        Recv::Ref | Recv::Mut | Recv::PinMut => {
            s.push_str(&format!("    EXPECT_ADDR.store(&u as *const Unimock as usize, {store});\n"));
            c.recv_expr().to_string()
        }
        Recv::Boxed | Recv::Rc | Recv::Arc => {
            s.push_str(&format!("    let rv = {};\n    EXPECT_ADDR.store(&*rv as *const Unimock as usize, {store});\n", c.recv_expr()));
            "rv".to_string()
        }
        Recv::Value => c.recv_expr().to_string(),
    };
    if twice {
        // first call of the ordered range
        if c.asy == Asy::Sync {
            s.push_str(&format!("    {{ let _first = {}; }}\n", call(&recv_arg)));
        } else {
            s.push_str(&format!("    {{ let _first = block_on({}); }}\n", call(&recv_arg)));
        }
        s.push_str("    let pre: Vec<String> = take();\n");
    } else {
        s.push_str("    let pre: Vec<String> = vec![];\n");
    }
    if c.calls_while_unwinding() {
        // the call is the body of a destructor that runs during the unwinding of a (caught) user panic
        s.push_str("    struct OnDrop<F: FnOnce()>(Option<F>);\n    impl<F: FnOnce()> Drop for OnDrop<F> { fn drop(&mut self) { if let Some(f) = self.0.take() { f() } } }\n");
        s.push_str("    let mut slot = None;\n    let was_unwinding = std::cell::Cell::new(false);\n");
        s.push_str(&format!(
            "    let _ = std::panic::catch_unwind(std::panic::AssertUnwindSafe(|| {{\n        let _guard = OnDrop(Some(|| {{ was_unwinding.set(std::thread::panicking()); slot = Some({}); }}));\n        std::panic::resume_unwind(Box::new(\"user panic (expected)\"));\n    }}));\n",
            call(&recv_arg)
        ));
        s.push_str("    assert!(was_unwinding.get(), \"HARNESS: the destructor did not run during an unwinding\");\n");
        s.push_str("    let r = slot.expect(\"HARNESS: the destructor did not run\");\n    let ret = format!(\"{:?}\", r);\n");
        s.push_str("    let lazy = \"n/a\".to_string();\n");
    } else if c.asy == Asy::Sync {
        s.push_str(&format!(
            "    let r = {};\n    let ret = format!(\"{{:?}}\", r);\n",
            call(&recv_arg)
        ));
        s.push_str("    let lazy = \"n/a\".to_string();\n");
    } else if matches!(c.recv, Recv::Ref | Recv::Mut | Recv::PinMut) {
        // laziness: create + drop the future unpolled, nothing may have been evaluated
        s.push_str(&format!(
            "    {{ let fut = {}; drop(fut); }}\n",
            call(&recv_arg)
        ));
        s.push_str("    let lazy = format!(\"{}\", take().len());\n");
        // undo possible mutation effects are impossible here: nothing ran
        s.push_str(&format!(
            "    let r = block_on({});\n    let ret = format!(\"{{:?}}\", r);\n",
            call(&recv_arg)
        ));
    } else {
        s.push_str("    let lazy = \"n/a\".to_string();\n");
        s.push_str(&format!(
            "    let r = block_on({});\n    let ret = format!(\"{{:?}}\", r);\n",
            call(&recv_arg)
        ));
    }
    let muts: Vec<String> = c
        .params
        .iter()
        .enumerate()
        .filter(|(_, p)| p.is_mut())
        .map(|(k, _)| format!("format!(\"{{:?}}\", m{k})"))
        .collect();
    s.push_str(&format!(
        "    let muts: Vec<String> = vec![{}];\n",
        muts.join(", ")
    ));
    s.push_str("    let mut logv = pre;\n    logv.extend(take());\n");
    s.push_str("    format!(\"{}\\u{1}{}\\u{1}{}\\u{1}{}\", logv.join(\"\\u{2}\"), ret, muts.join(\"\\u{2}\"), lazy)\n}\n");
    s
}

pub fn judge(c: &TraitCase, line: &str) -> Result<CaseInfo, String> {
    let parts: Vec<&str> = line.split('\u{1}').collect();
    if parts.len() != 4 {
        return Err(format!("HARNESS: malformed output {line:?}"));
    }
    let log: Vec<&str> = if parts[0].is_empty() {
        vec![]
    } else {
        parts[0].split('\u{2}').collect()
    };
    let muts: Vec<&str> = if parts[2].is_empty() {
        vec![]
    } else {
        parts[2].split('\u{2}').collect()
    };
    let mut expected_log = vec![];
    if c.api != Api::Hidden {
        expected_log.push(c.arg_string("M", true));
    }
    expected_log.push(c.arg_string("A", false));
    expected_log.push(match c.recv {
        Recv::Rc | Recv::Arc => "RECV|true|1".to_string(),
        _ => "RECV|true".to_string(),
    });
    if c.calls_twice() {
        let once = expected_log.clone();
        expected_log.extend(once);
    }
    let sig = c.method_sig(true);
    if log != expected_log {
        return Err(format!(
            "`{sig}`: the matcher / answer function saw {log:?}, the caller passed {expected_log:?}"
        ));
    }
    if parts[1] != c.expected_ret() {
        return Err(format!(
            "`{sig}`: the call returned {}, the answer produced {}",
            parts[1],
            c.expected_ret()
        ));
    }
    let em = c.expected_muts();
    if muts != em.iter().map(|s| s.as_str()).collect::<Vec<_>>() {
        return Err(format!(
            "`{sig}`: caller's &mut variables are {muts:?} after the call, the answer wrote {em:?}"
        ));
    }
    if parts[3] != "n/a" && parts[3] != "0" {
        return Err(format!(
            "`{sig}`: {} evaluation steps ran although the future was dropped unpolled",
            parts[3]
        ));
    }
    let n = c.params.len();
    let nt = n >= 2
        || c.params.iter().any(|p| {
            p.is_mut()
                || matches!(
                    p,
                    Param::TraitGeneric | Param::MethodGeneric | Param::ImplTrait
                )
        })
        || c.recv != Recv::Ref
        || c.asy != Asy::Sync;
    let adjacent_same = c.params.windows(2).any(|w| w[0] == w[1]);
    Ok(CaseInfo::new(nt)
        .class(match c.recv {
            Recv::Ref => "recv:&self",
            Recv::Mut => "recv:&mut self",
            Recv::Value => "recv:self",
            Recv::Rc => "recv:Rc<Self>",
            Recv::Arc => "recv:Arc<Self>",
            Recv::PinMut => "recv:Pin<&mut Self>",
            Recv::Boxed => "recv:Box<Self>",
        })
        .class(match c.asy {
            Asy::Sync => "sync",
            Asy::AsyncFn => "async fn",
            Asy::ImplFuture => "-> impl Future",
            Asy::AsyncTrait => "#[async_trait]",
        })
        .class(match c.api {
            Api::Module => "api:module",
            Api::Flattened => "api:flattened",
            Api::Hidden => "api:hidden(unmock_with)",
        })
        .class_if(adjacent_same, "adjacent-params-of-same-type")
        .class_if(c.params.iter().any(|p| p.is_mut()), "has-&mut-param")
        .class_if(c.trait_generic(), "trait-generic")
        .class_if(c.method_generic(), "method-generic")
        .class_if(c.params.contains(&Param::ImplTrait), "impl-Trait-param")
        .class_if(n >= 4, "arity>=4")
        .class_if(c.twin, "has-twin-method-of-same-signature")
        .class_if(c.calls_twice(), "ordered-clause-n_times(2)-called-twice")
        .class_if(c.has_default_body(), "provided-method(default-body-must-not-run)")
        .class_if(c.calls_while_unwinding(), "called-by-a-destructor-during-unwinding")
        .class_if(c.has_prior_error(), "after-a-caught-mock-induced-panic-on-the-same-mock")
        .class_if(parts[3] == "0", "future-dropped-unpolled"))
}

pub fn case_strategy() -> impl Strategy<Value = TraitCase> {
    let param = (0..PARAMS.len()).prop_map(|i| PARAMS[i]);
    // adjacent parameters often share a type
    let params = proptest::collection::vec((param, any::<bool>()), 0..=5).prop_map(|v| {
        let mut out: Vec<Param> = vec![];
        for (p, same) in v {
            if same && !out.is_empty() {
                let last = *out.last().unwrap();
                out.push(last);
            } else {
                out.push(p);
            }
        }
        out
    });
    (
        prop_oneof![4 => Just(Recv::Ref), 2 => Just(Recv::Mut), 1 => Just(Recv::Value), 1 => Just(Recv::Rc), 1 => Just(Recv::Arc), 1 => Just(Recv::PinMut), 1 => Just(Recv::Boxed)],
        params,
        0..6usize,
        prop_oneof![4 => Just(Asy::Sync), 1 => Just(Asy::AsyncFn), 1 => Just(Asy::ImplFuture), 1 => Just(Asy::AsyncTrait)],
        prop_oneof![3 => Just(Api::Module), 2 => Just(Api::Flattened), 1 => Just(Api::Hidden)],
        0..3usize,
        0..3usize,
        any::<bool>(),
        (any::<bool>(), proptest::bool::weighted(0.35), proptest::bool::weighted(0.3), proptest::bool::weighted(0.3), proptest::bool::weighted(0.3)),
    )
        .prop_map(|(recv, mut params, ret_sel, mut asy, api, before, after, arc, (twin, ordered_twice, provided, from_unwinding_destructor, prior_error))| {
            // at most one impl-Trait parameter (explicit type arguments cannot name further ones portably)
            let mut seen_impl = false;
            for p in params.iter_mut() {
                if *p == Param::ImplTrait {
                    if seen_impl {
                        *p = Param::U8;
                    }
                    seen_impl = true;
                }
            }
            if api == Api::Hidden {
                for p in params.iter_mut() {
                    if matches!(p, Param::TraitGeneric | Param::MethodGeneric | Param::ImplTrait) {
                        *p = Param::I32;
                    }
                }
            }
            let ref_param = params.iter().position(|p| *p == Param::RefU32);
            let mut ret = match ret_sel {
                0 => Ret::Unit,
                1 => Ret::U32,
                2 => Ret::Str,
                3 => Ret::RefSelf,
                4 => ref_param.map(Ret::RefParam).unwrap_or(Ret::U32),
                _ => Ret::Generic,
            };
            if api == Api::Hidden && matches!(ret, Ret::Generic | Ret::RefSelf) {
                ret = Ret::U32;
            }
            // self-borrowed returns need a borrowing receiver
            if ret == Ret::RefSelf && !matches!(recv, Recv::Ref | Recv::Mut | Recv::PinMut) {
                ret = Ret::Str;
            }
            // async shapes: keep to owned returns (borrowing futures are exercised by C16's recursion)
            if asy != Asy::Sync && matches!(ret, Ret::RefSelf | Ret::RefParam(_)) {
                ret = Ret::U32;
            }
            // `-> impl Future` on &mut self / Pin<&mut Self> receivers is rejected by rustc in the generated
            // impl (E0562, the return type is repeated in a closure signature): outside the accepted shapes
            if asy == Asy::ImplFuture && matches!(recv, Recv::Mut | Recv::PinMut) {
                asy = Asy::AsyncFn;
            }
            // a parameter-borrowed return only type-checks when it is the only reference parameter
            // (MockFn::Inputs has a single lifetime for all inputs)
            if let Ret::RefParam(k) = ret {
                let other_refs = params.iter().enumerate().any(|(j, p)| {
                    j != k && matches!(p, Param::Str | Param::RefU32 | Param::Slice | Param::MutU32 | Param::MutVec | Param::MutStrRef | Param::OptRef)
                });
                if other_refs {
                    ret = Ret::Str;
                }
            }
            // ... and not with &mut self / Pin receivers (the polonius closure cannot name the caller's lifetime)
            if matches!(ret, Ret::RefParam(_)) && matches!(recv, Recv::Mut | Recv::PinMut) {
                ret = Ret::Str;
            }
            if asy == Asy::AsyncTrait && (api == Api::Hidden || params.iter().any(|p| matches!(p, Param::TraitGeneric | Param::MethodGeneric | Param::ImplTrait)) || ret == Ret::Generic) {
                // keep #[async_trait] shapes to what the crate's own tests exercise: non-generic, visible api
                asy = Asy::AsyncFn;
            }
            if asy != Asy::Sync && matches!(recv, Recv::Rc) {
                // Rc<Self> futures are !Send; fine, but keep the grammar to what the macro documents
                asy = Asy::Sync;
            }
            TraitCase { recv, params, ret, asy, api, before, after, arc, twin, ordered_twice, provided, from_unwinding_destructor, prior_error }
        })
}

pub const RULE: &str = "programs = generated #[unimock] traits: receiver {&self, &mut self, self, Rc<Self>, Arc<Self>, Pin<&mut Self>, Box<Self>} x 0-5 parameters from {u8, i32, &str, String, Vec<u8>, &u32, &[u8], &mut u32, &mut Vec<u8>, &mut &'static str, (u8,String), Option<&u32>, trait-level generic, method-level generic, impl Trait} with adjacent parameters often sharing a type x return {unit, u32, String, &u32 from self, &'a u32 from a parameter, generic} x {sync, async fn, -> impl Future} x api {module, flattened, hidden via unmock_with} x position of the method among 0-2 other methods; pairwise distinct argument values; the clause optionally ordered with n_times(2) and called twice, the method optionally a provided one, the (sync) call optionally made by a destructor while the thread unwinds from a caught user panic, optionally after a caught mock-induced panic on the same mock. Non-trivial = arity >= 2, or a &mut / generic / impl-Trait parameter, or a receiver other than &self, or async; distinct = distinct shape";

fn spec<'a>() -> Spec<'a, TraitCase> {
    Spec {
        project: "C05",
        prelude: PRELUDE,
        source: &source,
        judge: &judge,
        nbins: 16,
        max_shrink_steps: 30,
        extra_deps: "async-trait = \"0.1\"\n",
    }
}

pub fn run(ctx: &Ctx) -> Verdict {
    let mut v = Verdict::new("exploration", RULE);
    v.explanation = "The generated program installs a matcher that logs the argument tuple it sees and an answer function that logs its arguments, writes value-dependent data through every &mut parameter and returns an injective function of the arguments; the generator knows the Debug strings it wrote and compares both logs (declaration order), the return value, the caller's &mut variables and, for async shapes, that nothing ran before the first poll / without a poll.".into();
    v.assumptions = vec![
        "shapes rustc rejects are outside the property's domain (counted; > 5% = inconclusive)"
            .into(),
        "hidden-api shapes are observed through a recording unmock_with function in a partial mock"
            .into(),
    ];
    v.subs
        .push(crate::replay_corpus(ctx, &|sub, case| replay(sub, case)));
    let n = ctx.tier.pick(1600, 32_000) as usize;
    let batches = n.div_ceil(1600);
    for b in 0..batches {
        let sub = if batches == 1 {
            "shapes".to_string()
        } else {
            format!("shapes-{b}")
        };
        v.subs.push(e2::run(
            ctx,
            &sub,
            case_strategy(),
            (n / batches).max(1),
            &spec(),
        ));
        if v.subs
            .last()
            .map(|s| s.failure.is_some() || s.inconclusive.is_some())
            .unwrap_or(false)
        {
            break;
        }
    }
    v
}

pub fn replay(_sub: &str, case: Value) -> Result<(), String> {
    let c: TraitCase =
        serde_json::from_value(case).map_err(|e| format!("HARNESS: bad case: {e}"))?;
    match e2::run_single(&spec(), &c) {
        Ok(r) => r.map(|_| ()),
        Err(e) => Err(format!("HARNESS: {e}")),
    }
}
