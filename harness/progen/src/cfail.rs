//! Compile-time halves of C12 and C14: builder call chains that must (not) type-check.
//! The rustc verdict is the observation: every chain is its own bin target, `cargo check
//! --keep-going` gives one verdict per chain, and both directions are checked — legal chains
//! must compile, illegal ones must fail for the expected reason.

use serde::{Deserialize, Serialize};
use vcore::{CaseInfo, Ctx, SubReport};

use crate::driver::{GenCase, Project};

#[derive(Clone, Copy, Debug, PartialEq, Eq, Hash, Serialize, Deserialize)]
pub enum Entry {
    SomeCall,
    NextCall,
    EachCall,
    StubCall,
}

#[derive(Clone, Copy, Debug, PartialEq, Eq, Hash, Serialize, Deserialize)]
pub enum Val {
    /// u32
    CloneVal,
    /// a type without Clone
    NonClone,
    /// Option<non-Clone>
    OptNonClone,
    /// (non-Clone, &u32): owned leaf of a mixed tuple
    MixedTupleNonClone,
    /// (u32, &u32)
    MixedTupleClone,
}

#[derive(Clone, Copy, Debug, PartialEq, Eq, Hash, Serialize, Deserialize)]
pub enum Resp {
    Returns(Val),
    Answers,
}

#[derive(Clone, Copy, Debug, PartialEq, Eq, Hash, Serialize, Deserialize)]
pub enum Quant {
    None,
    Once,
    NTimes,
    AtLeast,
}

#[derive(Clone, Debug, PartialEq, Eq, Hash, Serialize, Deserialize)]
pub struct Chain {
    pub entry: Entry,
    /// segments joined by then()
    pub segs: Vec<(Resp, Quant)>,
}

#[derive(Clone, Debug, PartialEq, Eq)]
pub enum Expect {
    Compiles,
    /// (error code, one of these needles must occur in the diagnostics)
    Fails(&'static str, Vec<&'static str>),
}

impl Val {
    fn is_clone(self) -> bool {
        matches!(self, Val::CloneVal | Val::MixedTupleClone)
    }
    fn method(self) -> &'static str {
        match self {
            Val::CloneVal => "plain",
            Val::NonClone => "nc",
            Val::OptNonClone => "opt_nc",
            Val::MixedTupleNonClone => "mixed_nc",
            Val::MixedTupleClone => "mixed",
        }
    }
    fn value(self) -> &'static str {
        match self {
            Val::CloneVal => "5u32",
            Val::NonClone => "NC(1)",
            Val::OptNonClone => "Some(NC(2))",
            Val::MixedTupleNonClone => "(NC(3), 7u32)",
            Val::MixedTupleClone => "(4u32, 8u32)",
        }
    }
}

impl Chain {
    fn value_kind(&self) -> Val {
        // all segments of one chain use the method of the first returns() (or `plain`)
        self.segs
            .iter()
            .find_map(|(r, _)| match r {
                Resp::Returns(v) => Some(*v),
                _ => None,
            })
            .unwrap_or(Val::CloneVal)
    }

    /// Type-level model of the builder (from the documentation of `build::*`):
    /// a non-Clone value needs the single-use path: entry some_call/next_call, first segment,
    /// quantifier none or once(); at_least_times exists only for unordered patterns; then()
    /// needs an exact quantifier before it.
    pub fn expect(&self) -> Expect {
        let reasons = self.reasons();
        if reasons.is_empty() {
            Expect::Compiles
        } else {
            // rustc may report any (or several) of the violated bounds
            let codes: Vec<&str> = reasons.iter().map(|r| r.0).collect();
            let needles: Vec<&'static str> = reasons.iter().flat_map(|r| r.1.clone()).collect();
            Expect::Fails(Box::leak(codes.join("|").into_boxed_str()), needles)
        }
    }

    /// every bound the chain violates: (error code, needles)
    pub fn reasons(&self) -> Vec<(&'static str, Vec<&'static str>)> {
        let mut out = vec![];
        let ordered = self.entry == Entry::NextCall;
        let single_entry = matches!(self.entry, Entry::SomeCall | Entry::NextCall);
        for (i, (resp, quant)) in self.segs.iter().enumerate() {
            let last = i + 1 == self.segs.len();
            if let Resp::Returns(v) = resp {
                let single_use_position = single_entry && i == 0;
                if !v.is_clone()
                    && (!single_use_position || matches!(quant, Quant::NTimes | Quant::AtLeast))
                {
                    out.push(("E0277", vec!["IntoReturn<", ": Clone"]));
                }
            }
            if *quant == Quant::AtLeast && ordered {
                out.push(("E0271", vec!["InAnyOrder"]));
            }
            if !last && matches!(quant, Quant::AtLeast) {
                out.push(("E0271", vec!["Exact"]));
            }
            if !last && matches!(quant, Quant::None) {
                // then() does not exist on an unquantified builder
                out.push(("E0599", vec!["then"]));
            }
        }
        out
    }

    pub fn source(&self) -> String {
        let m = self.value_kind().method();
        let mut s = String::new();
        let resp = |r: &Resp| match r {
            Resp::Returns(v) => format!(".returns({})", v.value()),
            Resp::Answers => match self.value_kind() {
                Val::CloneVal => ".answers(&|_| 9u32)".to_string(),
                Val::NonClone => ".answers(&|_| NC(9))".to_string(),
                Val::OptNonClone => ".answers(&|_| None)".to_string(),
                Val::MixedTupleNonClone => ".answers(&|u| (NC(9), u.make_ref(1u32)))".to_string(),
                Val::MixedTupleClone => ".answers(&|u| (9u32, u.make_ref(1u32)))".to_string(),
            },
        };
        let quant = |q: &Quant| match q {
            Quant::None => "",
            Quant::Once => ".once()",
            Quant::NTimes => ".n_times(2)",
            Quant::AtLeast => ".at_least_times(1)",
        };
        let chain: String = self
            .segs
            .iter()
            .enumerate()
            .map(|(i, (r, q))| {
                format!(
                    "{}{}{}",
                    if i > 0 { ".then()" } else { "" },
                    resp(r),
                    quant(q)
                )
            })
            .collect();
        s.push_str("pub fn build() -> impl Clause {\n");
        match self.entry {
            Entry::SomeCall => s.push_str(&format!("    M::{m}.some_call(matching!()){chain}\n")),
            Entry::NextCall => s.push_str(&format!("    M::{m}.next_call(matching!()){chain}\n")),
            Entry::EachCall => s.push_str(&format!("    M::{m}.each_call(matching!()){chain}\n")),
            Entry::StubCall => s.push_str(&format!(
                "    M::{m}.stub(|each| {{ each.call(matching!()){chain}; }})\n"
            )),
        }
        s.push_str("}\n");
        s
    }
}

pub const PRELUDE: &str = r#"
#![allow(unused)]
pub use unimock::*;
#[derive(Debug)]
pub struct NC(pub u32);
#[unimock(api=M)]
pub trait Tr {
    fn plain(&self) -> u32;
    fn nc(&self) -> NC;
    fn opt_nc(&self) -> Option<NC>;
    fn mixed_nc(&self) -> (NC, &u32);
    fn mixed(&self) -> (u32, &u32);
}
"#;

/// Every chain of one or two segments over the grammar.
pub fn all_chains() -> Vec<Chain> {
    let entries = [
        Entry::SomeCall,
        Entry::NextCall,
        Entry::EachCall,
        Entry::StubCall,
    ];
    let vals = [
        Val::CloneVal,
        Val::NonClone,
        Val::OptNonClone,
        Val::MixedTupleNonClone,
        Val::MixedTupleClone,
    ];
    let quants = [Quant::None, Quant::Once, Quant::NTimes, Quant::AtLeast];
    let mut out = vec![];
    for e in entries {
        for v in vals {
            for r in [Resp::Returns(v), Resp::Answers] {
                for q in quants {
                    out.push(Chain {
                        entry: e,
                        segs: vec![(r, q)],
                    });
                    // two segments: the second one returns the same kind of value or answers
                    for r2 in [Resp::Returns(v), Resp::Answers] {
                        for q2 in [Quant::None, Quant::NTimes, Quant::AtLeast] {
                            // keep the value kind of the chain unambiguous
                            if matches!(r, Resp::Answers)
                                && matches!(r2, Resp::Answers)
                                && v != Val::CloneVal
                            {
                                continue;
                            }
                            out.push(Chain {
                                entry: e,
                                segs: vec![(r, q), (r2, q2)],
                            });
                        }
                    }
                }
            }
        }
    }
    out.sort_by_key(|c| format!("{c:?}"));
    out.dedup();
    out
}

/// `which`: "C12" = chains involving values (single-use vs repeat-use), "C14" = chains about
/// ordering / exactness only (at_least_times on next_call, then() after at_least_times).
pub fn run(ctx: &Ctx, which: &str) -> SubReport {
    let mut rep = SubReport::new("compile-fail");
    #[allow(unused_mut)]
    let mut chains: Vec<Chain> = all_chains()
        .into_iter()
        .filter(|c| {
            let about_values = c
                .segs
                .iter()
                .any(|(r, _)| matches!(r, Resp::Returns(v) if !v.is_clone()));
            match which {
                "C12" => {
                    about_values
                        || c.value_kind().is_clone()
                            && c.segs.iter().any(|(r, _)| matches!(r, Resp::Returns(_)))
                }
                _ => !about_values,
            }
        })
        .collect();
    // the whole grammar is enumerated in both tiers (a few seconds of cargo check)
    let _ = ctx;
    rep.exhaustive = true;
    chains.truncate(usize::MAX);
    let project = Project::new(&format!("{which}-cfail"), PRELUDE);
    let cases: Vec<GenCase> = chains
        .iter()
        .enumerate()
        .map(|(id, c)| GenCase {
            id,
            source: c.source(),
        })
        .collect();
    let verdicts = match project.check_each(&cases) {
        Ok(v) => v,
        Err(e) => {
            rep.inconclusive = Some(format!("HARNESS: {e}"));
            return rep;
        }
    };
    for (id, chain) in chains.iter().enumerate() {
        let verdict = &verdicts[&id];
        let expect = chain.expect();
        let src = chain.source();
        let line = src.lines().nth(1).unwrap_or("").trim().to_string();
        let res: Result<CaseInfo, String> = match (&expect, verdict) {
            (Expect::Compiles, Ok(())) => Ok(CaseInfo::new(
                chain.segs.len() >= 2 || chain.segs[0].1 != Quant::None,
            )
            .class("legal-chain-compiles")),
            (Expect::Compiles, Err(diag)) => Err(format!(
                "HARNESS: a chain the builder documents as legal does not compile: `{line}`: {}",
                diag.lines().take(6).collect::<Vec<_>>().join(" / ")
            )),
            (Expect::Fails(..), Ok(())) => Err(format!(
                "the builder accepts `{line}`, which must not type-check"
            )),
            (Expect::Fails(codes, needles), Err(diag)) => {
                let code_ok = codes.split('|').any(|c| diag.contains(&format!("[{c}]")));
                let needle_ok = needles.iter().any(|n| diag.contains(n));
                if code_ok && needle_ok {
                    Ok(CaseInfo::new(true).class("illegal-chain-rejected-for-the-expected-reason"))
                } else {
                    Err(format!(
                        "HARNESS: `{line}` is rejected, but not for the expected reason ({codes} mentioning one of {needles:?}): {}",
                        diag.lines().take(8).collect::<Vec<_>>().join(" / ")
                    ))
                }
            }
        };
        match res {
            Ok(info) => rep.record(chain, &info),
            Err(r) if r.starts_with("HARNESS") => {
                if rep.inconclusive.is_none() {
                    rep.inconclusive = Some(r);
                }
            }
            Err(r) => {
                rep.fail(chain, r);
            }
        }
    }
    rep
}

/// Replay of one saved chain: rustc's verdict on it against the type-level model.
pub fn replay(which: &str, case: serde_json::Value) -> Result<(), String> {
    let chain: Chain = serde_json::from_value(case).map_err(|e| format!("HARNESS: bad case: {e}"))?;
    let project = Project::new(&format!("{which}-cfail-replay"), PRELUDE);
    let cases = vec![GenCase { id: 0, source: chain.source() }];
    let verdicts = project.check_each(&cases).map_err(|e| format!("HARNESS: {e}"))?;
    let src = chain.source();
    let line = src.lines().nth(1).unwrap_or("").trim().to_string();
    match (chain.expect(), &verdicts[&0]) {
        (Expect::Compiles, Ok(())) => Ok(()),
        (Expect::Compiles, Err(d)) => Err(format!("HARNESS: a legal chain does not compile: `{line}`: {}", d.lines().take(4).collect::<Vec<_>>().join(" / "))),
        (Expect::Fails(..), Ok(())) => Err(format!("the builder accepts `{line}`, which must not type-check")),
        (Expect::Fails(..), Err(_)) => Ok(()),
    }
}
