//! Generic runner for program-generation properties: proptest strategy -> cases ->
//! generated crate -> observations -> comparison with the generator-side expectation,
//! with manual shrinking across the compile boundary.

use std::fmt::Debug;
use std::hash::Hash;

use proptest::strategy::{Strategy, ValueTree};
use proptest::test_runner::{Config, RngSeed, TestRunner};
use serde::Serialize;
use vcore::{CaseInfo, Ctx, SubReport};

use crate::driver::{GenCase, Project};

pub struct Spec<'a, T> {
    /// project directory name under harness/work
    pub project: &'a str,
    pub prelude: &'a str,
    /// case -> module source defining `pub fn run() -> String`
    pub source: &'a dyn Fn(&T) -> String,
    /// (case, observation line) -> verdict
    pub judge: &'a dyn Fn(&T, &str) -> Result<CaseInfo, String>,
    pub nbins: usize,
    pub max_shrink_steps: usize,
    /// extra `[dependencies]` lines of the generated crate
    pub extra_deps: &'a str,
}

fn runner_for(ctx: &Ctx, sub: &str) -> TestRunner {
    let mut config = Config::default();
    config.failure_persistence = None;
    config.rng_seed = RngSeed::Fixed(ctx.sub_seed(sub));
    TestRunner::new(config)
}

/// Evaluate a single case in its own one-case project (used for shrinking and replay).
pub fn run_single<T>(spec: &Spec<T>, case: &T) -> Result<Result<CaseInfo, String>, String> {
    let mut project = Project::new(&format!("{}-single", spec.project), spec.prelude);
    project.extra_deps = spec.extra_deps.to_string();
    let cases = vec![GenCase {
        id: 0,
        source: (spec.source)(case),
    }];
    let res = project.run_batch(&cases, 1)?;
    if let Some(msg) = res.rejected.get(&0) {
        return Ok(
            Ok(CaseInfo::new(false).class("rejected-by-rustc")).map(|i| {
                let _ = msg;
                i
            }),
        );
    }
    if let Some(note) = res.crashed.get(&0) {
        return Ok(Err(format!("the generated program died: {note}")));
    }
    match res.lines.get(&0) {
        Some(line) => Ok((spec.judge)(case, line)),
        None => Err("no output line for the single case".into()),
    }
}

pub fn run<T, S>(ctx: &Ctx, sub: &str, strat: S, n_cases: usize, spec: &Spec<T>) -> SubReport
where
    T: Debug + Clone + Hash + Serialize,
    S: Strategy<Value = T>,
{
    let mut rep = SubReport::new(sub);
    let mut runner = runner_for(ctx, sub);
    let mut trees = vec![];
    for _ in 0..n_cases {
        match strat.new_tree(&mut runner) {
            Ok(t) => trees.push(t),
            Err(e) => {
                rep.inconclusive = Some(format!("HARNESS: generator failed: {e}"));
                return rep;
            }
        }
    }
    let values: Vec<T> = trees.iter().map(|t| t.current()).collect();
    let cases: Vec<GenCase> = values
        .iter()
        .enumerate()
        .map(|(id, v)| GenCase {
            id,
            source: (spec.source)(v),
        })
        .collect();
    let mut project = Project::new(spec.project, spec.prelude);
    project.extra_deps = spec.extra_deps.to_string();
    let res = match project.run_batch(&cases, spec.nbins) {
        Ok(r) => r,
        Err(e) => {
            rep.inconclusive = Some(format!("HARNESS: build/run of generated crate failed: {e}"));
            return rep;
        }
    };
    rep.extra
        .insert("build_secs".into(), serde_json::json!(res.build_secs));
    rep.extra
        .insert("run_secs".into(), serde_json::json!(res.run_secs));
    rep.extra.insert(
        "rejected_by_rustc".into(),
        serde_json::json!(res.rejected.len()),
    );
    if let Some((id, msg)) = res.rejected.iter().next() {
        rep.extra.insert(
            "first_rejection".into(),
            serde_json::json!({"case": serde_json::to_value(&values[*id]).unwrap_or_default(), "error": msg.chars().take(1500).collect::<String>()}),
        );
    }
    let rej_log = vcore::verif_root()
        .join("logs")
        .join(format!("progen-rejections-{}-{sub}.log", ctx.prop));
    let _ = std::fs::remove_file(&rej_log);
    if !res.rejected.is_empty() {
        let mut log = String::new();
        for (id, msg) in &res.rejected {
            log.push_str(&format!(
                "=== case {id}: {}\n{}\n",
                serde_json::to_string(&values[*id]).unwrap_or_default(),
                msg
            ));
        }
        let dir = vcore::verif_root().join("logs");
        let _ = std::fs::create_dir_all(&dir);
        let _ = std::fs::write(
            dir.join(format!("progen-rejections-{}-{sub}.log", ctx.prop)),
            log,
        );
    }
    if res.rejected.len() * 20 > n_cases.max(1) {
        // keep judging the programs that did compile: a violation among them is still a violation
        rep.inconclusive = Some(format!(
            "HARNESS: {} of {} generated programs were rejected by rustc (domain drift); first: {}",
            res.rejected.len(),
            n_cases,
            res.rejected
                .values()
                .next()
                .map(|s| s.chars().take(600).collect::<String>())
                .unwrap_or_default()
        ));
    }
    let mut first_failure: Option<(usize, String)> = None;
    for (id, v) in values.iter().enumerate() {
        if res.rejected.contains_key(&id) {
            continue;
        }
        let verdict = if let Some(note) = res.crashed.get(&id) {
            Err(format!(
                "the generated program died while running this case: {note}"
            ))
        } else {
            match res.lines.get(&id) {
                Some(line) if line.contains("harness_panic") => {
                    Err(format!("unexpected panic in the generated program: {line}"))
                }
                Some(line) => (spec.judge)(v, line),
                None => Err("HARNESS: no output line".into()),
            }
        };
        match verdict {
            Ok(info) => rep.record(v, &info),
            Err(reason) if reason.starts_with("HARNESS") => {
                rep.inconclusive = Some(format!(
                    "{reason}; case={}",
                    serde_json::to_string(v).unwrap_or_default()
                ));
                return rep;
            }
            Err(reason) => {
                if first_failure.is_none() {
                    first_failure = Some((id, reason));
                }
            }
        }
    }
    if let Some((id, reason)) = first_failure {
        // shrink across the compile boundary
        let mut tree = trees.swap_remove(id);
        let mut best = (tree.current(), reason);
        let mut steps = 0;
        while steps < spec.max_shrink_steps {
            if !tree.simplify() {
                break;
            }
            loop {
                steps += 1;
                let cand = tree.current();
                match run_single(spec, &cand) {
                    Ok(Err(r)) if !r.starts_with("HARNESS") => {
                        best = (cand, r);
                        break;
                    }
                    _ => {
                        if steps >= spec.max_shrink_steps || !tree.complicate() {
                            break;
                        }
                    }
                }
            }
        }
        rep.extra
            .insert("shrink_steps".into(), serde_json::json!(steps));
        rep.fail(&best.0, best.1);
    }
    rep
}
