//! C19 — panic messages identify the call, its arguments and the pattern involved.

use proptest::prelude::*;
use serde::{Deserialize, Serialize};
use serde_json::Value;
use vcore::{CaseInfo, Ctx, Verdict};

use crate::c06::MatchCase;
use crate::e2::{self, Spec};
use crate::pat::*;

/// Extra parameters that take no part in the pattern (their pattern is `_`).
#[derive(Clone, Copy, Debug, PartialEq, Eq, Hash, Serialize, Deserialize)]
pub enum Extra {
    /// by-value type without Debug
    NoDebug,
    /// reference to a type without Debug
    RefNoDebug,
    RefU32,
    RefRefU32,
    MutU32,
    /// trait-level generic without Debug bound (instantiated with u16)
    GenericNoDebug,
    /// trait-level generic with Debug bound (instantiated with i16)
    GenericDebug,
    SliceOfNoDebug,
    /// `&mut Lt<'_>`: a mutable reference to a type with a lifetime parameter (cannot be part of the
    /// matcher's inputs; documented placeholder rendering)
    MutWithLifetime,
}

impl Extra {
    fn ty(self) -> &'static str {
        match self {
            Extra::NoDebug => "ND",
            Extra::RefNoDebug => "&ND",
            Extra::RefU32 => "&u32",
            Extra::RefRefU32 => "&&u32",
            Extra::MutU32 => "&mut u32",
            Extra::GenericNoDebug => "G",
            Extra::GenericDebug => "H",
            Extra::SliceOfNoDebug => "&[ND]",
            Extra::MutWithLifetime => "&mut Lt<'_>",
        }
    }
    fn arg(self, k: usize) -> (String, String, String) {
        match self {
            Extra::NoDebug => (String::new(), format!("ND({k})"), "?".into()),
            Extra::RefNoDebug => (String::new(), format!("&ND({k})"), "?".into()),
            Extra::RefU32 => (
                String::new(),
                format!("&{}u32", 700 + k),
                format!("{}", 700 + k),
            ),
            Extra::RefRefU32 => (
                String::new(),
                format!("&&{}u32", 800 + k),
                format!("{}", 800 + k),
            ),
            Extra::MutU32 => (
                format!("let mut x{k}: u32 = {};\n", 900 + k),
                format!("&mut x{k}"),
                format!("{}", 900 + k),
            ),
            Extra::GenericNoDebug => (String::new(), format!("{}u16", 60 + k), "?".into()),
            Extra::GenericDebug => (
                String::new(),
                format!("-{}i16", 70 + k),
                format!("-{}", 70 + k),
            ),
            Extra::SliceOfNoDebug => (String::new(), format!("&[ND({k}), ND(1)][..]"), "?".into()),
            Extra::MutWithLifetime => (format!("let q{k}: u32 = {}; let mut lt{k} = Lt(&q{k});\n", 40 + k), format!("&mut lt{k}"), "Impossible".into()),
        }
    }
}

#[derive(Clone, Debug, PartialEq, Eq, Hash, Serialize, Deserialize)]
pub struct MsgCase {
    pub pattern: MatchCase,
    pub extras: Vec<Extra>,
    /// index into the rejected tuples / accepted tuples of the pattern's domain
    pub pick: u8,
    /// the `matching!` invocations are laid out over several lines (the usual rustfmt layout for long patterns):
    /// the location named by the messages is the line where the invocation starts
    #[serde(default)]
    pub multiline: bool,
    /// the trait uses the flattened api (`#[unimock(api=[FooF, FooG])]`): the mock entry points are the structs
    /// FooF / FooG, the messages must still name the methods `Tr::f` / `Tr::g`
    #[serde(default)]
    pub flattened_api: bool,
    /// tuples, tuple structs and slices inside the pattern are written with a trailing comma (`(1, 2,)`): same
    /// pattern, and the messages still show the documented rendering without it
    #[serde(default)]
    pub trailing_commas: bool,
}

pub const PRELUDE_EXTRA: &str = r#"
pub struct ND(pub usize);
#[derive(Debug)]
pub struct Lt<'a>(pub &'a u32);
pub fn msg_of(r: std::thread::Result<()>) -> String {
    match r {
        Ok(()) => "NOPANIC".to_string(),
        Err(p) => p.downcast_ref::<String>().cloned().or_else(|| p.downcast_ref::<&str>().map(|s| s.to_string())).unwrap_or_default(),
    }
}
"#;

pub fn prelude() -> String {
    format!("{}{}", PRELUDE, PRELUDE_EXTRA)
}

impl MsgCase {
    fn generic_decl(&self) -> (&'static str, &'static str) {
        let g = self.extras.contains(&Extra::GenericNoDebug);
        let h = self.extras.contains(&Extra::GenericDebug);
        match (g, h) {
            (false, false) => ("", ""),
            (true, false) => ("<G: 'static>", "<u16>"),
            (false, true) => ("<H: 'static + std::fmt::Debug>", "<i16>"),
            (true, true) => ("<G: 'static, H: 'static + std::fmt::Debug>", "<u16, i16>"),
        }
    }
    fn rejected_and_accepted(&self) -> (Option<Vec<Val>>, Option<Vec<Val>>) {
        let dom = self.pattern.domain();
        let rej: Vec<&Vec<Val>> = dom.iter().filter(|t| !self.pattern.accepts(t)).collect();
        let acc: Vec<&Vec<Val>> = dom.iter().filter(|t| self.pattern.accepts(t)).collect();
        let pick = |v: &Vec<&Vec<Val>>| {
            if v.is_empty() {
                None
            } else {
                Some(v[self.pick as usize % v.len()].clone())
            }
        };
        (pick(&rej), pick(&acc))
    }
    /// the macro's pattern including the `_` for the extras
    fn macro_args(&self) -> String {
        let mut c = self.pattern.clone();
        // extras are appended as wildcard positions (typed as U8 for printing purposes only)
        for alt in c.alts.iter_mut() {
            for _ in &self.extras {
                alt.push(P::Wild);
            }
        }
        for _ in &self.extras {
            c.tys.push(Ty::U8);
        }
        crate::pat::TRAILING_COMMAS.with(|t| t.set(self.trailing_commas));
        let s = c.macro_args();
        crate::pat::TRAILING_COMMAS.with(|t| t.set(false));
        s
    }
    pub fn call_debug(&self, tuple: &[Val]) -> String {
        let mut parts: Vec<String> = self
            .pattern
            .tys
            .iter()
            .zip(tuple.iter())
            .map(|(t, v)| t.debug_string(v))
            .collect();
        for (k, e) in self.extras.iter().enumerate() {
            parts.push(e.arg(k).2);
        }
        format!("Tr::f({})", parts.join(", "))
    }
}

/// The documented short rendering of a pattern (last path segment only, struct fields elided,
/// eq!/ne! operands elided).
pub fn doc_pat(p: &P, ty: Ty) -> String {
    match p {
        P::EA => "A".into(),
        P::EB(s) => format!("B({})", doc_pat(s, Ty::U8)),
        P::EC(..) => "C {}".into(),
        P::S(..) => "S {}".into(),
        P::Eq(_) => "eq!(..)".into(),
        P::Ne(_) => "ne!(..)".into(),
        P::At(n, s) => match s.as_ref() {
            P::Or(_) => format!("{n} @ ({})", doc_pat(s, ty)),
            _ => format!("{n} @ {}", doc_pat(s, ty)),
        },
        P::Or(alts) => alts
            .iter()
            .map(|a| doc_pat(a, ty))
            .collect::<Vec<_>>()
            .join(" | "),
        P::Some(s) => format!("Some({})", doc_pat(s, Ty::U8)),
        P::Pair(a, b) => format!("({}, {})", doc_pat(a, Ty::U8), doc_pat(b, Ty::U8)),
        P::Slice(pre, rest, suf) => {
            let mut parts: Vec<String> = pre.iter().map(|p| doc_pat(p, Ty::U8)).collect();
            match rest {
                None => {}
                Some(None) => parts.push("..".into()),
                Some(Some(n)) => parts.push(format!("{n} @ ..")),
            }
            parts.extend(suf.iter().map(|p| doc_pat(p, Ty::U8)));
            format!("[{}]", parts.join(", "))
        }
        other => print_pat(other, ty),
    }
}

fn norm(s: &str) -> String {
    s.chars().filter(|c| !c.is_whitespace()).collect()
}

fn strip_ansi(s: &str) -> String {
    let mut out = String::new();
    let mut chars = s.chars().peekable();
    while let Some(c) = chars.next() {
        if c == '\u{1b}' {
            // CSI ... letter
            if chars.peek() == Some(&'[') {
                chars.next();
                for d in chars.by_ref() {
                    if d.is_ascii_alphabetic() {
                        break;
                    }
                }
            }
        } else {
            out.push(c);
        }
    }
    out
}

impl MsgCase {
    pub fn doc_text(&self) -> String {
        let alt = |a: &Vec<P>| {
            let mut parts: Vec<String> = a
                .iter()
                .zip(self.pattern.tys.iter())
                .map(|(p, t)| doc_pat(p, *t))
                .collect();
            for _ in &self.extras {
                parts.push("_".into());
            }
            format!("({})", parts.join(", "))
        };
        let mut s = self
            .pattern
            .alts
            .iter()
            .map(alt)
            .collect::<Vec<_>>()
            .join(" | ");
        if self.pattern.guard.is_some() {
            s.push_str(" if {guard}");
        }
        s
    }
    /// literal atoms that must survive any abbreviation of the pattern text
    fn atoms(&self) -> Vec<String> {
        fn go(p: &P, out: &mut Vec<String>) {
            match p {
                P::U8(x) => out.push(format!("{x}")),
                P::Str(s) => out.push(format!("{s:?}")),
                P::Char(c) => out.push(format!("{c:?}")),
                P::Bool(b) => out.push(format!("{b}")),
                P::At(_, s) | P::Some(s) | P::EB(s) => go(s, out),
                P::Or(v) => v.iter().for_each(|s| go(s, out)),
                P::Pair(a, b) => {
                    go(a, out);
                    go(b, out)
                }
                P::Slice(a, _, b) => a.iter().chain(b.iter()).for_each(|s| go(s, out)),
                _ => {}
            }
        }
        let mut out = vec![];
        for a in &self.pattern.alts {
            for p in a {
                go(p, &mut out);
            }
        }
        out
    }
}

pub fn source(c: &MsgCase) -> String {
    let (gdecl, gargs) = c.generic_decl();
    let n_pat = c.pattern.tys.len();
    let mut params: Vec<String> = c
        .pattern
        .tys
        .iter()
        .enumerate()
        .map(|(k, t)| format!("a{k}: {}", t.rust()))
        .collect();
    for (k, e) in c.extras.iter().enumerate() {
        params.push(format!("x{k}: {}", e.ty()));
    }
    let params_s: String = params.iter().map(|p| format!(", {p}")).collect();
    let mut s = String::new();
    let api = if c.flattened_api { "[FooF, FooG]" } else { "M" };
    s.push_str(&format!(
        "#[unimock(api={api})]\npub trait Tr{gdecl} {{\n    fn f(&self{params_s}) -> u8;\n    fn g(&self, z: u8) -> u8;\n}}\n\n"
    ));
    let wt = if gargs.is_empty() {
        String::new()
    } else {
        format!(
            ".with_types::{}()",
            gargs.replace('<', "<").replace('>', ">")
        )
    };
    let wt = wt.replace("::<", "::<");
    let pat = if c.multiline { format!("\n                {}\n            ", c.macro_args()) } else { c.macro_args() };
    let (rej, acc) = c.rejected_and_accepted();
    s.push_str("pub fn run() -> String {\n    let mut out: Vec<String> = vec![];\n");
    let call = |tuple: &Vec<Val>, s: &mut String| -> String {
        let mut args = vec![];
        for (k, (t, v)) in c.pattern.tys.iter().zip(tuple.iter()).enumerate() {
            let _ = k;
            args.push(t.arg_expr(v));
        }
        for (k, e) in c.extras.iter().enumerate() {
            let (prep, expr, _) = e.arg(k);
            if !prep.is_empty() {
                s.push_str(&format!("        {prep}"));
            }
            args.push(expr);
        }
        format!(
            "<Unimock as Tr{gargs}>::f(&u{})",
            args.iter().map(|a| format!(", {a}")).collect::<String>()
        )
    };
    let _ = n_pat;
    // every scenario: { build mock; call under catch_unwind; record message }
    let scenario = |tag: &str, setup: &str, tuple: &Vec<Val>, twice: bool, s: &mut String| {
        s.push_str("    {\n");
        s.push_str(&format!(
            "        let u = Unimock::new({setup}).no_verify_in_drop();\n"
        ));
        let mut body = String::new();
        let callexpr = call(tuple, &mut body);
        s.push_str(&body);
        if twice {
            s.push_str(&format!("        let _ = std::panic::catch_unwind(std::panic::AssertUnwindSafe(|| {{ {callexpr}; }}));\n"));
        }
        s.push_str(&format!(
            "        let m = msg_of(std::panic::catch_unwind(std::panic::AssertUnwindSafe(|| {{ {callexpr}; }})));\n        out.push(format!(\"{tag}\\u{{3}}{{}}\", m));\n    }}\n"
        ));
    };
    let (f, g) = if c.flattened_api { (format!("FooF{wt}"), format!("FooG{wt}")) } else { (format!("M::f{wt}"), format!("M::g{wt}")) };
    if let Some(t) = &rej {
        scenario(
            "nomatch",
            &format!("{f}.each_call(/*MARK_A*/ matching!({pat})).returns(1u8)"),
            t,
            false,
            &mut s,
        );
        // two clauses with the same pattern text: each pattern's rejecting positions are listed separately
        scenario(
            "nomatch-twin",
            &format!("({f}.each_call(matching!({pat})).returns(1u8),\n            {f}.each_call(matching!({pat})).returns(2u8))"),
            t,
            false,
            &mut s,
        );
        scenario(
            "ordered-inputs",
            &format!("{f}.next_call(/*MARK_B*/ matching!({pat})).returns(1u8)"),
            t,
            false,
            &mut s,
        );
    }
    if let Some(t) = &rej {
        // the failing call comes after an earlier, caught mock error about another call
        s.push_str("    {\n");
        s.push_str(&format!(
            "        let u = Unimock::new({f}.each_call(/*MARK_L*/ matching!({pat})).returns(1u8)).no_verify_in_drop();\n"
        ));
        s.push_str(&format!(
            "        let _ = std::panic::catch_unwind(std::panic::AssertUnwindSafe(|| {{ <Unimock as Tr{gargs}>::g(&u, 9u8); }}));\n"
        ));
        let mut body = String::new();
        let callexpr = call(t, &mut body);
        s.push_str(&body);
        s.push_str(&format!(
            "        let m = msg_of(std::panic::catch_unwind(std::panic::AssertUnwindSafe(|| {{ {callexpr}; }})));\n        out.push(format!(\"nomatch-after-error\\u{{3}}{{}}\", m));\n    }}\n"
        ));
    }
    if let Some(t) = &acc {
        scenario(
            "explicit",
            &format!("{f}.each_call(/*MARK_C*/ matching!({pat})).panics(\"boom-text\")"),
            t,
            false,
            &mut s,
        );
        scenario(
            "twice",
            &format!("{f}.some_call(/*MARK_D*/ matching!({pat})).returns(1u8)"),
            t,
            true,
            &mut s,
        );
        scenario(
            "nooutput",
            &format!("{f}.stub(|each| {{ each.call(/*MARK_E*/ matching!({pat})); }})"),
            t,
            false,
            &mut s,
        );
        // the same three errors raised by the SECOND pattern of the method (an earlier pattern rejects the call)
        let arity = c.pattern.tys.len() + c.extras.len();
        if arity >= 1 {
            let decoy = format!("({}) if false", vec!["_"; arity].join(", "));
            scenario(
                "explicit-2nd",
                &format!("({f}.each_call(matching!({decoy})).returns(9u8),\n            {f}.each_call(/*MARK_H*/ matching!({pat})).panics(\"boom-text\"))"),
                t,
                false,
                &mut s,
            );
            scenario(
                "twice-2nd",
                &format!("({f}.some_call(matching!({decoy})).returns(9u8),\n            {f}.some_call(/*MARK_I*/ matching!({pat})).returns(1u8))"),
                t,
                true,
                &mut s,
            );
            scenario(
                "nooutput-2nd",
                &format!("{f}.stub(|each| {{\n            each.call(matching!({decoy})).returns(9u8);\n            each.call(/*MARK_J*/ matching!({pat}));\n        }})"),
                t,
                false,
                &mut s,
            );
        }
        scenario(
            "wrongorder",
            &format!("({g}.next_call(/*MARK_F*/ matching!(7)).returns(1u8), {f}.next_call(matching!({pat})).returns(1u8))"),
            t,
            false,
            &mut s,
        );
        // the ordered pattern in line has been matched once of its two times
        {
            s.push_str("    {\n");
            s.push_str(&format!(
                "        let u = Unimock::new(({g}.next_call(/*MARK_K*/ matching!(7)).returns(1u8).n_times(2),\n            {f}.next_call(matching!({pat})).returns(1u8))).no_verify_in_drop();\n"
            ));
            s.push_str(&format!("        let _ = <Unimock as Tr{gargs}>::g(&u, 7u8);\n"));
            let mut body = String::new();
            let callexpr = call(t, &mut body);
            s.push_str(&body);
            s.push_str(&format!(
                "        let m = msg_of(std::panic::catch_unwind(std::panic::AssertUnwindSafe(|| {{ {callexpr}; }})));\n        out.push(format!(\"wrongorder-partial\\u{{3}}{{}}\", m));\n    }}\n"
            ));
        }
        scenario(
            "outofrange",
            &format!("{f}.next_call(matching!({pat})).returns(1u8)"),
            t,
            true,
            &mut s,
        );
        scenario(
            "cannot-unmock",
            &format!("{f}.each_call(matching!({pat})).applies_unmocked()"),
            t,
            false,
            &mut s,
        );
        scenario(
            "no-default-impl",
            &format!("{f}.each_call(matching!({pat})).applies_default_impl()"),
            t,
            false,
            &mut s,
        );
        // verification line naming the pattern
        s.push_str("    {\n");
        s.push_str(&format!("        let u = Unimock::new({f}.each_call(/*MARK_G*/ matching!({pat})).returns(1u8).n_times(2));\n"));
        let mut body = String::new();
        let callexpr = call(t, &mut body);
        s.push_str(&body);
        s.push_str(&format!("        let _ = {callexpr};\n        let m = msg_of(std::panic::catch_unwind(std::panic::AssertUnwindSafe(move || u.verify())));\n        out.push(format!(\"verify\\u{{3}}{{}}\", m));\n    }}\n"));
    }
    if let Some(t) = rej.as_ref().or(acc.as_ref()) {
        scenario("nomock", "()", t, false, &mut s);
    }
    s.push_str("    out.join(\"\\u{1}\")\n}\n");
    s
}

fn line_of(src: &str, marker: &str) -> Option<usize> {
    // the driver prepends two lines to every case file
    src.lines()
        .position(|l| l.contains(marker))
        .map(|i| i + 1 + 2)
}

pub fn judge(c: &MsgCase, line: &str) -> Result<CaseInfo, String> {
    // the case id is not known here: the location check uses the `cases/c<N>.rs:<line>` suffix shape
    let src = source(c);
    let (rej, acc) = c.rejected_and_accepted();
    let doc = c.doc_text();
    let mut classes: Vec<&'static str> = vec![];
    let mut mismatch_checked = false;
    for entry in line.split('\u{1}') {
        let Some((tag, raw)) = entry.split_once('\u{3}') else {
            continue;
        };
        let msg = strip_ansi(raw);
        let tuple = match tag {
            "nomatch" | "nomatch-twin" | "ordered-inputs" | "nomatch-after-error" => rej.as_ref(),
            "nomock" => rej.as_ref().or(acc.as_ref()),
            _ => acc.as_ref(),
        };
        let Some(tuple) = tuple else {
            return Err(format!("HARNESS: scenario {tag} without tuple"));
        };
        let call = c.call_debug(tuple);
        let ctx = format!("[{tag}] matching!({}) called as {call}", c.macro_args());
        if msg == "NOPANIC" {
            return Err(format!(
                "HARNESS: {ctx}: expected a mock-induced panic, none happened"
            ));
        }
        match tag {
            "cannot-unmock" | "no-default-impl" => {
                if !msg.contains("Tr::f") {
                    return Err(format!(
                        "{ctx}: the message does not name Trait::method: {msg:?}"
                    ));
                }
                classes.push("names-method-only");
                continue;
            }
            "verify" => {}
            _ => {
                if !msg.starts_with(&call) {
                    return Err(format!(
                        "{ctx}: the message does not render the call as {call:?}: {msg:?}"
                    ));
                }
            }
        }
        // pattern naming: source text + file:line
        let marker = match tag {
            "nomatch" => None, // the no-match error lists mismatches, not a single pattern location
            "ordered-inputs" => Some("MARK_B"),
            "explicit" => Some("MARK_C"),
            "twice" => Some("MARK_D"),
            "nooutput" => Some("MARK_E"),
            "wrongorder" => Some("MARK_F"),
            "wrongorder-partial" => Some("MARK_K"),
            "verify" => Some("MARK_G"),
            "explicit-2nd" => Some("MARK_H"),
            "twice-2nd" => Some("MARK_I"),
            "nooutput-2nd" => Some("MARK_J"),
            _ => None,
        };
        if let Some(marker) = marker {
            let ln = line_of(&src, marker)
                .ok_or_else(|| format!("HARNESS: marker {marker} not found"))?;
            let loc_ok = msg.match_indices(".rs:").any(|(i, _)| {
                let before = &msg[..i];
                let after: String = msg[i + 4..]
                    .chars()
                    .take_while(|ch| ch.is_ascii_digit())
                    .collect();
                before
                    .rsplit(|ch: char| ch.is_whitespace())
                    .next()
                    .map(|p| p.contains("cases/c"))
                    .unwrap_or(false)
                    && after == ln.to_string()
            });
            if !loc_ok {
                return Err(format!("{ctx}: the message does not give the pattern's location (case file, line {ln}): {msg:?}"));
            }
            let (path, want_doc) = if tag.starts_with("wrongorder") {
                ("Tr::g", "(7)".to_string())
            } else {
                ("Tr::f", doc.clone())
            };
            let named = format!("{path}{want_doc}");
            if !norm(&msg).contains(&norm(&named)) {
                // weaker: the literal atoms of the pattern appear in order after the method path
                let tail = msg
                    .rsplit_once(path)
                    .map(|(_, t)| t.to_string())
                    .unwrap_or_default();
                let mut pos = 0usize;
                let mut ok = !tag.starts_with("wrongorder");
                for a in c.atoms() {
                    match tail[pos..].find(&a) {
                        Some(i) => pos += i + a.len(),
                        None => {
                            ok = false;
                            break;
                        }
                    }
                }
                if !ok {
                    return Err(format!(
                        "{ctx}: the pattern is not named by its source text {named:?}: {msg:?}"
                    ));
                }
                classes.push("pattern-text-matched-by-atoms-only");
            }
            classes.push("pattern-named-with-location");
            if c.multiline {
                classes.push("location-of-a-multi-line-matching!-invocation");
            }
            if tag == "wrongorder-partial" {
                classes.push("wrong-order-while-a-pattern-is-partly-consumed");
            }
            if tag == "nomatch-after-error" {
                classes.push("failing-call-after-an-earlier-caught-error");
            }
            if tag.ends_with("-2nd") {
                classes.push("error-raised-by-second-pattern-of-the-method");
            }
        }
        // mismatch positions
        if matches!(tag, "nomatch" | "nomatch-twin" | "ordered-inputs" | "nomatch-after-error")
            && c.pattern.guard.is_none()
            && c.pattern.alts.len() == 1
        {
            let alt = &c.pattern.alts[0];
            let mut expected_positions = vec![];
            for (i, (p, v)) in alt.iter().zip(tuple.iter()).enumerate() {
                let mut env = Env::new();
                if !matches!(p, P::Wild) && !matches(p, v, &mut env) {
                    expected_positions.push(i);
                }
            }
            let mut reported = vec![];
            let mut rest = msg.as_str();
            while let Some(i) = rest.find("input #") {
                let digits: String = rest[i + 7..]
                    .chars()
                    .take_while(|ch| ch.is_ascii_digit())
                    .collect();
                if let Ok(k) = digits.parse::<usize>() {
                    reported.push((k, i));
                }
                rest = &rest[i + 7..];
            }
            let mut positions: Vec<usize> = reported.iter().map(|(k, _)| *k).collect();
            positions.sort();
            positions.dedup();
            if positions != expected_positions {
                return Err(format!(
                    "{ctx}: the mismatch report lists input positions {positions:?}, the sub-patterns that reject are at {expected_positions:?}: {msg:?}"
                ));
            }
            // each listed position shows the actual value
            let blocks: Vec<&str> = msg.split("input #").skip(1).collect();
            for b in blocks {
                let digits: String = b.chars().take_while(|ch| ch.is_ascii_digit()).collect();
                let k: usize = digits.parse().unwrap_or(usize::MAX);
                if let (Some(t), Some(v)) = (c.pattern.tys.get(k), tuple.get(k)) {
                    if *t == Ty::NoDbg {
                        // a value without Debug cannot be shown; its position is listed (checked above)
                        continue;
                    }
                    let actual = t.debug_string(v);
                    // a value compared through AsRef<str> is shown through that view
                    let coerced = match (t, v) {
                        (Ty::Newtype, Val::Str(s)) => Some(format!("{s:?}")),
                        _ => None,
                    };
                    if !b.contains(&actual) && !coerced.map(|c| b.contains(&c)).unwrap_or(false) {
                        return Err(format!("{ctx}: the report for input #{k} does not show the actual value {actual}: {msg:?}"));
                    }
                }
            }
            if tag == "nomatch-twin" {
                // both patterns reject at the same positions: every (pattern, position) pair has its own entry
                for p in 0..2 {
                    for i in &expected_positions {
                        let entry = format!("call pattern #{p}, input #{i}");
                        if !msg.contains(&entry) {
                            return Err(format!("{ctx}: two patterns with the same text reject the call, the report has no entry {entry:?}: {msg:?}"));
                        }
                    }
                }
                if !expected_positions.is_empty() {
                    classes.push("two-patterns-rejecting-at-the-same-positions");
                }
            }
            mismatch_checked = true;
            if !expected_positions.is_empty() {
                classes.push("mismatch-positions-checked");
            }
        }
        classes.push(match tag {
            "nomatch" | "nomatch-twin" | "nomatch-after-error" => "kind:no-matching-call-patterns",
            "ordered-inputs" => "kind:inputs-not-matched-in-call-order",
            "explicit" | "explicit-2nd" => "kind:explicit-panic",
            "twice" | "twice-2nd" => "kind:cannot-return-twice",
            "nooutput" | "nooutput-2nd" => "kind:no-output-available",
            "wrongorder" | "wrongorder-partial" => "kind:wrong-order",
            "outofrange" => "kind:out-of-range",
            "nomock" => "kind:no-mock-implementation",
            "verify" => "verification-line",
            _ => "kind:other",
        });
    }
    let has_ref_param = c
        .pattern
        .tys
        .iter()
        .any(|t| matches!(t, Ty::StrRef | Ty::SliceRef))
        || c.extras.iter().any(|e| {
            matches!(
                e,
                Extra::RefU32
                    | Extra::RefRefU32
                    | Extra::MutU32
                    | Extra::RefNoDebug
                    | Extra::SliceOfNoDebug
            )
        });
    let arity = c.pattern.tys.len() + c.extras.len();
    let mut info = CaseInfo::new(arity >= 2 && has_ref_param && mismatch_checked);
    classes.sort();
    classes.dedup();
    info.classes = classes;
    if c.extras.iter().any(|e| {
        matches!(
            e,
            Extra::NoDebug | Extra::RefNoDebug | Extra::GenericNoDebug | Extra::SliceOfNoDebug
        )
    }) {
        info.classes.push("non-Debug-argument(?)");
    }
    if c.extras.contains(&Extra::MutWithLifetime) {
        info.classes.push("&mut-T<'_>-argument(Impossible)");
    }
    if c.trailing_commas && crate::pat::print_pat_has_list(&c.pattern) {
        info.classes.push("sub-pattern-list-written-with-a-trailing-comma");
    }
    if c.flattened_api {
        info.classes.push("flattened-api(entry-points-named-differently-from-the-methods)");
    }
    Ok(info)
}

pub fn case_strategy() -> impl Strategy<Value = MsgCase> {
    let extra = prop_oneof![
        Just(Extra::NoDebug),
        Just(Extra::RefNoDebug),
        Just(Extra::RefU32),
        Just(Extra::RefRefU32),
        Just(Extra::MutU32),
        Just(Extra::GenericNoDebug),
        Just(Extra::GenericDebug),
        Just(Extra::SliceOfNoDebug),
        Just(Extra::MutWithLifetime),
    ];
    (
        crate::c06::case_strategy(),
        proptest::collection::vec(extra, 0..=2),
        any::<u8>(),
        any::<bool>(),
        proptest::bool::weighted(0.4),
        proptest::bool::weighted(0.3),
        proptest::bool::weighted(0.35),
    )
        .prop_filter("needs at least one pattern argument", |(p, _, _, _, _, _, _)| {
            !p.tys.is_empty()
        })
        .prop_map(|(mut pattern, mut extras, pick, simple, multiline, flattened_api, trailing_commas)| {
            pattern.parenthesized = false;
            if simple {
                // the mismatch-position part of the property: guard-free, single alternative
                pattern.alts.truncate(1);
                pattern.guard = None;
            }
            extras.dedup();
            // one generic of each kind at most
            let mut seen = std::collections::BTreeSet::new();
            extras.retain(|e| {
                !matches!(e, Extra::GenericNoDebug | Extra::GenericDebug)
                    || seen.insert(format!("{e:?}"))
            });
            MsgCase {
                pattern,
                extras,
                pick,
                multiline,
                flattened_api,
                trailing_commas,
            }
        })
}

pub const RULE: &str = "programs = C06's pattern grammar (1-4 pattern-typed arguments) extended by 0-2 extra parameters {type without Debug, reference to it, &u32, &&u32, &mut u32, generic without / with Debug bound, slice of non-Debug values}; for each pattern one rejected and one accepted argument tuple of the finite domain are chosen and every mock-induced error kind is triggered on a fresh mock: no matching call patterns (also with two clauses of the same pattern text: one entry per pattern and position), inputs not matched in call order, explicit panic, value returned twice, no output available, wrong order, out of range, no mock implementation, cannot unmock, no default impl, plus a failed verification naming the pattern; the matching! invocations are written on one line or laid out over several lines (the named location is the line where the invocation starts); the trait uses the module api or the flattened api (entry points named differently from the methods, which the messages must still name); tuples, tuple structs and slices inside a pattern are written with or without a trailing comma (the rendering in the messages is the same). Non-trivial = arity >= 2 with a reference parameter and a checked mismatch report; distinct = distinct case";

fn spec<'a>(prelude: &'a str) -> Spec<'a, MsgCase> {
    Spec {
        project: "C19",
        prelude,
        source: &source,
        judge: &judge,
        nbins: 16,
        max_shrink_steps: 30,
        extra_deps: "",
    }
}

pub fn run(ctx: &Ctx) -> Verdict {
    let mut v = Verdict::new("exploration", RULE);
    v.explanation = "Message grammar check against generator-known facts: the message starts with Trait::method(args) built from the Debug strings of the arguments the generator wrote ('?' for non-Debug types), in declaration order (Trait::method only for the two missing-implementation kinds); where a pattern is involved the message contains its location (case file and the line of the matching! invocation the generator printed) and its source text in the documented short rendering (falling back to the pattern's literal atoms in order if the rendering differs); for guard-free single-alternative patterns the set of `input #i` positions equals the positions whose sub-pattern the C06 interpreter rejects, each followed by the actual value.".into();
    v.assumptions = vec![
        "ANSI colour codes of the pretty-print feature are stripped before parsing".into(),
        "only the parts the property names are compared, never the full wording".into(),
    ];
    let prelude = prelude();
    v.subs
        .push(crate::replay_corpus(ctx, &|sub, case| replay(sub, case)));
    let n = ctx.tier.pick(960, 16_000) as usize;
    let batches = n.div_ceil(1200);
    for b in 0..batches {
        let sub = if batches == 1 {
            "messages".to_string()
        } else {
            format!("messages-{b}")
        };
        v.subs.push(e2::run(
            ctx,
            &sub,
            case_strategy(),
            (n / batches).max(1),
            &spec(&prelude),
        ));
        if v.subs
            .last()
            .map(|s| s.failure.is_some() || s.inconclusive.is_some())
            .unwrap_or(false)
        {
            break;
        }
    }
    // arbitrary Unicode text as arguments: run-time sub-check hosted by the rt engine
    v.subs.push(vcore::sub_report_from("rt", &["--sub-json", "C19", ctx.tier.name()], "text-arguments"));
    v
}

pub fn replay(sub: &str, case: Value) -> Result<(), String> {
    if sub == "text-arguments" {
        // hosted by the run-time engine (no compilation needed)
        let exe = std::env::current_exe().map_err(|e| format!("HARNESS: {e}"))?.with_file_name("rt");
        let out = std::process::Command::new(&exe)
            .args(["--replay-case", "C19", "text-arguments", &case.to_string()])
            .output()
            .map_err(|e| format!("HARNESS: cannot run {}: {e}", exe.display()))?;
        let text = String::from_utf8_lossy(&out.stdout).trim().to_string();
        return match out.status.code() {
            Some(0) => Ok(()),
            Some(1) => Err(text),
            _ => Err(format!("HARNESS: rt --replay-case: {text}")),
        };
    }
    let c: MsgCase = serde_json::from_value(case).map_err(|e| format!("HARNESS: bad case: {e}"))?;
    let prelude = prelude();
    match e2::run_single(&spec(&prelude), &c) {
        Ok(r) => r.map(|_| ()),
        Err(e) => Err(format!("HARNESS: {e}")),
    }
}
