//! C17 — composite returns reproduce the configured value shape-for-shape.

use proptest::prelude::*;
use serde::{Deserialize, Serialize};
use serde_json::Value;
use vcore::{CaseInfo, Ctx, Verdict};

use crate::e2::{self, Spec};

#[derive(Clone, Debug, PartialEq, Eq, Hash, Serialize, Deserialize)]
pub enum RT {
    U32,
    OwnedString,
    /// owned, not Clone
    NC,
    RefU32,
    RefString,
    RefStr,
    RefSlice,
    StaticStr,
    Opt(Box<RT>),
    Res(Box<RT>, Box<RT>),
    Vec(Box<RT>),
    Poll(Box<RT>),
    Tup(Vec<RT>),
}

#[derive(Clone, Debug, PartialEq, Eq, Hash, Serialize, Deserialize)]
pub enum RV {
    Leaf(u32),
    None,
    Some(Box<RV>),
    Ok(Box<RV>),
    Err(Box<RV>),
    Vec(Vec<RV>),
    Ready(Box<RV>),
    Pending,
    Tup(Vec<RV>),
}

impl RT {
    pub fn ret_ty(&self) -> String {
        match self {
            RT::U32 => "u32".into(),
            RT::OwnedString => "String".into(),
            RT::NC => "NC".into(),
            RT::RefU32 => "&u32".into(),
            RT::RefString => "&String".into(),
            RT::RefStr => "&str".into(),
            RT::RefSlice => "&[u8]".into(),
            RT::StaticStr => "&'static str".into(),
            RT::Opt(t) => format!("Option<{}>", t.ret_ty()),
            RT::Res(t, e) => format!("Result<{}, {}>", t.ret_ty(), e.ret_ty()),
            RT::Vec(t) => format!("Vec<{}>", t.ret_ty()),
            RT::Poll(t) => format!("std::task::Poll<{}>", t.ret_ty()),
            RT::Tup(ts) => format!(
                "({},)",
                ts.iter().map(|t| t.ret_ty()).collect::<Vec<_>>().join(", ")
            ),
        }
    }
    /// type of the value handed to returns()
    pub fn owned_ty(&self) -> String {
        match self {
            RT::U32 | RT::RefU32 => "u32".into(),
            RT::OwnedString | RT::RefString | RT::RefStr => "String".into(),
            RT::NC => "NC".into(),
            RT::RefSlice => "Vec<u8>".into(),
            RT::StaticStr => "&'static str".into(),
            RT::Opt(t) => format!("Option<{}>", t.owned_ty()),
            RT::Res(t, e) => format!("Result<{}, {}>", t.owned_ty(), e.owned_ty()),
            RT::Vec(t) => format!("Vec<{}>", t.owned_ty()),
            RT::Poll(t) => format!("std::task::Poll<{}>", t.owned_ty()),
            RT::Tup(ts) => format!(
                "({},)",
                ts.iter()
                    .map(|t| t.owned_ty())
                    .collect::<Vec<_>>()
                    .join(", ")
            ),
        }
    }
    pub fn is_clone(&self) -> bool {
        match self {
            RT::NC => false,
            RT::Opt(t) | RT::Vec(t) | RT::Poll(t) => t.is_clone(),
            RT::Res(t, e) => t.is_clone() && e.is_clone(),
            RT::Tup(ts) => ts.iter().all(|t| t.is_clone()),
            _ => true,
        }
    }
    pub fn has_borrow(&self) -> bool {
        match self {
            RT::RefU32 | RT::RefString | RT::RefStr | RT::RefSlice => true,
            RT::Opt(t) | RT::Vec(t) | RT::Poll(t) => t.has_borrow(),
            RT::Res(t, e) => t.has_borrow() || e.has_borrow(),
            RT::Tup(ts) => ts.iter().any(|t| t.has_borrow()),
            _ => false,
        }
    }
    pub fn has_owned_leaf(&self) -> bool {
        match self {
            RT::U32 | RT::OwnedString | RT::NC | RT::StaticStr => true,
            RT::Opt(t) | RT::Vec(t) | RT::Poll(t) => t.has_owned_leaf(),
            RT::Res(t, e) => t.has_owned_leaf() || e.has_owned_leaf(),
            RT::Tup(ts) => ts.iter().any(|t| t.has_owned_leaf()),
            _ => false,
        }
    }
    pub fn depth(&self) -> usize {
        match self {
            RT::Opt(t) | RT::Vec(t) | RT::Poll(t) => 1 + t.depth(),
            RT::Res(t, e) => 1 + t.depth().max(e.depth()),
            RT::Tup(ts) => 1 + ts.iter().map(|t| t.depth()).max().unwrap_or(0),
            _ => 0,
        }
    }

    /// (expression of the configured owned value, Debug rendering of that value)
    pub fn render(&self, v: &RV) -> (String, String) {
        match (self, v) {
            (RT::U32 | RT::RefU32, RV::Leaf(x)) => (format!("{x}u32"), format!("{x}")),
            (RT::OwnedString | RT::RefString | RT::RefStr, RV::Leaf(x)) => {
                (format!("String::from(\"s{x}\")"), format!("\"s{x}\""))
            }
            (RT::StaticStr, RV::Leaf(x)) => (format!("\"lit{x}\""), format!("\"lit{x}\"")),
            (RT::NC, RV::Leaf(x)) => (format!("NC({x})"), format!("NC({x})")),
            (RT::RefSlice, RV::Leaf(x)) => (
                format!("vec![{}u8, {}u8]", x % 200, (x + 1) % 200),
                format!("[{}, {}]", x % 200, (x + 1) % 200),
            ),
            (RT::Opt(_), RV::None) => ("None".into(), "None".into()),
            (RT::Opt(t), RV::Some(v)) => {
                let (e, d) = t.render(v);
                (format!("Some({e})"), format!("Some({d})"))
            }
            (RT::Res(t, _), RV::Ok(v)) => {
                let (e, d) = t.render(v);
                (format!("Ok({e})"), format!("Ok({d})"))
            }
            (RT::Res(_, t), RV::Err(v)) => {
                let (e, d) = t.render(v);
                (format!("Err({e})"), format!("Err({d})"))
            }
            (RT::Vec(t), RV::Vec(vs)) => {
                let parts: Vec<(String, String)> = vs.iter().map(|v| t.render(v)).collect();
                (
                    format!(
                        "vec![{}]",
                        parts
                            .iter()
                            .map(|p| p.0.clone())
                            .collect::<Vec<_>>()
                            .join(", ")
                    ),
                    format!(
                        "[{}]",
                        parts
                            .iter()
                            .map(|p| p.1.clone())
                            .collect::<Vec<_>>()
                            .join(", ")
                    ),
                )
            }
            (RT::Poll(_), RV::Pending) => ("std::task::Poll::Pending".into(), "Pending".into()),
            (RT::Poll(t), RV::Ready(v)) => {
                let (e, d) = t.render(v);
                (
                    format!("std::task::Poll::Ready({e})"),
                    format!("Ready({d})"),
                )
            }
            (RT::Tup(ts), RV::Tup(vs)) => {
                let parts: Vec<(String, String)> =
                    ts.iter().zip(vs.iter()).map(|(t, v)| t.render(v)).collect();
                (
                    format!(
                        "({},)",
                        parts
                            .iter()
                            .map(|p| p.0.clone())
                            .collect::<Vec<_>>()
                            .join(", ")
                    ),
                    if parts.len() == 1 {
                        format!("({},)", parts[0].1)
                    } else {
                        format!(
                            "({})",
                            parts
                                .iter()
                                .map(|p| p.1.clone())
                                .collect::<Vec<_>>()
                                .join(", ")
                        )
                    },
                )
            }
            (t, v) => panic!("HARNESS: value {v:?} does not inhabit {t:?}"),
        }
    }
}

/// Does the configured value contain an instance of an owned leaf?
pub fn value_has_owned(t: &RT, v: &RV) -> bool {
    match (t, v) {
        (RT::U32 | RT::OwnedString | RT::NC | RT::StaticStr, RV::Leaf(_)) => true,
        (RT::Opt(t), RV::Some(v))
        | (RT::Poll(t), RV::Ready(v))
        | (RT::Res(t, _), RV::Ok(v))
        | (RT::Res(_, t), RV::Err(v)) => value_has_owned(t, v),
        (RT::Vec(t), RV::Vec(vs)) => vs.iter().any(|v| value_has_owned(t, v)),
        (RT::Tup(ts), RV::Tup(vs)) => ts.iter().zip(vs.iter()).any(|(t, v)| value_has_owned(t, v)),
        _ => false,
    }
}

#[derive(Clone, Debug, PartialEq, Eq, Hash, Serialize, Deserialize)]
pub struct RetCase {
    pub ty: RT,
    pub value: RV,
    /// `&mut self` receiver instead of `&self`
    pub mut_recv: bool,
    /// the trait registers a real implementation (unmock_with) and the second-request scenario runs on a
    /// partial mock: a MATCHED call whose value is used up must still be refused, not passed on
    #[serde(default)]
    pub partial_real: bool,
}

pub const PRELUDE: &str = r#"
#![allow(unused)]
pub use unimock::*;
#[derive(Debug, PartialEq, Eq)]
pub struct NC(pub u32);
"#;

pub fn source(c: &RetCase) -> String {
    let (expr, _) = c.ty.render(&c.value);
    let recv = if c.mut_recv { "&mut self" } else { "&self" };
    let call = if c.mut_recv {
        "<Unimock as Tr>::m(&mut u)"
    } else {
        "<Unimock as Tr>::m(&u)"
    };
    let mut s = String::new();
    if c.partial_real {
        let self_ty = if c.mut_recv { "&mut Unimock" } else { "&Unimock" };
        s.push_str(&format!(
            "#[unimock(api=M, unmock_with=[real_m])]\npub trait Tr {{ fn m({recv}) -> {}; }}\nfn real_m(_u: {self_ty}) -> {} {{ panic!(\"REAL-IMPLEMENTATION-REACHED\") }}\n\n",
            c.ty.ret_ty(),
            c.ty.ret_ty()
        ));
    } else {
        s.push_str(&format!(
            "#[unimock(api=M)]\npub trait Tr {{ fn m({recv}) -> {}; }}\n\n",
            c.ty.ret_ty()
        ));
    }
    s.push_str(&format!(
        "fn conf() -> {} {{ {expr} }}\n\n",
        c.ty.owned_ty()
    ));
    s.push_str("pub fn run() -> String {\n");
    s.push_str("    let configured = format!(\"{:?}\", conf());\n");
    // single-use path
    s.push_str("    let single = {\n        let mut u = Unimock::new(M::m.next_call(matching!()).returns(conf()));\n");
    s.push_str(&format!(
        "        let r = {call};\n        format!(\"{{:?}}\", r)\n    }};\n"
    ));
    if c.ty.is_clone() {
        if c.mut_recv {
            // exclusive receiver: results cannot be held across calls
            s.push_str("    let multi = {\n        let mut u = Unimock::new(M::m.each_call(matching!()).returns(conf())).no_verify_in_drop();\n");
            s.push_str(&format!("        let a = format!(\"{{:?}}\", {call});\n        let b = format!(\"{{:?}}\", {call});\n        let c = format!(\"{{:?}}\", {call});\n"));
            s.push_str("        format!(\"{}\\u{2}{}\\u{2}{}\", a, b, c)\n    };\n");
        } else {
            s.push_str("    let multi = {\n        let u = Unimock::new(M::m.each_call(matching!()).returns(conf())).no_verify_in_drop();\n");
            s.push_str(&format!(
                "        let a = {call};\n        let b = {call};\n        let c = {call};\n"
            ));
            // read the first result only after the later calls
            s.push_str("        let (sc, sb, sa) = (format!(\"{:?}\", c), format!(\"{:?}\", b), format!(\"{:?}\", a));\n");
            s.push_str("        format!(\"{}\\u{2}{}\\u{2}{}\", sa, sb, sc)\n    };\n");
        }
        // some_call(..).returns(v).n_times(2): exact repetition through DefineResponse
        s.push_str("    let twice = {\n        let mut u = Unimock::new(M::m.some_call(matching!()).returns(conf()).n_times(2));\n");
        s.push_str(&format!("        let a = format!(\"{{:?}}\", {call});\n        let b = format!(\"{{:?}}\", {call});\n        format!(\"{{}}\\u{{2}}{{}}\", a, b)\n    }};\n"));
    } else {
        s.push_str("    let multi = String::new();\n    let twice = String::new();\n");
    }
    // second request on the single-use path (unordered): value again, or a panic
    let ctor = if c.partial_real { "new_partial" } else { "new" };
    s.push_str(&format!("    let second = {{\n        let mut u = Unimock::{ctor}(M::m.some_call(matching!()).returns(conf())).no_verify_in_drop();\n"));
    let on_panic = "unwrap_or_else(|p| if p.downcast_ref::<&str>().map(|m| m.contains(\"REAL-IMPLEMENTATION\")).unwrap_or(false) || p.downcast_ref::<String>().map(|m| m.contains(\"REAL-IMPLEMENTATION\")).unwrap_or(false) { \"REAL\".to_string() } else { \"PANIC\".to_string() })";
    s.push_str(&format!("        let a = std::panic::catch_unwind(std::panic::AssertUnwindSafe(|| format!(\"{{:?}}\", {call}))).{on_panic};\n"));
    s.push_str(&format!("        let b = std::panic::catch_unwind(std::panic::AssertUnwindSafe(|| format!(\"{{:?}}\", {call}))).{on_panic};\n"));
    s.push_str("        format!(\"{}\\u{2}{}\", a, b)\n    };\n");
    s.push_str("    format!(\"{}\\u{1}{}\\u{1}{}\\u{1}{}\\u{1}{}\", configured, single, multi, twice, second)\n}\n");
    s
}

pub fn judge(c: &RetCase, line: &str) -> Result<CaseInfo, String> {
    let parts: Vec<&str> = line.split('\u{1}').collect();
    if parts.len() != 5 {
        return Err(format!("HARNESS: malformed output {line:?}"));
    }
    let (_, expected) = c.ty.render(&c.value);
    if parts[0] != expected {
        return Err(format!("HARNESS: generator-side Debug {expected:?} differs from the program's rendering of the configured value {:?}", parts[0]));
    }
    let ty = c.ty.ret_ty();
    if parts[1] != expected {
        return Err(format!(
            "fn m() -> {ty}: returns({expected}) on the single-use path was observed as {}",
            parts[1]
        ));
    }
    if c.ty.is_clone() {
        for (k, got) in parts[2].split('\u{2}').enumerate() {
            if got != expected {
                return Err(format!(
                    "fn m() -> {ty}: each_call(..).returns({expected}): call #{} observed {got}",
                    k + 1
                ));
            }
        }
        for (k, got) in parts[3].split('\u{2}').enumerate() {
            if got != expected {
                return Err(format!("fn m() -> {ty}: some_call(..).returns({expected}).n_times(2): call #{} observed {got}", k + 1));
            }
        }
    }
    // owned leaves are single-use on the single-use path; purely borrowed values can be returned again
    let second: Vec<&str> = parts[4].split('\u{2}').collect();
    // (a bare `&'static` reference is itself a repeatable borrowed return)
    let owned_present =
        c.ty != RT::StaticStr && (!c.ty.has_borrow() || value_has_owned(&c.ty, &c.value));
    if second.first() != Some(&expected.as_str()) {
        return Err(format!(
            "fn m() -> {ty}: some_call(..).returns({expected}): first call observed {:?}",
            second.first()
        ));
    }
    match (owned_present, second.get(1)) {
        (true, Some(&"REAL")) => {
            return Err(format!(
                "fn m() -> {ty}: some_call(..).returns({expected}) on a partial mock: the second request for the used-up value was passed on to the real implementation instead of being refused"
            ))
        }
        (true, Some(&"PANIC")) => {}
        (true, other) => {
            return Err(format!(
                "fn m() -> {ty}: some_call(..).returns({expected}) contains a single-use owned leaf, but the second request produced {other:?} instead of panicking"
            ))
        }
        (false, Some(got)) if *got == expected => {}
        (false, other) => {
            return Err(format!(
                "fn m() -> {ty}: some_call(..).returns({expected}) has only borrowed leaves, but the second request produced {other:?}"
            ))
        }
    }
    let mixed_tuple = matches!(&c.ty, RT::Tup(_)) && c.ty.has_borrow() && c.ty.has_owned_leaf();
    let nt = c.ty.depth() >= 2 || mixed_tuple;
    Ok(CaseInfo::new(nt)
        .class_if(mixed_tuple, "tuple-mixing-owned-and-borrowed")
        .class_if(c.ty.depth() >= 3, "depth-3")
        .class_if(!c.ty.is_clone(), "non-Clone-leaf(single-use only)")
        .class_if(!c.ty.has_borrow(), "all-owned")
        .class_if(c.partial_real, "second-request-on-a-partial-mock-with-real-implementation")
        .class_if(
            owned_present && c.ty.has_borrow(),
            "owned-leaf-instance-in-mixed-value",
        )
        .class(match &c.ty {
            RT::Opt(_) => "outer:Option",
            RT::Res(..) => "outer:Result",
            RT::Vec(_) => "outer:Vec",
            RT::Poll(_) => "outer:Poll",
            RT::Tup(_) => "outer:tuple",
            _ => "outer:leaf",
        }))
}

fn borrowed_leaf() -> BoxedStrategy<RT> {
    prop_oneof![
        Just(RT::RefU32),
        Just(RT::RefString),
        Just(RT::RefStr),
        Just(RT::RefSlice)
    ]
    .boxed()
}

fn owned_leaf() -> BoxedStrategy<RT> {
    prop_oneof![3 => Just(RT::U32), 3 => Just(RT::OwnedString), 1 => Just(RT::NC), 1 => Just(RT::StaticStr)].boxed()
}

fn sized_borrowed_leaf() -> BoxedStrategy<RT> {
    prop_oneof![Just(RT::RefU32), Just(RT::RefString)].boxed()
}

/// `Option<L>` / `Result<L, E>` with L borrowed: the innermost mixed containers
fn shallow_core() -> BoxedStrategy<RT> {
    prop_oneof![
        borrowed_leaf().prop_map(|l| RT::Opt(Box::new(l))),
        (
            borrowed_leaf(),
            prop_oneof![Just(RT::U32), Just(RT::OwnedString), Just(RT::NC)]
        )
            .prop_map(|(l, e)| RT::Res(Box::new(l), Box::new(e))),
    ]
    .boxed()
}

/// The families the macro + type system accept (calibrated on the unchanged tree; rustc
/// rejections are counted and reported, not failed).
pub fn type_strategy() -> BoxedStrategy<RT> {
    // wrappers around a shallow core: Option<..>, Poll<..> chains up to depth 3
    let wrap1 = (shallow_core(), any::<bool>()).prop_map(|(c, o)| {
        if o {
            RT::Opt(Box::new(c))
        } else {
            RT::Poll(Box::new(c))
        }
    });
    let wrap2 = (shallow_core(), 0..3u8).prop_map(|(c, k)| match k {
        0 => RT::Opt(Box::new(RT::Opt(Box::new(c)))),
        1 => RT::Poll(Box::new(RT::Opt(Box::new(c)))),
        _ => RT::Opt(Box::new(RT::Poll(Box::new(c)))),
    });
    let vec_ref = sized_borrowed_leaf().prop_map(|l| RT::Vec(Box::new(l)));
    let vec_opt = sized_borrowed_leaf().prop_map(|l| RT::Vec(Box::new(RT::Opt(Box::new(l)))));
    // (&'static str next to a self-borrowed element is rejected by rustc: not generated)
    let tuple_owned =
        prop_oneof![3 => Just(RT::U32), 3 => Just(RT::OwnedString), 1 => Just(RT::NC)];
    let tuple_elem = prop_oneof![3 => tuple_owned, 3 => borrowed_leaf(), 2 => shallow_core()];
    let tuple = proptest::collection::vec(tuple_elem, 1..=4)
        .prop_filter("mixed tuples need a borrowed part", |v| {
            v.iter().any(|t| t.has_borrow())
        })
        .prop_map(RT::Tup);
    // all-owned composites of any nesting
    let owned = owned_leaf().prop_recursive(3, 12, 4, |inner| {
        prop_oneof![
            inner.clone().prop_map(|t| RT::Opt(Box::new(t))),
            (inner.clone(), inner.clone()).prop_map(|(t, e)| RT::Res(Box::new(t), Box::new(e))),
            inner.clone().prop_map(|t| RT::Vec(Box::new(t))),
            inner.clone().prop_map(|t| RT::Poll(Box::new(t))),
            proptest::collection::vec(inner, 1..=3).prop_map(RT::Tup),
        ]
    });
    // Result whose two sides are both containers with a borrowed part, and Vec of such containers
    let deep_res = (shallow_core(), shallow_core()).prop_map(|(t, e)| RT::Res(Box::new(t), Box::new(e)));
    let vec_core = shallow_core().prop_map(|c| RT::Vec(Box::new(c)));
    prop_oneof![
        2 => borrowed_leaf(),
        3 => shallow_core(),
        2 => wrap1,
        2 => wrap2,
        1 => vec_ref,
        1 => vec_opt,
        2 => deep_res,
        1 => vec_core,
        4 => tuple,
        3 => owned,
    ]
    .boxed()
}

/// A value of the type, driven by a stream of selector bytes (every variant, lengths 0..4).
pub fn value_for(t: &RT, sel: &mut impl Iterator<Item = u8>, counter: &mut u32) -> RV {
    let mut next = || sel.next().unwrap_or(0);
    match t {
        RT::Opt(inner) => {
            if next() % 4 == 0 {
                RV::None
            } else {
                RV::Some(Box::new(value_for(inner, sel, counter)))
            }
        }
        RT::Res(ok, err) => {
            if next() % 2 == 0 {
                RV::Ok(Box::new(value_for(ok, sel, counter)))
            } else {
                RV::Err(Box::new(value_for(err, sel, counter)))
            }
        }
        RT::Vec(inner) => {
            let n = next() % 5;
            RV::Vec((0..n).map(|_| value_for(inner, sel, counter)).collect())
        }
        RT::Poll(inner) => {
            if next() % 4 == 0 {
                RV::Pending
            } else {
                RV::Ready(Box::new(value_for(inner, sel, counter)))
            }
        }
        RT::Tup(ts) => RV::Tup(ts.iter().map(|t| value_for(t, sel, counter)).collect()),
        _ => {
            *counter += 1;
            RV::Leaf(*counter * 7 + 3)
        }
    }
}

pub fn case_strategy() -> impl Strategy<Value = RetCase> {
    (
        type_strategy(),
        proptest::collection::vec(any::<u8>(), 40),
        any::<bool>(),
        proptest::bool::weighted(0.4),
    )
        .prop_map(|(ty, sel, mut_recv, partial_real)| {
            let mut it = sel.into_iter();
            let mut counter = 0;
            let value = value_for(&ty, &mut it, &mut counter);
            RetCase {
                ty,
                value,
                mut_recv,
                partial_real,
            }
        })
}

pub const RULE: &str = "programs = methods whose return type is drawn from the families the macro accepts: borrowed leaves (&u32, &String, &str, &[u8]); Option<&T> / Result<&T,E>; Option / Poll wrappers around those up to depth 3; Vec<&T>, Vec<Option<&T>>; 1-4-tuples mixing owned leaves (u32, String, non-Clone, &'static str), borrowed leaves and shallow containers; all-owned composites of Option/Result/Vec/Poll/tuples up to depth 3; &self and &mut self receivers. For each type a value with generated variants (None/Some, Ok/Err, Ready/Pending, vector lengths 0..4) and pairwise distinct leaf values is configured with returns() through next_call (single use), each_call (3 calls, earlier results read after later calls) and some_call(..).n_times(2). Non-trivial = >= 2 container levels or a tuple mixing owned and borrowed leaves; distinct = distinct (type, value). racing-repeat-use-returns = every schedule of 2 threads x 1-2 calls and 3 x 1 requesting a value with an owned String leaf (alone, in (String,&u32), as Err of Result<&u32,String>, inside Option<Vec<Result<..>>>) configured through each_call().returns / .n_times(N) / .at_least_times(1), through clones or one shared handle: every call observes the configured structure. racing-single-use-leaves = every schedule of two threads requesting one single-use composite whose owned leaves sit in several cells ((Token,&T), (&T,Token,Token), Result<&T,Token>, ...): exactly one request observes the complete configured value, the other is refused";

fn spec<'a>() -> Spec<'a, RetCase> {
    Spec {
        project: "C17",
        prelude: PRELUDE,
        source: &source,
        judge: &judge,
        nbins: 16,
        max_shrink_steps: 30,
        extra_deps: "",
    }
}

pub fn run(ctx: &Ctx) -> Verdict {
    let mut v = Verdict::new("exploration", RULE);
    v.explanation = "Round trip: the Debug rendering of the value the caller observes must equal the rendering of the configured value, which the generator computes independently from its own AST (variant, element order and count, leaf values). On repeat-use paths three consecutive calls must agree and borrowed leaves obtained first are read after the later calls.".into();
    v.assumptions = vec![
        "Debug renderings identify variant, element order/count and leaf values (leaf values are pairwise distinct)".into(),
        "types outside the accepted families are not generated; rustc rejections are counted (> 5% = inconclusive)".into(),
    ];
    v.subs
        .push(crate::replay_corpus(ctx, &|sub, case| replay(sub, case)));
    let n = ctx.tier.pick(1600, 32_000) as usize;
    let batches = n.div_ceil(1600);
    for b in 0..batches {
        let sub = if batches == 1 {
            "types".to_string()
        } else {
            format!("types-{b}")
        };
        v.subs.push(e2::run(
            ctx,
            &sub,
            case_strategy(),
            (n / batches).max(1),
            &spec(),
        ));
        if v.subs
            .last()
            .map(|s| s.failure.is_some() || s.inconclusive.is_some())
            .unwrap_or(false)
        {
            break;
        }
    }
    // owned leaves of composites configured for repeated use, requested by racing threads: every schedule of 2-3
    // threads (run-time sub-check hosted by the rt engine, C10's scheduler)
    v.subs.push(vcore::sub_report_from("rt", &["--sub-json", "C17", ctx.tier.name()], "racing-repeat-use-returns"));
    // ... and single-use composites with several owned leaves: exactly one of two racing requests observes the
    // complete configured value (the racing-leaves check of C12, same scheduler)
    v.subs.push(vcore::sub_report_from("rt", &["--sub-json", "C17-leaves", ctx.tier.name()], "racing-single-use-leaves"));
    v
}

pub fn replay(_sub: &str, case: Value) -> Result<(), String> {
    if _sub == "racing-repeat-use-returns" || _sub == "racing-single-use-leaves" {
        // hosted by the run-time engine (no compilation needed)
        let exe = std::env::current_exe().map_err(|e| format!("HARNESS: {e}"))?.with_file_name("rt");
        let out = std::process::Command::new(&exe)
            .args(["--replay-case", "C17", _sub, &case.to_string()])
            .output()
            .map_err(|e| format!("HARNESS: cannot run {}: {e}", exe.display()))?;
        let text = String::from_utf8_lossy(&out.stdout).trim().to_string();
        return match out.status.code() {
            Some(0) => Ok(()),
            Some(1) => Err(text),
            _ => Err(format!("HARNESS: rt --replay-case: {text}")),
        };
    }
    let c: RetCase = serde_json::from_value(case).map_err(|e| format!("HARNESS: bad case: {e}"))?;
    match e2::run_single(&spec(), &c) {
        Ok(r) => r.map(|_| ()),
        Err(e) => Err(format!("HARNESS: {e}")),
    }
}
