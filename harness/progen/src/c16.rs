//! C16 — unmocking calls the registered real function with the mock as its dependency.

use proptest::prelude::*;
use serde::{Deserialize, Serialize};
use serde_json::Value;
use vcore::{CaseInfo, Ctx, Verdict};

use crate::c05::fnv;
use crate::e2::{self, Spec};

#[derive(Clone, Copy, Debug, PartialEq, Eq, Hash, Serialize, Deserialize)]
pub enum PK {
    U8,
    I32,
    Str,
    RefU32,
    MutU32,
    String,
}

impl PK {
    fn ty(self) -> &'static str {
        match self {
            PK::U8 => "u8",
            PK::I32 => "i32",
            PK::Str => "&str",
            PK::RefU32 => "&u32",
            PK::MutU32 => "&mut u32",
            PK::String => "String",
        }
    }
    /// (caller-side preparation, argument expression, Debug string)
    fn arg(self, k: usize) -> (String, String, String) {
        match self {
            PK::U8 => (
                String::new(),
                format!("{}u8", 10 + k),
                format!("{}", 10 + k),
            ),
            PK::I32 => (
                String::new(),
                format!("-{}i32", 100 + k),
                format!("-{}", 100 + k),
            ),
            PK::Str => (String::new(), format!("\"str{k}\""), format!("\"str{k}\"")),
            PK::RefU32 => (
                format!("let r{k}: u32 = {};\n", 1000 + k),
                format!("&r{k}"),
                format!("{}", 1000 + k),
            ),
            PK::MutU32 => (
                format!("let mut m{k}: u32 = {};\n", 2000 + k),
                format!("&mut m{k}"),
                format!("{}", 2000 + k),
            ),
            PK::String => (
                String::new(),
                format!("String::from(\"s{k}\")"),
                format!("\"s{k}\""),
            ),
        }
    }
}

#[derive(Clone, Debug, PartialEq, Eq, Hash, Serialize, Deserialize)]
pub enum Reg {
    /// `_`
    None,
    /// `real_k`
    Path,
    /// `real_k(args...)`: true = self, k = parameter index (permuted / subset)
    Explicit(Vec<Option<usize>>),
}

#[derive(Clone, Copy, Debug, PartialEq, Eq, Hash, Serialize, Deserialize)]
pub enum Asy {
    Sync,
    AsyncFn,
    ImplFuture,
}

#[derive(Clone, Debug, PartialEq, Eq, Hash, Serialize, Deserialize)]
pub struct MethodSpec {
    pub mut_recv: bool,
    pub params: Vec<PK>,
    pub asy: Asy,
    pub reg: Reg,
    /// the method is a provided one (it has a default body that logs DEFAULT<i> and returns 77)
    #[serde(default)]
    pub has_default: bool,
}

#[derive(Clone, Debug, PartialEq, Eq, Hash, Serialize, Deserialize)]
pub struct UnmockCase {
    pub methods: Vec<MethodSpec>,
    pub target: usize,
    /// partial mock fall-through (true) or strict mock with applies_unmocked() (false)
    pub partial: bool,
    /// in a partial mock: mention the method with a pattern that rejects everything (unmatched) instead of leaving it unmentioned
    pub mention_unmatched: bool,
    /// recursion depth through the mock (adds a dedicated recursive method as method 0)
    pub recursion: Option<u8>,
    /// a mock-induced panic (call to an extra method without implementation) is provoked and caught on
    /// the same mock before the target call
    #[serde(default)]
    pub prior_error: bool,
    /// bit i set: a receiver-less provided function (`fn s<i>() -> u32 { .. }`, not mockable, but it
    /// occupies a `_` slot of the unmock_with list) is declared before method i
    #[serde(default)]
    pub static_before: u8,
    /// the mock also has an ordered (next_call) clause on an unrelated extra method: the kind of clause used for
    /// one method must not change how another method's calls are resolved
    #[serde(default)]
    pub extra_ordered_clause: bool,
    /// strict mock only, q > 0: the clause is `..applies_unmocked().n_times(q)` and q calls are made before the
    /// observed one: the observed call is SURPLUS, it still matches the pattern and still gets the pattern's (last)
    /// response, i.e. the real function (the surplus is reported by verification, not at the call)
    #[serde(default)]
    pub quota: u8,
    /// strict mock only: a LATER clause of the same method accepts the same calls and answers a constant; the
    /// earlier applies_unmocked() clause keeps its priority (first declared wins, whatever the kind of response)
    #[serde(default)]
    pub later_answering_clause: bool,
    /// strict mock only: the clause is the response sequence `applies_unmocked().once().then().returns(c).once()
    /// .then().applies_unmocked()` and two calls are made before the observed one: the third match gets the LAST
    /// segment, i.e. the real function again
    #[serde(default)]
    pub sandwich: bool,
}

impl UnmockCase {
    fn registrations(&self) -> Vec<Reg> {
        let mut v: Vec<Reg> = vec![];
        if self.recursion.is_some() {
            v.push(Reg::Path);
        }
        v.extend(self.methods.iter().map(|m| m.reg.clone()));
        v
    }
    /// number of calls made before the observed one (they use up the clause's exact count)
    pub fn warmup_calls(&self) -> u8 {
        if self.partial {
            0
        } else if self.sandwich {
            2
        } else {
            self.quota
        }
    }
    fn target_spec(&self) -> &MethodSpec {
        &self.methods[self.target]
    }
    /// Documented "delegation by default": a provided method that no clause mentions runs its
    /// default body (also in a partial mock); it is not a fall-through to the real function.
    pub fn default_body_expected(&self) -> bool {
        self.target_spec().has_default && self.partial && !self.mention_unmatched
    }
    /// what the real function of the target logs
    pub fn expected_log(&self) -> Option<String> {
        let m = self.target_spec();
        let mut s = format!("REAL{}", self.target);
        match &m.reg {
            Reg::None => return None,
            Reg::Path => {
                s.push_str("|self");
                for (k, p) in m.params.iter().enumerate() {
                    s.push('|');
                    s.push_str(&p.arg(k).2);
                }
            }
            Reg::Explicit(args) => {
                for a in args {
                    s.push('|');
                    match a {
                        None => s.push_str("self"),
                        Some(k) => s.push_str(&m.params[*k].arg(*k).2),
                    }
                }
            }
        }
        Some(s)
    }
}

fn sig(i: usize, m: &MethodSpec) -> String {
    let params: String = m
        .params
        .iter()
        .enumerate()
        .map(|(k, p)| format!(", a{k}: {}", p.ty()))
        .collect();
    let recv = if m.mut_recv { "&mut self" } else { "&self" };
    match m.asy {
        Asy::Sync => format!("fn m{i}({recv}{params}) -> u32"),
        Asy::AsyncFn => format!("async fn m{i}({recv}{params}) -> u32"),
        Asy::ImplFuture => {
            format!("fn m{i}({recv}{params}) -> impl std::future::Future<Output = u32>")
        }
    }
}

pub fn source(c: &UnmockCase) -> String {
    let mut s = String::new();
    s.push_str("static LOG: Mutex<Vec<String>> = Mutex::new(Vec::new());\nfn log(s: String) { LOG.lock().unwrap().push(s) }\nfn take() -> Vec<String> { std::mem::take(&mut *LOG.lock().unwrap()) }\n\n");
    let regs: Vec<String> = c
        .registrations()
        .iter()
        .enumerate()
        .map(|(slot, r)| {
            let idx = if c.recursion.is_some() {
                slot as isize - 1
            } else {
                slot as isize
            };
            if idx < 0 {
                return "real_rec".to_string();
            }
            let i = idx as usize;
            match r {
                Reg::None => "_".to_string(),
                Reg::Path => format!("real_{i}"),
                Reg::Explicit(args) => format!(
                    "real_{i}({})",
                    args.iter()
                        .map(|a| match a {
                            None => "self".to_string(),
                            Some(k) => format!("a{k}"),
                        })
                        .collect::<Vec<_>>()
                        .join(", ")
                ),
            }
        })
        .collect();
    let mut regs = {
        // slots of receiver-less provided functions (`_`) in front of the methods they precede
        let offset = c.recursion.is_some() as usize;
        let mut out: Vec<String> = vec![];
        for (slot, r) in regs.into_iter().enumerate() {
            if slot >= offset && (c.static_before >> (slot - offset)) & 1 == 1 && slot - offset < 8 {
                out.push("_".to_string());
            }
            out.push(r);
        }
        out
    };
    if c.prior_error {
        regs.push("_".to_string());
    }
    if c.extra_ordered_clause {
        regs.push("_".to_string());
    }
    s.push_str(&format!(
        "#[unimock(api=M, unmock_with=[{}])]\npub trait Tr {{\n",
        regs.join(", ")
    ));
    if c.recursion.is_some() {
        s.push_str("    fn rec(&self, n: u32) -> u32;\n");
    }
    for (i, m) in c.methods.iter().enumerate() {
        if i < 8 && (c.static_before >> i) & 1 == 1 {
            s.push_str(&format!("    fn s{i}() -> u32 {{ {i} }}\n"));
        }
        if m.has_default {
            s.push_str(&format!(
                "    {} {{ log(\"DEFAULT{i}\".to_string()); 77 }}\n",
                sig(i, m)
            ));
        } else {
            s.push_str(&format!("    {};\n", sig(i, m)));
        }
    }
    if c.prior_error {
        s.push_str("    fn zz(&self) -> u32;\n");
    }
    if c.extra_ordered_clause {
        s.push_str("    fn oo(&self) -> u32;\n");
    }
    s.push_str("}\n\n");
    if c.recursion.is_some() {
        s.push_str("fn real_rec(u: &impl Tr, n: u32) -> u32 {\n    log(format!(\"REC|{n}\"));\n    n * u.rec(n - 1)\n}\n\n");
    }
    for (i, m) in c.methods.iter().enumerate() {
        let (params, fmt, args): (String, String, String) = match &m.reg {
            Reg::None => continue,
            Reg::Path => {
                let self_ty = if m.mut_recv {
                    "&mut Unimock"
                } else {
                    "&Unimock"
                };
                (
                    std::iter::once(format!("_u: {self_ty}"))
                        .chain(
                            m.params
                                .iter()
                                .enumerate()
                                .map(|(k, p)| format!("a{k}: {}", p.ty())),
                        )
                        .collect::<Vec<_>>()
                        .join(", "),
                    std::iter::once("self".to_string())
                        .chain(m.params.iter().map(|_| "{:?}".to_string()))
                        .collect::<Vec<_>>()
                        .join("|"),
                    (0..m.params.len()).map(|k| format!(", a{k}")).collect(),
                )
            }
            Reg::Explicit(list) => {
                let self_ty = if m.mut_recv {
                    "&mut Unimock"
                } else {
                    "&Unimock"
                };
                (
                    list.iter()
                        .enumerate()
                        .map(|(j, a)| match a {
                            None => format!("_u{j}: {self_ty}"),
                            Some(k) => format!("a{k}: {}", m.params[*k].ty()),
                        })
                        .collect::<Vec<_>>()
                        .join(", "),
                    list.iter()
                        .map(|a| match a {
                            None => "self".to_string(),
                            Some(_) => "{:?}".to_string(),
                        })
                        .collect::<Vec<_>>()
                        .join("|"),
                    list.iter()
                        .filter_map(|a| a.map(|k| format!(", a{k}")))
                        .collect(),
                )
            }
        };
        let asy = if m.asy == Asy::Sync { "" } else { "async " };
        let sep = if fmt.is_empty() { "" } else { "|" };
        s.push_str(&format!(
            "{asy}fn real_{i}({params}) -> u32 {{\n    let s = format!(\"REAL{i}{sep}{fmt}\"{args});\n    log(s.clone());\n    fnv(&s)\n}}\n\n"
        ));
    }
    s.push_str("pub fn run() -> String {\n");
    let m = c.target_spec();
    let t = c.target;
    let mut arg_exprs = vec![];
    for (k, p) in m.params.iter().enumerate() {
        let (prep, e, _) = p.arg(k);
        if !prep.is_empty() {
            s.push_str(&format!("    {prep}"));
        }
        arg_exprs.push(e);
    }
    // setup
    let pat = match m.params.len() {
        0 | 1 => "_".to_string(),
        n => format!("({})", vec!["_"; n].join(", ")),
    };
    let mut clauses: Vec<String> = vec![];
    if !c.partial {
        let quantify = if c.sandwich {
            ".once().then().returns(424243u32).once().then().applies_unmocked()".to_string()
        } else if c.warmup_calls() > 0 {
            format!(".n_times({})", c.warmup_calls())
        } else {
            String::new()
        };
        clauses.push(format!(
            "M::m{t}.each_call(&|m| m.func(|{pat}, _| true)).applies_unmocked(){quantify}"
        ));
        if c.later_answering_clause {
            clauses.push(format!(
                "M::m{t}.each_call(&|m| m.func(|{pat}, _| true)).returns(424242u32)"
            ));
        }
    } else if c.mention_unmatched {
        clauses.push(format!(
            "M::m{t}.each_call(&|m| m.func(|{pat}, _| false)).returns(0u32)"
        ));
    }
    if c.extra_ordered_clause {
        clauses.push("M::oo.next_call(&|m| m.func(|_, _| true)).returns(1u32)".to_string());
    }
    let ctor = if c.partial { "new_partial" } else { "new" };
    let clause = match clauses.len() {
        0 => "()".to_string(),
        1 => clauses[0].clone(),
        _ => format!("({})", clauses.join(",\n        ")),
    };
    s.push_str(&format!(
        "    let mut u = Unimock::{ctor}({clause}).no_verify_in_drop();\n"
    ));
    if c.prior_error {
        s.push_str("    let prior = std::panic::catch_unwind(std::panic::AssertUnwindSafe(|| <Unimock as Tr>::zz(&u)));\n    assert!(prior.is_err(), \"HARNESS: zz() did not panic\");\n");
    }
    let recv = if m.mut_recv { "&mut u" } else { "&u" };
    let call = format!(
        "<Unimock as Tr>::m{t}({recv}{})",
        arg_exprs
            .iter()
            .map(|e| format!(", {e}"))
            .collect::<String>()
    );
    let call = if m.asy == Asy::Sync {
        call
    } else {
        format!("block_on({call})")
    };
    for _ in 0..c.warmup_calls() {
        s.push_str(&format!(
            "    {{ let _ = std::panic::catch_unwind(std::panic::AssertUnwindSafe(|| {{ let _ = {call}; }})); }}\n"
        ));
    }
    if c.warmup_calls() > 0 {
        s.push_str("    let _ = take();\n");
    }
    s.push_str(&format!(
        "    let r = std::panic::catch_unwind(std::panic::AssertUnwindSafe(|| {call}));\n    let ret = match r {{ Ok(v) => format!(\"{{}}\", v), Err(p) => format!(\"PANIC:{{}}\", p.downcast_ref::<String>().cloned().unwrap_or_default()) }};\n"
    ));
    s.push_str("    let logv = take();\n");
    if let Some(d) = c.recursion {
        s.push_str(&format!(
            "    let ur = Unimock::new(M::rec.stub(|each| {{\n        each.call(&|m| m.func(|n: &u32, _| *n == 0)).returns(100u32).once();\n        each.call(&|m| m.func(|_, _| true)).applies_unmocked();\n    }}));\n    let rec = std::panic::catch_unwind(std::panic::AssertUnwindSafe(|| <Unimock as Tr>::rec(&ur, {d}u32)));\n    let rec_ret = match rec {{ Ok(v) => format!(\"{{}}\", v), Err(_) => \"PANIC\".to_string() }};\n    let rec_log = take();\n"
        ));
        // the base-case pattern must have been counted exactly once by the same state
        s.push_str("    let verdict = match std::panic::catch_unwind(std::panic::AssertUnwindSafe(move || ur.verify())) { Ok(()) => \"ok\".to_string(), Err(p) => format!(\"FAIL:{}\", p.downcast_ref::<String>().cloned().unwrap_or_default()) };\n");
    } else {
        s.push_str("    let rec_ret = String::new();\n    let rec_log: Vec<String> = vec![];\n    let verdict = String::new();\n");
    }
    s.push_str("    format!(\"{}\\u{1}{}\\u{1}{}\\u{1}{}\\u{1}{}\", logv.join(\"\\u{2}\"), ret, rec_ret, rec_log.join(\"\\u{2}\"), verdict)\n}\n");
    s
}

pub fn judge(c: &UnmockCase, line: &str) -> Result<CaseInfo, String> {
    let parts: Vec<&str> = line.split('\u{1}').collect();
    if parts.len() != 5 {
        return Err(format!("HARNESS: malformed output {line:?}"));
    }
    let log: Vec<&str> = if parts[0].is_empty() {
        vec![]
    } else {
        parts[0].split('\u{2}').collect()
    };
    let m = c.target_spec();
    let desc = format!(
        "`{}` registered as {:?} in a {} mock",
        sig(c.target, m),
        m.reg,
        if c.partial {
            "partial"
        } else {
            "strict (applies_unmocked)"
        }
    );
    if c.default_body_expected() {
        if log != vec![format!("DEFAULT{}", c.target).as_str()] || parts[1] != "77" {
            return Err(format!(
                "{desc}: an unmentioned provided method must run its default body (documented delegation by default): log {log:?}, returned {}",
                parts[1]
            ));
        }
    } else {
        match c.expected_log() {
            None => {
                if !parts[1].starts_with("PANIC:") {
                    return Err(format!(
                        "{desc}: no real function is registered, but the call returned {}",
                        parts[1]
                    ));
                }
                if !parts[1].contains(&format!("Tr::m{}", c.target)) {
                    return Err(format!(
                        "{desc}: the panic does not name the method: {}",
                        parts[1]
                    ));
                }
                if !log.is_empty() {
                    return Err(format!("{desc}: a real function ran although none is registered for the method: {log:?}"));
                }
            }
            Some(expected) => {
                if log != vec![expected.as_str()] {
                    return Err(format!("{desc}: real function invocations {log:?}, expected exactly one: {expected:?}"));
                }
                let want = format!("{}", fnv(&expected));
                if parts[1] != want {
                    return Err(format!(
                        "{desc}: the call returned {}, the real function returned {want}",
                        parts[1]
                    ));
                }
            }
        }
    }
    if let Some(d) = c.recursion {
        let fact: u64 = (1..=d as u64).product::<u64>() * 100;
        if parts[2] != format!("{fact}") {
            return Err(format!(
                "recursion depth {d} through the mock returned {}, expected {fact}",
                parts[2]
            ));
        }
        let rec_log: Vec<String> = if parts[3].is_empty() {
            vec![]
        } else {
            parts[3].split('\u{2}').map(|s| s.to_string()).collect()
        };
        let want: Vec<String> = (1..=d as u32).rev().map(|n| format!("REC|{n}")).collect();
        if rec_log != want {
            return Err(format!(
                "recursion depth {d}: real function invocations {rec_log:?}, expected {want:?}"
            ));
        }
        if parts[4] != "ok" {
            // the base-case pattern (exactly once) must have been counted by the same mock state
            return Err(format!(
                "recursion depth {d}: verification after the recursive call failed: {}",
                parts[4]
            ));
        }
    }
    let regs: std::collections::BTreeSet<String> = c
        .methods
        .iter()
        .map(|m| format!("{:?}", std::mem::discriminant(&m.reg)))
        .collect();
    let explicit = matches!(m.reg, Reg::Explicit(_));
    let nt = (c.methods.len() >= 2 && regs.len() >= 2)
        || explicit
        || c.recursion.map(|d| d >= 2).unwrap_or(false);
    Ok(CaseInfo::new(nt)
        .class(match &m.reg {
            Reg::None => "reg:_",
            Reg::Path => "reg:path",
            Reg::Explicit(_) => "reg:path(params)",
        })
        .class_if(c.partial && !c.mention_unmatched, "partial:unmentioned")
        .class_if(c.partial && c.mention_unmatched, "partial:unmatched")
        .class_if(!c.partial, "strict:applies_unmocked")
        .class_if(c.warmup_calls() > 0 && !c.sandwich, "observed-call-is-surplus-to-an-exact-count")
        .class_if(!c.partial && c.sandwich, "third-segment-of-unmocked/value/unmocked-sequence")
        .class_if(!c.partial && c.later_answering_clause, "a-later-overlapping-clause-answers-a-constant")
        .class_if(m.has_default, "provided-method(default body)")
        .class_if(
            m.has_default && c.partial && c.mention_unmatched,
            "provided+mentioned-unmatched->real-fn",
        )
        .class_if(
            c.default_body_expected(),
            "provided+unmentioned->default-body",
        )
        .class_if(c.prior_error, "after-a-caught-mock-error")
        .class_if(c.extra_ordered_clause, "unrelated-ordered-clause-in-the-same-mock")
        .class_if(c.static_before & ((1u16 << c.methods.len().min(8)) - 1) as u8 != 0, "receiver-less-provided-fn-in-the-trait")
        .class_if(m.mut_recv, "recv:&mut self")
        .class_if(m.asy != Asy::Sync, "async")
        .class_if(c.recursion.is_some(), "recursion-through-mock")
        .class_if(c.methods.len() >= 3, "three-or-more-methods"))
}

fn method_strategy() -> impl Strategy<Value = MethodSpec> {
    let pk = prop_oneof![
        Just(PK::U8),
        Just(PK::I32),
        Just(PK::Str),
        Just(PK::RefU32),
        Just(PK::MutU32),
        Just(PK::String)
    ];
    (
        any::<bool>(),
        proptest::collection::vec((pk, any::<bool>()), 0..=4),
        prop_oneof![3 => Just(Asy::Sync), 1 => Just(Asy::AsyncFn), 1 => Just(Asy::ImplFuture)],
        0..4u8,
        proptest::collection::vec(any::<u8>(), 6),
        proptest::bool::weighted(0.35),
    )
        .prop_map(|(mut_recv, params, mut asy, reg_sel, perm, has_default)| {
            let mut ps: Vec<PK> = vec![];
            for (p, same) in params {
                if same && !ps.is_empty() {
                    let l = *ps.last().unwrap();
                    ps.push(l);
                } else {
                    ps.push(p);
                }
            }
            if asy == Asy::ImplFuture && mut_recv {
                asy = Asy::AsyncFn; // rejected by rustc for &mut self (see C05)
            }
            let reg = match reg_sel {
                0 => Reg::None,
                1 => Reg::Path,
                _ => {
                    // permutation / subset of [self, a0..an): each entry used at most once
                    let mut items: Vec<Option<usize>> = std::iter::once(None)
                        .chain((0..ps.len()).map(Some))
                        .collect();
                    let mut out = vec![];
                    for (j, sel) in perm.iter().enumerate() {
                        if items.is_empty() {
                            break;
                        }
                        if j > 0 && sel % 5 == 0 {
                            break; // subset
                        }
                        let i = *sel as usize % items.len();
                        out.push(items.remove(i));
                    }
                    Reg::Explicit(out)
                }
            };
            let has_default = has_default && asy != Asy::ImplFuture;
            MethodSpec {
                mut_recv,
                params: ps,
                asy,
                reg,
                has_default,
            }
        })
}

pub fn case_strategy() -> impl Strategy<Value = UnmockCase> {
    (
        proptest::collection::vec(method_strategy(), 1..=4),
        any::<u8>(),
        any::<bool>(),
        any::<bool>(),
        proptest::option::weighted(0.35, 0..=6u8),
        proptest::bool::weighted(0.3),
        (prop_oneof![2 => Just(0u8), 1 => any::<u8>()], proptest::bool::weighted(0.3), prop_oneof![2 => Just(0u8), 1 => 1..=3u8], proptest::bool::weighted(0.3), proptest::bool::weighted(0.2)),
    )
        .prop_map(|(methods, t, partial, mention_unmatched, recursion, prior_error, (static_before, extra_ordered_clause, quota, later_answering_clause, sandwich))| {
            let target = t as usize % methods.len();
            UnmockCase { methods, target, partial, mention_unmatched, recursion, prior_error, static_before, extra_ordered_clause, quota, later_answering_clause, sandwich }
        })
}

pub const RULE: &str = "programs = generated traits of 1-4 methods (plus an optional recursive method), each with its own unmock_with registration {_, path, path(permuted / subset of self and the parameters)}, &self or &mut self receivers, 0-4 parameters from {u8, i32, &str, &u32, &mut u32, String} with adjacent parameters often sharing a type, sync / async fn / -> impl Future; the target method is resolved to the real implementation through a partial mock (unmentioned or mentioned-but-unmatched) or through applies_unmocked() in a strict mock (optionally quantified n_times(q) with q earlier calls, so that the observed call is surplus and still gets the pattern's response; optionally followed by a later overlapping clause that answers a constant and must not win; optionally as the response sequence unmocked / constant / unmocked with the observed call being the third match); recursion depth 0..6 through the mock with the base case answered by a counted pattern. Non-trivial = >= 2 methods with different registration forms, or explicit parameters, or recursion depth >= 2; distinct = distinct case";

fn spec<'a>() -> Spec<'a, UnmockCase> {
    Spec {
        project: "C16",
        prelude: crate::c05::PRELUDE,
        source: &source,
        judge: &judge,
        nbins: 16,
        max_shrink_steps: 30,
        extra_deps: "",
    }
}

pub fn run(ctx: &Ctx) -> Verdict {
    let mut v = Verdict::new("exploration", RULE);
    v.explanation = "Recording real functions: the log must contain exactly one invocation of the function registered for the called method (position in the unmock_with list), with `self` and the caller's arguments in the registered order; the call returns the function's result unchanged (awaited for async); without registration the call panics naming Trait::method and no function runs; recursive real functions call back into the same mock, whose counted base-case pattern must verify.".into();
    v.assumptions =
        vec!["shapes rustc rejects are outside the domain (counted; > 5% = inconclusive)".into()];
    v.subs
        .push(crate::replay_corpus(ctx, &|sub, case| replay(sub, case)));
    let n = ctx.tier.pick(1280, 24_000) as usize;
    let batches = n.div_ceil(1600);
    for b in 0..batches {
        let sub = if batches == 1 {
            "registrations".to_string()
        } else {
            format!("registrations-{b}")
        };
        v.subs.push(e2::run(
            ctx,
            &sub,
            case_strategy(),
            (n / batches).max(1),
            &spec(),
        ));
        if v.subs
            .last()
            .map(|s| s.failure.is_some() || s.inconclusive.is_some())
            .unwrap_or(false)
        {
            break;
        }
    }
    v
}

pub fn replay(_sub: &str, case: Value) -> Result<(), String> {
    let c: UnmockCase =
        serde_json::from_value(case).map_err(|e| format!("HARNESS: bad case: {e}"))?;
    match e2::run_single(&spec(), &c) {
        Ok(r) => r.map(|_| ()),
        Err(e) => Err(format!("HARNESS: {e}")),
    }
}
