//! E3 — controlled scheduler. Under `cfg(unimock_verif)` unimock calls
//! `unimock::verif::yield_point` before every atomic operation and lock acquisition.
//! Worker threads are real OS threads; exactly one holds the token, and at every
//! yield point the next thread to run is chosen by a *schedule* (a sequence of
//! choices), so an interleaving is a plain `Vec<u8>`: generated, shrunk, replayed,
//! or enumerated depth-first to exhaustion.

use std::cell::RefCell;
use std::sync::{Arc, Condvar, Mutex};
use std::time::Duration;

thread_local! {
    static CURRENT: RefCell<Option<(usize, Arc<Sched>)>> = const { RefCell::new(None) };
}

pub struct Sched {
    state: Mutex<State>,
    cv: Condvar,
}

struct State {
    /// thread holding the token
    current: usize,
    finished: Vec<bool>,
    /// choices to follow; beyond its end option 0 is taken
    schedule: Vec<u8>,
    pos: usize,
    /// (chosen option, number of options) per decision actually made
    decisions: Vec<(u8, u8)>,
    /// (thread, yield point) trace
    trace: Vec<(u8, &'static str)>,
    switches: usize,
    hung: bool,
}

const WATCHDOG: Duration = Duration::from_secs(20);

fn hook(what: &'static str) {
    let cur = CURRENT.with(|c| c.borrow().clone());
    if let Some((tid, sched)) = cur {
        sched.yield_now(tid, what);
    }
}

pub fn install() {
    static ONCE: std::sync::Once = std::sync::Once::new();
    ONCE.call_once(|| {
        if !unimock::verif::set_yield_hook(hook) {
            panic!("HARNESS: a yield hook is already installed");
        }
    });
}

impl Sched {
    fn choose(st: &mut State, from: usize) {
        // options: unfinished threads in index order, starting the numbering at `from`'s successor
        // so that option 0 = "keep running the same thread" when it is still runnable.
        let n = st.finished.len();
        let mut options = vec![];
        for k in 0..n {
            let t = (from + k) % n;
            if !st.finished[t] {
                options.push(t);
            }
        }
        if options.is_empty() {
            return;
        }
        let mut pick = 0;
        if options.len() > 1 {
            let want = st.schedule.get(st.pos).copied().unwrap_or(0) as usize;
            st.pos += 1;
            pick = want % options.len();
            st.decisions.push((pick as u8, options.len() as u8));
        }
        let next = options[pick];
        if next != st.current {
            st.switches += 1;
        }
        st.current = next;
    }

    fn wait_for_token<'a>(&'a self, mut st: std::sync::MutexGuard<'a, State>, tid: usize) -> std::sync::MutexGuard<'a, State> {
        while st.current != tid && !st.hung {
            let (g, timeout) = self.cv.wait_timeout(st, WATCHDOG).unwrap();
            st = g;
            if timeout.timed_out() && st.current != tid {
                st.hung = true;
                self.cv.notify_all();
            }
        }
        st
    }

    fn yield_now(&self, tid: usize, what: &'static str) {
        let mut st = self.state.lock().unwrap();
        if st.hung {
            return;
        }
        st.trace.push((tid as u8, what));
        Self::choose(&mut st, tid);
        self.cv.notify_all();
        let _st = self.wait_for_token(st, tid);
    }

    fn start(&self, tid: usize) {
        let st = self.state.lock().unwrap();
        let _st = self.wait_for_token(st, tid);
    }

    fn finish(&self, tid: usize) {
        let mut st = self.state.lock().unwrap();
        st.finished[tid] = true;
        if !st.hung {
            Self::choose(&mut st, tid);
        }
        self.cv.notify_all();
    }
}

pub struct RunResult<R> {
    pub results: Vec<R>,
    pub decisions: Vec<(u8, u8)>,
    pub trace: Vec<(u8, &'static str)>,
    pub switches: usize,
    pub hung: bool,
}

/// Run the given thread bodies under the schedule. Bodies must not block on each other
/// except through unimock's own locks.
pub fn run<R: Send + 'static>(
    bodies: Vec<Box<dyn FnOnce() -> R + Send>>,
    schedule: &[u8],
) -> RunResult<R> {
    run_with_inline(None, bodies, schedule)
}

/// As `run`, with an optional body that runs on the *calling* thread as scheduled thread 0
/// (the spawned bodies are threads 1..): lets the thread that created a mock take part in the race.
pub fn run_with_inline<'a, R: Send + 'static>(
    inline: Option<Box<dyn FnOnce() -> R + 'a>>,
    bodies: Vec<Box<dyn FnOnce() -> R + Send>>,
    schedule: &[u8],
) -> RunResult<R> {
    install();
    let off = inline.is_some() as usize;
    let n = bodies.len() + off;
    let sched = Arc::new(Sched {
        state: Mutex::new(State {
            current: 0,
            finished: vec![false; n],
            schedule: schedule.to_vec(),
            pos: 0,
            decisions: vec![],
            trace: vec![],
            switches: 0,
            hung: false,
        }),
        cv: Condvar::new(),
    });
    // the first decision (who starts) is a choice as well
    {
        let mut st = sched.state.lock().unwrap();
        Sched::choose(&mut st, 0);
        st.switches = 0;
    }
    let mut handles = vec![];
    for (i, body) in bodies.into_iter().enumerate() {
        let tid = i + off;
        let sched = sched.clone();
        handles.push(std::thread::spawn(move || {
            CURRENT.with(|c| *c.borrow_mut() = Some((tid, sched.clone())));
            sched.start(tid);
            let r = body();
            CURRENT.with(|c| *c.borrow_mut() = None);
            sched.finish(tid);
            r
        }));
    }
    let mut results = vec![];
    if let Some(body) = inline {
        CURRENT.with(|c| *c.borrow_mut() = Some((0, sched.clone())));
        sched.start(0);
        let r = std::panic::catch_unwind(std::panic::AssertUnwindSafe(body));
        CURRENT.with(|c| *c.borrow_mut() = None);
        sched.finish(0);
        match r {
            Ok(r) => results.push(r),
            Err(p) => {
                for h in handles {
                    let _ = h.join();
                }
                panic!("HARNESS: inline scheduled body panicked: {}", vcore::panics::payload_to_string(p))
            }
        }
    }
    for h in handles {
        match h.join() {
            Ok(r) => results.push(r),
            Err(p) => panic!("HARNESS: scheduled thread panicked: {}", vcore::panics::payload_to_string(p)),
        }
    }
    let st = sched.state.lock().unwrap();
    RunResult {
        results,
        decisions: st.decisions.clone(),
        trace: st.trace.clone(),
        switches: st.switches,
        hung: st.hung,
    }
}

/// Depth-first enumeration of all schedules. `exec(schedule)` runs one execution and returns
/// the decisions it actually made; returns the number of executions, or Err on the first
/// failure (with the schedule that produced it). Stops after `limit` executions (Ok(None)).
pub fn enumerate<E>(limit: u64, mut exec: E) -> Result<Option<u64>, (Vec<u8>, String)>
where
    E: FnMut(&[u8]) -> Result<Vec<(u8, u8)>, String>,
{
    let mut path: Vec<u8> = vec![];
    let mut count = 0u64;
    loop {
        if count >= limit {
            return Ok(None);
        }
        let decisions = exec(&path).map_err(|e| (path.clone(), e))?;
        count += 1;
        // next path: keep the decisions made, increment the last one that still has an untried option
        let mut next: Vec<(u8, u8)> = decisions;
        loop {
            match next.pop() {
                None => return Ok(Some(count)),
                Some((c, n)) if c + 1 < n => {
                    next.push((c + 1, n));
                    break;
                }
                Some(_) => {}
            }
        }
        path = next.iter().map(|(c, _)| *c).collect();
    }
}
