//! C11 — the mock never turns one panic into a process abort (std builds).
//!
//! Fault enumeration: panic origin x instance topology x met/unmet expectations x
//! recorded-error state. Each case runs (a) inside a crash-isolated worker on a
//! spawned thread — a second panic during unwinding aborts the worker, which the
//! parent observes — and (b) for the whole table also as the main thread of a fresh
//! child process, where the exit status (101 vs SIGABRT) and stderr are inspected.

use std::rc::Rc;
use std::sync::atomic::{AtomicUsize, Ordering};
use std::sync::{mpsc, Arc};

use proptest::prelude::*;
use serde::{Deserialize, Serialize};
use serde_json::Value;
use unimock::*;
use vcore::panics::{catch, payload_to_string};
use vcore::worker::{Reply, Worker};
use vcore::{CaseInfo, Ctx, Verdict};

use crate::traits::{AMock, A};

#[derive(Clone, Copy, Debug, PartialEq, Eq, Hash, Serialize, Deserialize)]
pub enum Origin {
    BodyBeforeCalls,
    BodyBetweenCalls,
    BodyAfterCalls,
    Matcher,
    Answer,
    UnmockFn,
    DefaultBody,
    ByValueDefaultBody,
    ArgDebug,
    ReturnClone,
    MockNoImplementation,
    MockNoMatch,
    MockExplicit,
    MockCannotUnmock,
    MockNoDefaultImpl,
    MockOrderOutOfRange,
    MockCannotReturnTwice,
}

pub const ORIGINS: [Origin; 17] = [
    Origin::BodyBeforeCalls,
    Origin::BodyBetweenCalls,
    Origin::BodyAfterCalls,
    Origin::Matcher,
    Origin::Answer,
    Origin::UnmockFn,
    Origin::DefaultBody,
    Origin::ByValueDefaultBody,
    Origin::ArgDebug,
    Origin::ReturnClone,
    Origin::MockNoImplementation,
    Origin::MockNoMatch,
    Origin::MockExplicit,
    Origin::MockCannotUnmock,
    Origin::MockNoDefaultImpl,
    Origin::MockOrderOutOfRange,
    Origin::MockCannotReturnTwice,
];

#[derive(Clone, Copy, Debug, PartialEq, Eq, Hash, Serialize, Deserialize)]
pub enum Topology {
    OriginalOnly,
    CloneDroppedBeforeOriginal,
    CloneDroppedAfterOriginal,
    CloneAliveOnOtherThread,
    InRc,
    InArc,
    InBox,
    OriginalOnForeignThread,
    HelperCloneAlive,
    ValueChainHoldsClone,
    /// the panicking call is made through a clone while the original waits in the same scope
    CallThroughClone,
    /// a destructor that runs during the unwinding builds a mock of its own (unmet expectations) and drops it
    MockBuiltByDestructor,
    /// as above, and the destructor drops that original while a clone of it is still alive
    MockAndCloneBuiltByDestructor,
    /// the usual fixture for a `no_verify_in_drop()` mock: a guard object owns the original and calls
    /// `verify()` on it in its destructor - which here runs during the unwinding
    ExplicitVerifyByDestructor,
    /// as above with `Termination::report()`
    ReportByDestructor,
}

pub const TOPOLOGIES: [Topology; 15] = [
    Topology::OriginalOnly,
    Topology::CloneDroppedBeforeOriginal,
    Topology::CloneDroppedAfterOriginal,
    Topology::CloneAliveOnOtherThread,
    Topology::InRc,
    Topology::InArc,
    Topology::InBox,
    Topology::OriginalOnForeignThread,
    Topology::HelperCloneAlive,
    Topology::ValueChainHoldsClone,
    Topology::CallThroughClone,
    Topology::MockBuiltByDestructor,
    Topology::MockAndCloneBuiltByDestructor,
    Topology::ExplicitVerifyByDestructor,
    Topology::ReportByDestructor,
];

#[derive(Clone, Copy, Debug, PartialEq, Eq, Hash, Serialize, Deserialize)]
pub struct AbortCase {
    pub origin: Origin,
    pub topology: Topology,
    /// expectations unmet at the time of the panic
    pub unmet: bool,
    /// a mock-induced panic was caught earlier (so errors are recorded in the shared state)
    pub error_recorded_before: bool,
}

// ------------------------------------------------------------------ mocked traits

pub struct PanickyDebug(pub u8);
impl std::fmt::Debug for PanickyDebug {
    fn fmt(&self, _: &mut std::fmt::Formatter<'_>) -> std::fmt::Result {
        panic!("ORIGIN argument Debug")
    }
}

pub struct PanickyClone(pub u8);
impl Clone for PanickyClone {
    fn clone(&self) -> Self {
        panic!("ORIGIN return value Clone")
    }
}

#[unimock(api=PMock, unmock_with=[real_p0, _, _, _, _])]
pub trait P {
    fn p0(&self, x: u8) -> u32;
    fn p_def(&self, x: u8) -> u32 {
        if x == 9 {
            panic!("ORIGIN default body")
        }
        x as u32
    }
    fn p_dbg(&self, d: PanickyDebug) -> u32;
    fn p_clone(&self, x: u8) -> PanickyClone;
    fn p_plain(&self, x: u8) -> u32;
}

pub fn real_p0(_: &impl std::any::Any, _x: u8) -> u32 {
    panic!("ORIGIN unmock function")
}

#[unimock(api=PCMock)]
pub trait PC: Sized {
    fn pc_req(self, x: u8) -> u32;
    fn pc_consume(self, _x: u8) -> u32 {
        panic!("ORIGIN by-value default body")
    }
}

pub fn marker(origin: Origin) -> &'static str {
    match origin {
        Origin::BodyBeforeCalls | Origin::BodyBetweenCalls | Origin::BodyAfterCalls => "ORIGIN test body",
        Origin::Matcher => "ORIGIN matcher",
        Origin::Answer => "ORIGIN answer",
        Origin::UnmockFn => "ORIGIN unmock function",
        Origin::DefaultBody => "ORIGIN default body",
        Origin::ByValueDefaultBody => "ORIGIN by-value default body",
        Origin::ArgDebug => "ORIGIN argument Debug",
        Origin::ReturnClone => "ORIGIN return value Clone",
        Origin::MockNoImplementation => "A::a1",
        Origin::MockNoMatch => "P::p0(200)",
        Origin::MockExplicit => "explicit ORIGIN",
        Origin::MockCannotUnmock => "P::p_plain",
        Origin::MockNoDefaultImpl => "P::p_plain",
        Origin::MockOrderOutOfRange => "A::a0",
        Origin::MockCannotReturnTwice => "P::p_plain",
    }
}

fn setup(case: &AbortCase) -> impl Clause {
    let p0 = PMock::p0.stub(|each| {
        each.call(&|m| m.func(|x: &u8, _| *x < 4))
            .answers(&|_, x| 100 + x as u32)
            .n_times(2);
        each.call(&|m| m.func(|x: &u8, _| *x == 5))
            .answers(&|_, _| panic!("ORIGIN answer"));
        each.call(&|m| {
            m.func(|x: &u8, _| {
                if *x == 6 {
                    panic!("ORIGIN matcher")
                }
                false
            })
        })
        .answers(&|_, _| 0);
        each.call(&|m| m.func(|x: &u8, _| *x == 7)).applies_unmocked();
        each.call(&|m| m.func(|x: &u8, _| *x == 8)).panics("explicit ORIGIN");
    });
    let ordered = AMock::a0
        .next_call(&|m| m.func(|_, _| true))
        .answers(&|_, _| 1);
    // only what the origin needs, so that "met" cases really have every expectation met
    let mut dc = unimock::verif::DynClause::new();
    dc.push(p0);
    dc.push(ordered);
    match case.origin {
        Origin::ArgDebug => dc.push(
            PMock::p_dbg
                .each_call(&|m| m.func(|_, _| false))
                .answers(&|_, _| 0),
        ),
        Origin::ReturnClone => dc.push(
            PMock::p_clone
                .each_call(&|m| m.func(|_, _| true))
                .returns(PanickyClone(1)),
        ),
        Origin::MockCannotUnmock | Origin::MockNoDefaultImpl => dc.push(PMock::p_plain.stub(|each| {
            each.call(&|m| m.func(|x: &u8, _| *x == 1)).applies_unmocked();
            each.call(&|m| m.func(|x: &u8, _| *x == 2)).applies_default_impl();
        })),
        Origin::MockCannotReturnTwice => dc.push(
            PMock::p_plain
                .some_call(&|m| m.func(|x: &u8, _| *x == 3))
                .returns(33u32),
        ),
        _ => {}
    }
    dc
}

fn recorded_error(u: &Unimock) {
    // caught mock-induced panic: unmentioned A::a1 of a strict mock
    let r = catch(|| u.a1(0));
    assert!(r.is_err(), "HARNESS: expected a mock-induced panic");
}

fn calls_then_panic(case: &AbortCase, u: &Unimock) {
    if case.origin == Origin::BodyBeforeCalls {
        panic!("ORIGIN test body");
    }
    u.a0(0); // consume the ordered slot
    u.p0(1);
    if case.origin == Origin::BodyBetweenCalls {
        panic!("ORIGIN test body");
    }
    if !case.unmet {
        u.p0(2);
    }
    if case.error_recorded_before {
        recorded_error(u);
    }
    match case.origin {
        Origin::BodyBeforeCalls | Origin::BodyBetweenCalls => unreachable!(),
        Origin::BodyAfterCalls => panic!("ORIGIN test body"),
        Origin::Matcher => {
            u.p0(6);
        }
        Origin::Answer => {
            u.p0(5);
        }
        Origin::UnmockFn => {
            u.p0(7);
        }
        Origin::DefaultBody => {
            u.p_def(9);
        }
        Origin::ByValueDefaultBody => unreachable!("handled by the caller"),
        Origin::ArgDebug => {
            u.p_dbg(PanickyDebug(1));
        }
        Origin::ReturnClone => {
            u.p_clone(1);
        }
        Origin::MockNoImplementation => {
            u.a1(3);
        }
        Origin::MockNoMatch => {
            u.p0(200);
        }
        Origin::MockExplicit => {
            u.p0(8);
        }
        Origin::MockCannotUnmock => {
            u.p_plain(1);
        }
        Origin::MockNoDefaultImpl => {
            u.p_plain(2);
        }
        Origin::MockOrderOutOfRange => {
            u.a0(1);
        }
        Origin::MockCannotReturnTwice => {
            u.p_plain(3);
            u.p_plain(3);
        }
    }
    panic!("HARNESS: origin {:?} did not panic", case.origin);
}

/// A scope guard whose destructor sets up and tears down its own mocked collaborator.
struct BuildsMockOnDrop {
    case: AbortCase,
    with_clone: bool,
}

impl Drop for BuildsMockOnDrop {
    fn drop(&mut self) {
        // expectations of this mock are unmet (nothing is called on it)
        let u = Unimock::new(setup(&self.case));
        if self.with_clone {
            let c = u.clone();
            drop(u);
            drop(c);
        }
    }
}

/// Owns a `no_verify_in_drop()` original and verifies it explicitly in its destructor.
struct VerifiesOnDrop(Option<Unimock>, bool);
impl Drop for VerifiesOnDrop {
    fn drop(&mut self) {
        if let Some(u) = self.0.take() {
            if self.1 {
                let _code = std::process::Termination::report(u);
            } else {
                u.verify();
            }
        }
    }
}

/// Builds the topology on the current thread and panics at the origin. `parked` receives a
/// clone that must stay alive elsewhere; `premade` is an original created on another thread.
fn body(case: &AbortCase, premade: Option<Unimock>, parked: &mut dyn FnMut(Unimock)) {
    let new = || Unimock::new(setup(case));
    if case.origin == Origin::ByValueDefaultBody {
        // the original is moved into the by-value provided method whose body panics
        let u = premade.unwrap_or_else(new);
        let keep: Option<Unimock> = match case.topology {
            Topology::CloneDroppedAfterOriginal | Topology::CallThroughClone => Some(u.clone()),
            Topology::CloneAliveOnOtherThread => {
                parked(u.clone());
                None
            }
            _ => None,
        };
        if case.error_recorded_before {
            recorded_error(&u);
        }
        let _keep = keep;
        u.pc_consume(1);
        panic!("HARNESS: by-value default body did not panic");
    }
    match case.topology {
        Topology::OriginalOnly | Topology::OriginalOnForeignThread => {
            let u = premade.unwrap_or_else(new);
            calls_then_panic(case, &u);
        }
        Topology::CloneDroppedBeforeOriginal => {
            let u = premade.unwrap_or_else(new);
            let _c = u.clone();
            calls_then_panic(case, &u);
        }
        Topology::CloneDroppedAfterOriginal => {
            let _holder: Option<Unimock>;
            let u = premade.unwrap_or_else(new);
            _holder = Some(u.clone());
            calls_then_panic(case, &u);
        }
        Topology::CallThroughClone => {
            let u = premade.unwrap_or_else(new);
            let c = u.clone();
            calls_then_panic(case, &c);
        }
        Topology::CloneAliveOnOtherThread => {
            let u = premade.unwrap_or_else(new);
            parked(u.clone());
            calls_then_panic(case, &u);
        }
        Topology::InRc => {
            let u = Rc::new(premade.unwrap_or_else(new));
            let _second_handle = u.clone();
            calls_then_panic(case, &u);
        }
        Topology::InArc => {
            let u = Arc::new(premade.unwrap_or_else(new));
            let _second_handle = u.clone();
            calls_then_panic(case, &u);
        }
        Topology::InBox => {
            let u = Box::new(premade.unwrap_or_else(new));
            calls_then_panic(case, &u);
        }
        Topology::HelperCloneAlive => {
            let u = premade.unwrap_or_else(new);
            u.p_def(1); // creates the delegation helper (a clone held by the original)
            calls_then_panic(case, &u);
        }
        Topology::ValueChainHoldsClone => {
            let u = premade.unwrap_or_else(new);
            let _lent: &Unimock = u.make_ref(u.clone());
            calls_then_panic(case, &u);
        }
        Topology::ExplicitVerifyByDestructor | Topology::ReportByDestructor => {
            let u = premade.unwrap_or_else(new).no_verify_in_drop();
            let fixture = VerifiesOnDrop(Some(u), case.topology == Topology::ReportByDestructor);
            calls_then_panic(case, fixture.0.as_ref().unwrap());
        }
        Topology::MockBuiltByDestructor | Topology::MockAndCloneBuiltByDestructor => {
            // declared first: dropped last, i.e. while the thread is unwinding
            let _guard = BuildsMockOnDrop { case: *case, with_clone: case.topology == Topology::MockAndCloneBuiltByDestructor };
            let u = premade.unwrap_or_else(new);
            calls_then_panic(case, &u);
        }
    }
}

// ------------------------------------------------------------------ usability after a caught user panic

pub static ARMED: std::sync::atomic::AtomicBool = std::sync::atomic::AtomicBool::new(false);
fn armed() -> bool {
    ARMED.load(Ordering::SeqCst)
}

pub struct ArmedDebug(pub u8);
impl std::fmt::Debug for ArmedDebug {
    fn fmt(&self, f: &mut std::fmt::Formatter<'_>) -> std::fmt::Result {
        if armed() {
            panic!("ORIGIN argument Debug")
        }
        write!(f, "AD({})", self.0)
    }
}

#[derive(Debug, PartialEq)]
pub struct ArmedClone(pub u8);
impl Clone for ArmedClone {
    fn clone(&self) -> Self {
        if armed() {
            panic!("ORIGIN return value Clone")
        }
        ArmedClone(self.0)
    }
}

#[unimock(api=QMock, unmock_with=[real_q0, _, _, _, _, _])]
pub trait Q {
    fn q0(&self, x: u8) -> u32;
    fn q_def(&self, x: u8) -> u32 {
        if armed() {
            panic!("ORIGIN default body")
        }
        1000 + x as u32
    }
    fn q_dbg(&self, d: ArmedDebug) -> u32;
    fn q_clone(&self, x: u8) -> ArmedClone;
    /// mocked with ordered (next_call) clauses
    fn q_ord(&self, x: u8) -> u32;
    /// mocked with an ordered clause whose matcher panics while armed
    fn q_om(&self, x: u8) -> u32;
}

pub fn real_q0(_: &impl std::any::Any, x: u8) -> u32 {
    if armed() {
        panic!("ORIGIN unmock function")
    }
    70 + x as u32
}

#[derive(Clone, Copy, Debug, PartialEq, Eq, Hash, Serialize, Deserialize)]
pub enum Via {
    Original,
    /// through a clone that is dropped after the panic was caught
    CloneKept,
    /// through a clone that is dropped while its thread unwinds
    CloneDroppedUnwinding,
    /// through a clone on another thread, which dies of the panic and is joined
    CloneOnJoinedThread,
    /// through a shared `&Unimock` (original behind an Arc) on another thread that is joined
    SharedOnJoinedThread,
}

pub const VIAS: [Via; 5] = [Via::Original, Via::CloneKept, Via::CloneDroppedUnwinding, Via::CloneOnJoinedThread, Via::SharedOnJoinedThread];

pub const USER_ORIGINS: [Origin; 6] = [Origin::Matcher, Origin::Answer, Origin::UnmockFn, Origin::DefaultBody, Origin::ArgDebug, Origin::ReturnClone];

#[derive(Clone, Copy, Debug, PartialEq, Eq, Hash, Serialize, Deserialize)]
pub struct UsableCase {
    pub usable_origin: Origin,
    pub via: Via,
    /// how many times the user panic is provoked and caught
    pub repeats: u8,
    /// leave one expectation one call short at the end (verification must then fail)
    pub short: bool,
    /// while the user panic unwinds, a destructor of the panicking scope makes a (successful) ordered call
    /// on the mock; the ordered sequence must simply continue afterwards
    #[serde(default)]
    pub destructor_call: bool,
    /// the clone that dies of the panic had lent a value that owns another clone of the mock
    /// (`cl.make_ref(cl.clone())`): it must be released with the clone, or the original sees a phantom live clone
    #[serde(default)]
    pub lent_clone: bool,
}

/// value the destructor's ordered call returned (0 = not run)
pub static DESTRUCTOR_GOT: AtomicUsize = AtomicUsize::new(0);

struct CallsOnDrop<'a>(&'a Unimock);
impl Drop for CallsOnDrop<'_> {
    fn drop(&mut self) {
        let was = ARMED.swap(false, Ordering::SeqCst);
        DESTRUCTOR_GOT.store(self.0.q_ord(1) as usize, Ordering::SeqCst);
        ARMED.store(was, Ordering::SeqCst);
    }
}

impl UsableCase {
    /// the destructor variant is exercised where the panic is caught on the calling thread, once
    pub fn destructor_in_effect(&self) -> bool {
        self.destructor_call && matches!(self.via, Via::Original | Via::CloneKept) && self.repeats == 1
    }
}

fn usable_setup(c: &UsableCase) -> impl Clause {
    let r = c.repeats as usize;
    let extra = |o: Origin| if c.usable_origin == o { r } else { 0 };
    let mut dc = unimock::verif::DynClause::new();
    dc.push(QMock::q0.stub(|each| {
        each.call(&|m| m.func(|x: &u8, _| *x < 4)).answers(&|_, x| 100 + x as u32).n_times(3);
        each.call(&|m| m.func(|x: &u8, _| *x == 5))
            .answers(&|_, _| {
                if armed() {
                    panic!("ORIGIN answer")
                }
                50
            })
            .n_times(1 + extra(Origin::Answer));
        each.call(&|m| {
            m.func(|x: &u8, _| {
                if *x == 6 && armed() {
                    panic!("ORIGIN matcher")
                }
                *x == 6
            })
        })
        .answers(&|_, _| 60)
        .n_times(1);
        each.call(&|m| m.func(|x: &u8, _| *x == 7)).applies_unmocked().n_times(1 + extra(Origin::UnmockFn));
    }));
    dc.push(QMock::q_clone.each_call(&|m| m.func(|_, _| true)).returns(ArmedClone(1)).n_times(1 + extra(Origin::ReturnClone)));
    // ordered sequence: before the panic, (by the destructor during the unwinding,) after the panic
    dc.push(QMock::q_ord.next_call(&|m| m.func(|_, _| true)).answers(&|_, _| 11));
    dc.push(QMock::q_ord.next_call(&|m| m.func(|_, _| true)).answers(&|_, _| 12));
    if c.destructor_in_effect() {
        dc.push(QMock::q_ord.next_call(&|m| m.func(|_, _| true)).answers(&|_, _| 13));
    }
    if c.usable_origin == Origin::ArgDebug {
        // (a mock that is never matched counts as dead: only mention it where it is called)
        dc.push(QMock::q_dbg.each_call(&|m| m.func(|_, _| false)).answers(&|_, _| 0));
    }
    dc
}

fn usable_trigger(origin: Origin, u: &Unimock) {
    match origin {
        Origin::Matcher => {
            u.q0(6);
        }
        Origin::Answer => {
            u.q0(5);
        }
        Origin::UnmockFn => {
            u.q0(7);
        }
        Origin::DefaultBody => {
            u.q_def(9);
        }
        Origin::ArgDebug => {
            u.q_dbg(ArmedDebug(1));
        }
        Origin::ReturnClone => {
            u.q_clone(1);
        }
        other => panic!("HARNESS: {other:?} is not a user-panic origin"),
    }
}

/// Worker side. "OK" or "FAIL: ...".
pub fn execute_usable(c: &UsableCase) -> String {
    ARMED.store(false, Ordering::SeqCst);
    // the mock lives outside the closure: after an early error return it is torn down quietly
    let mut original_slot: Option<Unimock> = None;
    let res = catch(|| -> Result<(), String> {
        let original = &mut original_slot;
        *original = Some(Unimock::new(usable_setup(c)));
        let expect = |what: &str, got: Result<u32, String>, want: u32| -> Result<(), String> {
            match got {
                Ok(v) if v == want => Ok(()),
                Ok(v) => Err(format!("{what} returned {v}, expected {want}")),
                Err(p) => Err(format!("the mock is not usable after the caught panic: {what} panicked: {p:?}")),
            }
        };
        {
            let u = original.as_ref().unwrap();
            expect("q0(1) before the panic", catch(|| u.q0(1)), 101)?;
            expect("q_ord (first ordered call) before the panic", catch(|| u.q_ord(0)), 11)?;
        }
        DESTRUCTOR_GOT.store(0, Ordering::SeqCst);
        let with_destructor = c.destructor_in_effect();
        for round in 0..c.repeats {
            ARMED.store(true, Ordering::SeqCst);
            let origin = c.usable_origin;
            let r: Result<(), String> = match c.via {
                Via::Original => {
                    let u = original.as_ref().unwrap();
                    catch(|| {
                        let _guard = if with_destructor { Some(CallsOnDrop(u)) } else { None };
                        usable_trigger(origin, u)
                    })
                }
                Via::CloneKept => {
                    let cl = original.as_ref().unwrap().clone();
                    let r = catch(|| {
                        let _guard = if with_destructor { Some(CallsOnDrop(&cl)) } else { None };
                        usable_trigger(origin, &cl)
                    });
                    ARMED.store(false, Ordering::SeqCst);
                    drop(cl);
                    r
                }
                Via::CloneDroppedUnwinding => {
                    let u = original.as_ref().unwrap();
                    let lent = c.lent_clone;
                    catch(|| {
                        let cl = u.clone();
                        if lent {
                            let _held: &Unimock = cl.make_ref(cl.clone());
                        }
                        usable_trigger(origin, &cl)
                    })
                }
                Via::CloneOnJoinedThread => {
                    let cl = original.as_ref().unwrap().clone();
                    let lent = c.lent_clone;
                    std::thread::spawn(move || {
                        if lent {
                            let _held: &Unimock = cl.make_ref(cl.clone());
                        }
                        usable_trigger(origin, &cl)
                    })
                    .join()
                    .map_err(payload_to_string)
                }
                Via::SharedOnJoinedThread => {
                    let arc = Arc::new(original.take().unwrap());
                    let h = arc.clone();
                    let r = std::thread::spawn(move || usable_trigger(origin, &h)).join().map_err(payload_to_string);
                    *original = Some(Arc::try_unwrap(arc).map_err(|_| "HARNESS: the joined thread kept its handle".to_string())?);
                    r
                }
            };
            ARMED.store(false, Ordering::SeqCst);
            match r {
                Ok(()) => return Err(format!("HARNESS: round {round}: the armed {origin:?} did not panic")),
                Err(msg) if !msg.contains(marker(origin)) => {
                    return Err(format!("round {round}: the caught panic is not the user's: {msg:?} (expected it to contain {:?})", marker(origin)))
                }
                Err(_) => {}
            }
        }
        // the mock must behave as if the panicking calls had merely been matched (or not, for the matcher)
        let u = original.as_ref().unwrap();
        let cl = u.clone();
        if with_destructor {
            let got = DESTRUCTOR_GOT.load(Ordering::SeqCst);
            if got != 12 {
                return Err(format!("the ordered call made by a destructor during the unwinding returned {got}, the second position answers 12"));
            }
            expect("q_ord (third ordered call) after the panic", catch(|| u.q_ord(2)), 13)?;
        } else {
            expect("q_ord (second ordered call) after the panic", catch(|| u.q_ord(2)), 12)?;
        }
        expect("q0(2) after the panic", catch(|| u.q0(2)), 102)?;
        if !c.short {
            expect("q0(3) after the panic (through a clone)", catch(|| cl.q0(3)), 103)?;
        }
        expect("q0(5) after the panic", catch(|| cl.q0(5)), 50)?;
        expect("q0(6) after the panic", catch(|| u.q0(6)), 60)?;
        expect("q0(7) after the panic", catch(|| u.q0(7)), 77)?;
        expect("q_def(3) after the panic", catch(|| cl.q_def(3)), 1003)?;
        match catch(|| u.q_clone(1)) {
            Ok(v) if v == ArmedClone(1) => {}
            Ok(v) => return Err(format!("q_clone(1) after the panic returned {v:?}")),
            Err(p) => return Err(format!("the mock is not usable after the caught panic: q_clone(1) panicked: {p:?}")),
        }
        drop(cl);
        let u = original.take().unwrap();
        let verdict = catch(move || u.verify());
        if c.usable_origin == Origin::ArgDebug {
            // whether the mock error whose rendering panicked counts as recorded is not specified
            return Ok(());
        }
        match (verdict, c.short) {
            (Ok(()), false) => Ok(()),
            (Err(msg), true) if msg.contains("Q::q0") && msg.contains("3 calls") && msg.contains("2 calls") => Ok(()),
            (Err(msg), true) => Err(format!("verification fails, but does not report the one pattern that is one call short (exactly 3, matched 2): {msg:?}")),
            (Ok(()), true) => Err("verification passed although one pattern is one call short".to_string()),
            (Err(msg), false) => Err(format!("verification does not reflect the calls actually matched (every pattern met its count): {msg:?}")),
        }
    });
    ARMED.store(false, Ordering::SeqCst);
    if let Some(o) = original_slot.take() {
        let _ = catch(move || drop(o));
    }
    match res {
        Ok(Ok(())) => "OK".to_string(),
        Ok(Err(e)) if e.starts_with("HARNESS") => format!("FAIL: {e}"),
        Ok(Err(e)) => format!("FAIL: {e}"),
        Err(p) => format!("FAIL: a panic escaped: {p}"),
    }
}

pub fn usable_table() -> Vec<UsableCase> {
    let mut v = vec![];
    for usable_origin in USER_ORIGINS {
        for via in VIAS {
            for repeats in [1u8, 2, 3] {
                for short in [false, true] {
                    v.push(UsableCase { usable_origin, via, repeats, short, destructor_call: false, lent_clone: false });
                    if repeats == 1 && matches!(via, Via::Original | Via::CloneKept) {
                        v.push(UsableCase { usable_origin, via, repeats, short, destructor_call: true, lent_clone: false });
                    }
                    if repeats <= 2 && matches!(via, Via::CloneDroppedUnwinding | Via::CloneOnJoinedThread) {
                        v.push(UsableCase { usable_origin, via, repeats, short, destructor_call: false, lent_clone: true });
                    }
                }
            }
        }
    }
    v
}

pub fn check_usable(worker: &std::cell::RefCell<Worker>, case: &UsableCase) -> Result<CaseInfo, String> {
    let json = serde_json::to_string(case).unwrap();
    match worker.borrow_mut().run(&json) {
        Reply::Crash(status) => Err(format!("the process aborted ({status}) while a user panic was being caught and the mock used again")),
        Reply::Line(l) if l == "OK" => Ok(CaseInfo::new(true)
            .class(match case.usable_origin {
                Origin::Matcher => "panic-in:matcher",
                Origin::Answer => "panic-in:answer",
                Origin::UnmockFn => "panic-in:unmock-fn",
                Origin::DefaultBody => "panic-in:default-body",
                Origin::ArgDebug => "panic-in:argument-Debug",
                _ => "panic-in:return-value-Clone",
            })
            .class_if(case.short, "one-call-short-at-the-end")
            .class_if(case.destructor_in_effect(), "ordered-call-by-a-destructor-during-the-unwinding")
            .class_if(case.lent_clone && matches!(case.via, Via::CloneDroppedUnwinding | Via::CloneOnJoinedThread), "dying-clone-had-lent-a-value-owning-a-clone")
            .class_if(matches!(case.via, Via::CloneOnJoinedThread | Via::SharedOnJoinedThread), "panic-killed-a-joined-thread")),
        Reply::Line(l) if l.contains("HARNESS") => Err(format!("HARNESS: {l}")),
        Reply::Line(l) => Err(l),
    }
}

pub static PANIC_COUNT: AtomicUsize = AtomicUsize::new(0);

/// Worker side: run the case on a spawned thread, report what the thread boundary saw.
pub fn execute(case: &AbortCase) -> String {
    let before = PANIC_COUNT.load(Ordering::SeqCst);
    let (tx, rx) = mpsc::channel::<Unimock>();
    let (release_tx, release_rx) = mpsc::channel::<()>();
    // keeper thread: holds parked clones alive until released
    let keeper = std::thread::spawn(move || {
        let mut held = vec![];
        while let Ok(u) = rx.recv() {
            held.push(u);
        }
        let _ = release_rx.recv();
        let r = catch(move || drop(held));
        r.is_ok()
    });
    let premade = if case.topology == Topology::OriginalOnForeignThread {
        Some(Unimock::new(setup(case)))
    } else {
        None
    };
    let c2 = *case;
    let joined = std::thread::spawn(move || {
        let tx = tx;
        let mut park = |u: Unimock| {
            let _ = tx.send(u);
        };
        body(&c2, premade, &mut park);
    })
    .join();
    let _ = release_tx.send(());
    let keeper_ok = keeper.join().unwrap_or(false);
    let after = PANIC_COUNT.load(Ordering::SeqCst);
    let expected_panics = 1 + case.error_recorded_before as usize;
    match joined {
        Ok(()) => "FAIL: the scenario thread ended without a panic (HARNESS)".to_string(),
        Err(payload) => {
            let msg = payload_to_string(payload);
            if !msg.contains(marker(case.origin)) {
                format!("FAIL: the thread's panic is not the original one: {msg:?} (expected it to contain {:?})", marker(case.origin))
            } else if !keeper_ok {
                "FAIL: dropping a parked clone panicked".to_string()
            } else if after - before != expected_panics {
                format!("FAIL: {} panics were raised, expected {expected_panics} (origin + caught earlier error)", after - before)
            } else {
                "OK".to_string()
            }
        }
    }
}

pub fn worker_main() {
    std::panic::set_hook(Box::new(|_| {
        PANIC_COUNT.fetch_add(1, Ordering::SeqCst);
    }));
    vcore::worker::serve(|line| {
        if let Ok(c) = serde_json::from_str::<UsableCase>(line) {
            return match catch(|| execute_usable(&c)) {
                Ok(s) => s,
                Err(p) => format!("FAIL: HARNESS panic in worker: {p}"),
            };
        }
        serve_abort_case(line)
    });
}

fn serve_abort_case(line: &str) -> String {
    match serde_json::from_str::<AbortCase>(line) {
        Ok(c) => match catch(|| execute(&c)) {
            Ok(s) => s,
            Err(p) => format!("FAIL: HARNESS panic in worker: {p}"),
        },
        Err(e) => format!("FAIL: HARNESS bad case {e}"),
    }
}

/// Child-process side (`rt --child-c11 <json>`): the scenario runs on the *main* thread with
/// the default panic hook; the parent inspects exit status and stderr.
pub fn child_main(json: &str) {
    let _ = std::panic::take_hook();
    let case: AbortCase = serde_json::from_str(json).expect("HARNESS: bad case");
    let (tx, rx) = mpsc::channel::<Unimock>();
    // parked clones stay alive on a detached thread until the process exits
    std::thread::spawn(move || {
        let mut held = vec![];
        while let Ok(u) = rx.recv() {
            held.push(u);
        }
        std::thread::park();
        drop(held);
    });
    let premade = if case.topology == Topology::OriginalOnForeignThread {
        let c = case;
        Some(std::thread::spawn(move || Unimock::new(setup(&c))).join().unwrap())
    } else {
        None
    };
    let mut park = |u: Unimock| {
        let _ = tx.send(u);
        std::thread::sleep(std::time::Duration::from_millis(1));
    };
    body(&case, premade, &mut park);
}

fn nontrivial(case: &AbortCase) -> bool {
    case.topology != Topology::OriginalOnly || case.unmet || case.error_recorded_before
}

pub fn check_via(worker: &std::cell::RefCell<Worker>, case: &AbortCase) -> Result<CaseInfo, String> {
    let json = serde_json::to_string(case).unwrap();
    match worker.borrow_mut().run(&json) {
        Reply::Crash(status) => Err(format!(
            "the process aborted instead of reporting the original panic ({status}): a second panic was raised while unwinding"
        )),
        Reply::Line(l) if l == "OK" => Ok(CaseInfo::new(nontrivial(case))
            .class_if(case.unmet, "expectations-unmet")
            .class_if(case.error_recorded_before, "error-recorded-before")),
        Reply::Line(l) if l.contains("HARNESS") => Err(format!("HARNESS: {l}")),
        Reply::Line(l) => Err(l),
    }
}

/// Fresh process per case: exit status 101 (one panic unwound out of main), never a signal;
/// stderr has exactly one more `panicked at` than caught earlier, and names the origin.
pub fn check_process(case: &AbortCase) -> Result<CaseInfo, String> {
    let exe = std::env::current_exe().map_err(|e| format!("HARNESS: {e}"))?;
    let out = std::process::Command::new(exe)
        .arg("--child-c11")
        .arg(serde_json::to_string(case).unwrap())
        .env("RUST_BACKTRACE", "0")
        .output()
        .map_err(|e| format!("HARNESS: spawn {e}"))?;
    let stderr = String::from_utf8_lossy(&out.stderr).to_string();
    let reports = stderr.matches("panicked at").count();
    let expected_reports = 1 + case.error_recorded_before as usize;
    if stderr.contains("HARNESS") {
        return Err(format!("HARNESS: child said {stderr:?}"));
    }
    match out.status.code() {
        Some(101) => {}
        other => {
            return Err(format!(
                "child process ended with {:?} / {} instead of exit code 101; stderr: {stderr:?}",
                other, out.status
            ))
        }
    }
    if reports != expected_reports {
        return Err(format!("{reports} panic reports on stderr, expected {expected_reports}: {stderr:?}"));
    }
    if !stderr.contains(marker(case.origin)) {
        return Err(format!("stderr does not show the original panic {:?}: {stderr:?}", marker(case.origin)));
    }
    Ok(CaseInfo::new(nontrivial(case)).class("exit-101-single-report"))
}

pub fn table() -> Vec<AbortCase> {
    let mut v = vec![];
    for origin in ORIGINS {
        for topology in TOPOLOGIES {
            for unmet in [false, true] {
                for error_recorded_before in [false, true] {
                    if origin == Origin::BodyBeforeCalls && error_recorded_before {
                        continue; // nothing happens before the panic
                    }
                    if origin == Origin::BodyBetweenCalls && error_recorded_before {
                        continue;
                    }
                    if origin == Origin::ByValueDefaultBody
                        && matches!(
                            topology,
                            Topology::InRc
                                | Topology::InArc
                                | Topology::InBox
                                | Topology::HelperCloneAlive
                                | Topology::ValueChainHoldsClone
                                | Topology::CloneDroppedBeforeOriginal
                                | Topology::MockBuiltByDestructor
                                | Topology::MockAndCloneBuiltByDestructor
                        )
                    {
                        continue; // by-value receiver needs the bare original
                    }
                    v.push(AbortCase { origin, topology, unmet, error_recorded_before });
                }
            }
        }
    }
    v
}

pub const RULE: &str = "table = every panic origin {test body before/between/after calls, matcher, answer function, unmock function, default body, by-value default body, argument Debug rendering, return-value Clone, 7 mock-induced error kinds} x every instance topology {original only, clone dropped before / after the original, clone alive on another thread, original behind Rc / Arc / Box, original on a foreign thread, delegation helper alive, value chain holding a clone, call through a clone, a mock (and a mock with a live clone) built and dropped by a destructor during the unwinding, a no_verify_in_drop() original owned by a fixture whose destructor calls verify() / report() on it} x met/unmet expectations x error recorded earlier or not, enumerated exhaustively; run once on a spawned thread inside a crash-isolated worker and once as the main thread of a fresh child process. Non-trivial = teardown would panic if it ran (topology other than original-only, or unmet expectations, or recorded errors); distinct = distinct table cell";

pub fn run(ctx: &Ctx) -> Verdict {
    let mut v = Verdict::new("fault_enumeration", RULE);
    v.explanation = "Worker tier: the thread boundary must see exactly the original panic (message marker), the panic hook must count exactly the expected number of panics, and the worker must survive (a double panic aborts it). Process tier: exit status 101, exactly one 'panicked at' more than the caught earlier ones, the first message is the origin's. Usability after a caught user panic is covered by the model-diff histories of C02/C08 (panicking answers and matchers followed by further calls and count-based verification).".into();
    v.assumptions = vec!["std feature; panic=unwind".into()];
    v.subs.push(super::replay_corpus(ctx));
    let worker = std::cell::RefCell::new(Worker::new("c11"));
    let t = table();
    let mut sub = vcore::run_enumerated(ctx, "table-on-thread", t.clone(), |c| check_via(&worker, c));
    sub.extra.insert("worker_processes_spawned".into(), serde_json::json!(worker.borrow().spawned));
    v.subs.push(sub);
    // process tier: the full table
    let stride = 1usize;
    let offset = (ctx.seed as usize) % stride;
    let cells: Vec<AbortCase> = t.into_iter().enumerate().filter(|(i, _)| i % stride == offset).map(|(_, c)| c).collect();
    let mut sub2 = vcore::run_enumerated(ctx, "table-as-process", cells, check_process);
    sub2.exhaustive = stride == 1;
    v.subs.push(sub2);
    // usability after a caught user panic
    v.subs.push(vcore::run_enumerated(ctx, "usable-after-caught-panic", usable_table(), |c| check_usable(&worker, c)));
    v.subs.push(vcore::run_enumerated(ctx, "caught-panic-in-an-ordered-matcher", ordered_matcher_table(), check_ordered_matcher));
    // mock-induced panics about calls with long / non-ASCII text arguments must stay catchable
    v.subs.push(super::text::sub_report(ctx, super::text::Oracle::NoAbort));
    // random repetition (different interleavings with the keeper thread)
    let n = ctx.tier.pick(10_000, 300_000);
    let tab = table();
    let strat = (0..tab.len()).prop_map(move |i| tab[i]);
    v.subs.push(vcore::run_proptest(ctx, "random-repeat", n, strat, |c| check_via(&worker, c)));
    v
}

// ------------------------------------------------------------------ user panic in the matcher of an ORDERED pattern

/// A user panic raised by the matcher of an ordered (`next_call`) pattern is caught: the call did not match, so the
/// pattern's count must not include it, and verification must report the pattern as unmet.
#[derive(Clone, Copy, Debug, PartialEq, Eq, Hash, Serialize, Deserialize)]
pub struct OrderedMatcherCase {
    /// the pattern expects exactly this many calls (1 or 2); with 2, one good call follows the caught panic
    pub expected: u8,
    pub through_clone: bool,
    pub explicit_verify: bool,
}

pub fn check_ordered_matcher(c: &OrderedMatcherCase) -> Result<CaseInfo, String> {
    ARMED.store(false, Ordering::SeqCst);
    let clause = (
        QMock::q_ord.next_call(&|m| m.func(|_, _| true)).answers(&|_, _| 11),
        QMock::q_om
            .next_call(&|m| {
                m.func(|_, _| {
                    if armed() {
                        panic!("ORIGIN ordered matcher")
                    }
                    true
                })
            })
            .answers(&|_, _| 70)
            .n_times(c.expected as usize),
    );
    let u = Unimock::new(clause);
    let cl = u.clone();
    let via: &Unimock = if c.through_clone { &cl } else { &u };
    let mut run = || -> Result<(), String> {
        match catch(|| via.q_ord(0)) {
            Ok(11) => {}
            other => return Err(format!("HARNESS: first ordered call: {other:?}")),
        }
        ARMED.store(true, Ordering::SeqCst);
        let r = catch(|| via.q_om(1));
        ARMED.store(false, Ordering::SeqCst);
        match r {
            Err(m) if m.contains("ORIGIN ordered matcher") => {}
            other => return Err(format!("HARNESS: the armed ordered matcher did not panic: {other:?}")),
        }
        if c.expected == 2 {
            // the panicking call used up its position in the global sequence; the pattern's range still has one
            match catch(|| via.q_om(2)) {
                Ok(70) => {}
                other => return Err(format!("the mock is not usable after the caught panic: the next q_om call gave {other:?}")),
            }
        }
        Ok(())
    };
    let r = run();
    drop(cl);
    let explicit = c.explicit_verify;
    let verdict = catch(move || if explicit { u.verify() } else { drop(u) });
    r?;
    match verdict {
        Err(msg) if msg.contains("q_om") => Ok(CaseInfo::new(true).class_if(c.through_clone, "through-a-clone").class_if(c.expected == 2, "one-good-call-after-the-panic")),
        Err(msg) => Err(format!("verification fails, but not about the ordered pattern of q_om whose matcher panicked (it matched {} of {} calls): {msg}", c.expected - 1, c.expected)),
        Ok(()) => Err(format!(
            "the ordered pattern of q_om matched {} of {} expected calls (one call ended in a caught user panic inside its matcher), yet verification passed",
            c.expected - 1,
            c.expected
        )),
    }
}

pub fn ordered_matcher_table() -> Vec<OrderedMatcherCase> {
    let mut v = vec![];
    for expected in [1u8, 2] {
        for through_clone in [false, true] {
            for explicit_verify in [false, true] {
                v.push(OrderedMatcherCase { expected, through_clone, explicit_verify });
            }
        }
    }
    v
}

pub fn replay(sub: &str, case: Value) -> Result<(), String> {
    if sub == "text-arguments" {
        return super::text::replay(case, super::text::Oracle::NoAbort);
    }
    if sub == "caught-panic-in-an-ordered-matcher" {
        let c: OrderedMatcherCase = serde_json::from_value(case).map_err(|e| format!("HARNESS: bad case: {e}"))?;
        return check_ordered_matcher(&c).map(|_| ());
    }
    if sub == "usable-after-caught-panic" {
        let c: UsableCase = serde_json::from_value(case).map_err(|e| format!("HARNESS: bad case: {e}"))?;
        let worker = std::cell::RefCell::new(Worker::new("c11"));
        return check_usable(&worker, &c).map(|_| ());
    }
    let c: AbortCase = serde_json::from_value(case).map_err(|e| format!("HARNESS: bad case: {e}"))?;
    if sub == "table-as-process" {
        return check_process(&c).map(|_| ());
    }
    let worker = std::cell::RefCell::new(Worker::new("c11"));
    check_via(&worker, &c).map(|_| ())
}
