//! C09 — only the original instance verifies: once, on its thread, with no clones alive.
//!
//! Lifecycle event sequences are executed in a crash-isolated worker (a second
//! panic during unwinding would abort the process; that must be attributable to
//! the case that caused it) and compared with a lifecycle state-machine model.

use std::process::Termination;

use proptest::collection::vec;
use proptest::prelude::*;
use serde::{Deserialize, Serialize};
use serde_json::Value;
use unimock::{MockFn, Unimock};
use vcore::panics::catch;
use vcore::worker::{Reply, Worker};
use vcore::{CaseInfo, Ctx, Verdict};

use crate::exec::new_mock;
use crate::spec::*;
use crate::traits::{self, A, C};

#[derive(Clone, Copy, Debug, PartialEq, Eq, Hash, Serialize, Deserialize)]
pub enum Ev {
    CloneOf(u8),
    Drop(u8),
    /// matching call to the expected pattern
    Call(u8),
    DropOnThread(u8),
    /// move the instance to another thread, call there, move it back
    CallOnThread(u8),
    Verify(u8),
    Report(u8),
    NoVerifyInDrop(u8),
    /// call a default-bodied method: creates the internal delegation helper clone
    Delegated(u8),
    /// store a clone of instance .1 in the value chain of instance .0 (make_ref)
    MakeRefClone(u8, u8),
    /// caught mock-induced panic (call to an unmentioned method of a strict mock)
    MockPanic(u8),
    /// instance .0 is consumed by a provided by-value method whose body hands `self` on to a required
    /// method of the same receiver kind (.1: 0 = `self`, 1 = sole-owner `Rc<Self>`, 2 = sole-owner
    /// `Arc<Self>`): the instance ends its life inside that call
    Consume(u8, u8),
}

#[unimock::unimock(api=ConsMock)]
pub trait Cons: Sized {
    fn rq_val(self, x: u8) -> u32;
    fn df_val(self, x: u8) -> u32 {
        self.rq_val(x) + 1
    }
    fn rq_rc(self: std::rc::Rc<Self>, x: u8) -> u32;
    fn df_rc(self: std::rc::Rc<Self>, x: u8) -> u32 {
        self.rq_rc(x) + 1
    }
    fn rq_arc(self: std::sync::Arc<Self>, x: u8) -> u32;
    fn df_arc(self: std::sync::Arc<Self>, x: u8) -> u32 {
        self.rq_arc(x) + 1
    }
}

#[derive(Clone, Debug, PartialEq, Eq, Hash, Serialize, Deserialize)]
pub struct LifeCase {
    /// exact expectation of the single pattern A::a0 [P1]
    pub expected_calls: u8,
    pub events: Vec<Ev>,
    /// instances still alive at the end are dropped in ascending (true) or descending index order
    pub drop_ascending: bool,
    /// bit k set: the required by-value method of kind k (see Ev::Consume) is mentioned by a clause
    /// (and must then be called at least once, like every mentioned method)
    #[serde(default)]
    pub consume_kinds: u8,
}

const MAX_INSTS: usize = 6;

// ---------------------------------------------------------------- model

#[derive(Clone, Copy, Debug, PartialEq, Eq, Serialize, Deserialize)]
pub enum Out {
    /// nothing observable (no panic)
    Silent,
    /// event referred to a dead instance: skipped
    Skipped,
    PanicLiveClone,
    PanicThread,
    /// verification failed on recorded errors or counts
    FailVerification,
    /// verify()/no_verify_in_drop() called on a clone
    PanicCloneMisuse,
    ReportSuccess,
    ReportFailure,
    /// a call's return value / expected mock panic
    CallOk,
    CallPanicked,
}

#[derive(Clone, Debug)]
struct MInst {
    alive: bool,
    original: bool,
    verify_in_drop: bool,
    helper: bool,
    chain: usize,
}

struct LModel {
    insts: Vec<MInst>,
    /// all live Unimock objects sharing the state (instances + helpers + chain-held clones)
    live: usize,
    calls: usize,
    errors: usize,
    expected: usize,
    verifications: usize,
    consume_kinds: u8,
    cons_calls: [usize; 3],
}

impl LModel {
    fn new(expected: usize, consume_kinds: u8) -> Self {
        LModel {
            consume_kinds,
            cons_calls: [0; 3],
            insts: vec![MInst { alive: true, original: true, verify_in_drop: true, helper: false, chain: 0 }],
            live: 1,
            calls: 0,
            errors: 0,
            expected,
            verifications: 0,
        }
    }

    fn alive(&self, i: usize) -> bool {
        self.insts.get(i).map(|x| x.alive).unwrap_or(false)
    }

    fn release_owned(&mut self, i: usize) {
        let inst = &mut self.insts[i];
        let n = inst.helper as usize + inst.chain;
        inst.helper = false;
        inst.chain = 0;
        self.live -= n;
    }

    /// teardown of instance i (it stays counted in `live` until it is gone)
    fn teardown(&mut self, i: usize, foreign_thread: bool, report: bool) -> Out {
        self.release_owned(i);
        if !self.insts[i].original {
            return if report { Out::ReportSuccess } else { Out::Silent };
        }
        self.verifications += 1;
        if self.live > 1 {
            return Out::PanicLiveClone;
        }
        if foreign_thread {
            return Out::PanicThread;
        }
        let dead_cons = (0..3).any(|k| (self.consume_kinds >> k) & 1 == 1 && self.cons_calls[k] == 0);
        let failed = self.errors > 0 || self.calls != self.expected || self.calls == 0 || dead_cons;
        match (failed, report) {
            (true, true) => Out::ReportFailure,
            (true, false) => Out::FailVerification,
            (false, true) => Out::ReportSuccess,
            (false, false) => Out::Silent,
        }
    }

    fn gone(&mut self, i: usize) {
        self.release_owned(i);
        self.insts[i].alive = false;
        self.live -= 1;
    }

    fn step(&mut self, ev: Ev) -> Out {
        let idx = |i: u8| i as usize;
        match ev {
            Ev::CloneOf(i) => {
                let i = idx(i);
                if !self.alive(i) || self.insts.len() >= MAX_INSTS {
                    return Out::Skipped;
                }
                let v = self.insts[i].verify_in_drop;
                self.insts.push(MInst { alive: true, original: false, verify_in_drop: v, helper: false, chain: 0 });
                self.live += 1;
                Out::Silent
            }
            Ev::Drop(i) | Ev::DropOnThread(i) => {
                let foreign = matches!(ev, Ev::DropOnThread(_));
                let i = idx(i);
                if !self.alive(i) {
                    return Out::Skipped;
                }
                let out = if self.insts[i].verify_in_drop {
                    self.teardown(i, foreign, false)
                } else {
                    Out::Silent
                };
                self.gone(i);
                out
            }
            Ev::Call(i) | Ev::CallOnThread(i) => {
                if !self.alive(idx(i)) {
                    return Out::Skipped;
                }
                self.calls += 1;
                Out::CallOk
            }
            Ev::MockPanic(i) => {
                if !self.alive(idx(i)) {
                    return Out::Skipped;
                }
                self.errors += 1;
                Out::CallPanicked
            }
            Ev::Delegated(i) => {
                let i = idx(i);
                if !self.alive(i) {
                    return Out::Skipped;
                }
                if !self.insts[i].helper {
                    self.insts[i].helper = true;
                    self.live += 1;
                }
                Out::CallOk
            }
            Ev::MakeRefClone(i, j) => {
                let (i, j) = (idx(i), idx(j));
                if !self.alive(i) || !self.alive(j) {
                    return Out::Skipped;
                }
                self.insts[i].chain += 1;
                self.live += 1;
                Out::Silent
            }
            Ev::Verify(i) => {
                let i = idx(i);
                if !self.alive(i) {
                    return Out::Skipped;
                }
                let out = if !self.insts[i].original {
                    Out::PanicCloneMisuse
                } else {
                    self.teardown(i, false, false)
                };
                self.gone(i);
                out
            }
            Ev::Report(i) => {
                let i = idx(i);
                if !self.alive(i) || !self.insts[i].original {
                    // report() on a clone is not covered by the property
                    return Out::Skipped;
                }
                let out = self.teardown(i, false, true);
                self.gone(i);
                out
            }
            Ev::NoVerifyInDrop(i) => {
                let i = idx(i);
                if !self.alive(i) {
                    return Out::Skipped;
                }
                if !self.insts[i].original {
                    self.gone(i);
                    Out::PanicCloneMisuse
                } else {
                    self.insts[i].verify_in_drop = false;
                    Out::Silent
                }
            }
            Ev::Consume(i, k) => {
                let (i, k) = (idx(i), k as usize % 3);
                if !self.alive(i) || (self.consume_kinds >> k) & 1 == 0 {
                    return Out::Skipped;
                }
                // the body runs (required method counted), then the instance is dropped inside the call
                self.cons_calls[k] += 1;
                let out = if self.insts[i].verify_in_drop { self.teardown(i, false, false) } else { Out::Silent };
                self.gone(i);
                if out == Out::Silent {
                    Out::CallOk
                } else {
                    out
                }
            }
        }
    }
}

// ---------------------------------------------------------------- real execution

fn clauses(expected: u8) -> Vec<ClauseSpec> {
    vec![ClauseSpec::Single {
        method: 0,
        entry: Entry::Each,
        pat: PatternSpec {
            id: 1,
            mask: 0xff,
            matcher: MatcherKind::FuncDebug,
            chain: vec![Seg { resp: Resp::Answers, quant: Quant::NTimes(expected) }],
        },
    }]
}

fn classify_panic(msg: &str) -> Out {
    if msg.contains("[P1]") || msg.contains("A::a1") || msg.contains("A::a0") || msg.contains("Cons::rq_") {
        Out::FailVerification
    } else if msg.contains("on a cloned instance") {
        Out::PanicCloneMisuse
    } else if msg.contains("clones still alive") {
        Out::PanicLiveClone
    } else if msg.contains("different thread") {
        Out::PanicThread
    } else {
        // unknown wording: still a panic; mapped by `same` below
        Out::FailVerification
    }
}

fn unit_or_panic(r: Result<(), String>) -> (Out, Option<String>) {
    match r {
        Ok(()) => (Out::Silent, None),
        Err(m) => (classify_panic(&m), Some(m)),
    }
}

pub struct RealLife {
    insts: Vec<Option<Unimock>>,
    consume_kinds: u8,
}

impl RealLife {
    fn new(expected: u8, consume_kinds: u8) -> Self {
        let u = if consume_kinds & 7 == 0 {
            new_mock(false, &clauses(expected)).expect("HARNESS: lifecycle mock must construct")
        } else {
            let mut dc = unimock::verif::DynClause::new();
            dc.push(crate::build::build_clauses(&clauses(expected)));
            if consume_kinds & 1 != 0 {
                dc.push(ConsMock::rq_val.each_call(&|m| m.func(|_, _| true)).answers(&|_, x| x as u32 + 100));
            }
            if consume_kinds & 2 != 0 {
                dc.push(ConsMock::rq_rc.each_call(&|m| m.func(|_, _| true)).answers(&|_, x| x as u32 + 100));
            }
            if consume_kinds & 4 != 0 {
                dc.push(ConsMock::rq_arc.each_call(&|m| m.func(|_, _| true)).answers(&|_, x| x as u32 + 100));
            }
            Unimock::new(dc)
        };
        RealLife { insts: vec![Some(u)], consume_kinds }
    }

    fn alive(&self, i: usize) -> bool {
        self.insts.get(i).map(|x| x.is_some()).unwrap_or(false)
    }

    fn step(&mut self, ev: Ev) -> (Out, Option<String>) {
        let idx = |i: u8| i as usize;
        match ev {
            Ev::CloneOf(i) => {
                let i = idx(i);
                if !self.alive(i) || self.insts.len() >= MAX_INSTS {
                    return (Out::Skipped, None);
                }
                let c = self.insts[i].as_ref().unwrap().clone();
                self.insts.push(Some(c));
                (Out::Silent, None)
            }
            Ev::Drop(i) => {
                let i = idx(i);
                if !self.alive(i) {
                    return (Out::Skipped, None);
                }
                let u = self.insts[i].take().unwrap();
                unit_or_panic(catch(move || drop(u)))
            }
            Ev::DropOnThread(i) => {
                let i = idx(i);
                if !self.alive(i) {
                    return (Out::Skipped, None);
                }
                let u = self.insts[i].take().unwrap();
                let r = std::thread::spawn(move || catch(move || drop(u)))
                    .join()
                    .unwrap_or_else(|p| Err(vcore::panics::payload_to_string(p)));
                unit_or_panic(r)
            }
            Ev::Call(i) => {
                let i = idx(i);
                if !self.alive(i) {
                    return (Out::Skipped, None);
                }
                let u = self.insts[i].as_ref().unwrap();
                match catch(|| u.a0(3)) {
                    Ok(_) => (Out::CallOk, None),
                    Err(m) => (Out::CallPanicked, Some(m)),
                }
            }
            Ev::CallOnThread(i) => {
                let i = idx(i);
                if !self.alive(i) {
                    return (Out::Skipped, None);
                }
                let u = self.insts[i].take().unwrap();
                let (u, r) = std::thread::spawn(move || {
                    let r = catch(|| u.a0(4));
                    (u, r)
                })
                .join()
                .expect("HARNESS: thread");
                self.insts[i] = Some(u);
                match r {
                    Ok(_) => (Out::CallOk, None),
                    Err(m) => (Out::CallPanicked, Some(m)),
                }
            }
            Ev::MockPanic(i) => {
                let i = idx(i);
                if !self.alive(i) {
                    return (Out::Skipped, None);
                }
                let u = self.insts[i].as_ref().unwrap();
                match catch(|| u.a1(1)) {
                    Ok(_) => (Out::CallOk, None),
                    Err(m) => (Out::CallPanicked, Some(m)),
                }
            }
            Ev::Delegated(i) => {
                let i = idx(i);
                if !self.alive(i) {
                    return (Out::Skipped, None);
                }
                let u = self.insts[i].as_ref().unwrap();
                let r = catch(|| u.c0(2));
                let _ = traits::take_log();
                match r {
                    Ok(_) => (Out::CallOk, None),
                    Err(m) => (Out::CallPanicked, Some(m)),
                }
            }
            Ev::MakeRefClone(i, j) => {
                let (i, j) = (idx(i), idx(j));
                if !self.alive(i) || !self.alive(j) {
                    return (Out::Skipped, None);
                }
                let c = self.insts[j].as_ref().unwrap().clone();
                let _r: &Unimock = self.insts[i].as_ref().unwrap().make_ref(c);
                (Out::Silent, None)
            }
            Ev::Verify(i) => {
                let i = idx(i);
                if !self.alive(i) {
                    return (Out::Skipped, None);
                }
                let u = self.insts[i].take().unwrap();
                unit_or_panic(catch(move || u.verify()))
            }
            Ev::Report(i) => {
                let i = idx(i);
                // model skips report() on clones: mirror that (index 0 is the only original)
                if !self.alive(i) || i != 0 {
                    return (Out::Skipped, None);
                }
                let u = self.insts[i].take().unwrap();
                match catch(move || u.report()) {
                    Ok(code) => {
                        if format!("{code:?}") == format!("{:?}", std::process::ExitCode::SUCCESS) {
                            (Out::ReportSuccess, None)
                        } else {
                            (Out::ReportFailure, None)
                        }
                    }
                    Err(m) => (classify_panic(&m), Some(m)),
                }
            }
            Ev::Consume(i, k) => {
                let (i, k) = (idx(i), k as usize % 3);
                if !self.alive(i) || (self.consume_kinds >> k) & 1 == 0 {
                    return (Out::Skipped, None);
                }
                let u = self.insts[i].take().unwrap();
                let r = match k {
                    0 => catch(move || u.df_val(5)),
                    1 => catch(move || std::rc::Rc::new(u).df_rc(5)),
                    _ => catch(move || std::sync::Arc::new(u).df_arc(5)),
                };
                match r {
                    Ok(106) => (Out::CallOk, None),
                    Ok(v) => (Out::CallPanicked, Some(format!("the by-value default method returned {v}, its body computes 106"))),
                    Err(m) => (classify_panic(&m), Some(m)),
                }
            }
            Ev::NoVerifyInDrop(i) => {
                let i = idx(i);
                if !self.alive(i) {
                    return (Out::Skipped, None);
                }
                let u = self.insts[i].take().unwrap();
                match catch(move || u.no_verify_in_drop()) {
                    Ok(u) => {
                        self.insts[i] = Some(u);
                        (Out::Silent, None)
                    }
                    Err(m) => (classify_panic(&m), Some(m)),
                }
            }
        }
    }
}

/// Coarse comparison: the property fixes *whether* each step panics / which exit code;
/// among panics only "verification named the unmet expectation" is demanded.
fn same(expected: Out, observed: Out, msg: &Option<String>) -> bool {
    let is_panic = |o: Out| {
        matches!(o, Out::PanicLiveClone | Out::PanicThread | Out::FailVerification | Out::PanicCloneMisuse | Out::CallPanicked)
    };
    if is_panic(expected) != is_panic(observed) {
        return false;
    }
    if !is_panic(expected) {
        return expected == observed;
    }
    if expected == Out::CallPanicked || observed == Out::CallPanicked {
        return expected == observed;
    }
    // both are lifecycle panics; if the wording is recognisable, the class must agree
    let recognised = msg
        .as_deref()
        .map(|m| {
            m.contains("on a cloned instance") || m.contains("clones still alive") || m.contains("different thread")
        })
        .unwrap_or(false);
    if recognised || observed == Out::FailVerification && msg.as_deref().map(|m| m.contains("A::a")).unwrap_or(false) {
        expected == observed
    } else {
        true
    }
}

/// Generated events carry selectors; map them onto the instances alive right now
/// (selector -> k-th alive instance, monotone so that shrinking moves towards the original).
fn resolve(ev: Ev, model: &LModel) -> Ev {
    let alive: Vec<u8> = (0..model.insts.len() as u8).filter(|i| model.alive(*i as usize)).collect();
    if alive.is_empty() {
        return ev;
    }
    let m = |sel: u8| alive[(sel as usize * alive.len()) >> 8];
    match ev {
        Ev::CloneOf(s) => Ev::CloneOf(m(s)),
        Ev::Drop(s) => Ev::Drop(m(s)),
        Ev::Call(s) => Ev::Call(m(s)),
        Ev::DropOnThread(s) => Ev::DropOnThread(m(s)),
        Ev::CallOnThread(s) => Ev::CallOnThread(m(s)),
        Ev::Verify(s) => Ev::Verify(m(s)),
        Ev::Report(_) => Ev::Report(0),
        Ev::NoVerifyInDrop(s) => Ev::NoVerifyInDrop(m(s)),
        Ev::Delegated(s) => Ev::Delegated(m(s)),
        Ev::MakeRefClone(a, b) => Ev::MakeRefClone(m(a), m(b)),
        Ev::MockPanic(s) => Ev::MockPanic(m(s)),
        Ev::Consume(s, k) => Ev::Consume(m(s), k % 3),
    }
}

pub fn full_events(case: &LifeCase) -> Vec<Ev> {
    let mut evs = case.events.clone();
    let order: Vec<u8> = if case.drop_ascending {
        (0..MAX_INSTS as u8).collect()
    } else {
        (0..MAX_INSTS as u8).rev().collect()
    };
    for i in order {
        evs.push(Ev::Drop(i));
    }
    evs
}

#[derive(Serialize, Deserialize, Debug)]
pub struct WorkerReply {
    pub ok: bool,
    pub reason: String,
    pub nontrivial: bool,
    pub classes: Vec<String>,
}

/// Executed inside the worker process.
pub fn execute(case: &LifeCase) -> WorkerReply {
    let mut model = LModel::new(case.expected_calls as usize, case.consume_kinds);
    let mut real = RealLife::new(case.expected_calls, case.consume_kinds);
    let mut classes: std::collections::BTreeSet<String> = Default::default();
    let mut clone_of_clone = false;
    let mut held = false;
    let mut consumed = false;
    let n_generated = case.events.len();
    for (k, ev) in full_events(case).into_iter().enumerate() {
        let ev = if k < n_generated { resolve(ev, &model) } else { ev };
        let pre_original_alive = model.alive(0);
        let exp = model.step(ev);
        let (obs, msg) = real.step(ev);
        if !same(exp, obs, &msg) {
            return WorkerReply {
                ok: false,
                reason: format!("event #{k} {ev:?}: expected {exp:?}, observed {obs:?} (message {msg:?})"),
                nontrivial: false,
                classes: vec![],
            };
        }
        if exp != Out::Skipped {
            match ev {
                Ev::CloneOf(i) if i != 0 => clone_of_clone = true,
                Ev::Delegated(_) | Ev::MakeRefClone(..) => held = true,
                Ev::Verify(_) | Ev::Report(_) | Ev::DropOnThread(_) | Ev::CallOnThread(_) => consumed = true,
                Ev::Consume(i, _) => {
                    consumed = true;
                    classes.insert(if i == 0 { "original-consumed-by-a-by-value-default-method".to_string() } else { "clone-consumed-by-a-by-value-default-method".to_string() });
                }
                _ => {}
            }
            if pre_original_alive && !model.alive(0) {
                classes.insert(format!("original-ends-with-{exp:?}"));
            }
            if matches!(exp, Out::PanicCloneMisuse) {
                classes.insert("clone-misuse-panics".into());
            }
        }
    }
    if model.verifications > 1 {
        return WorkerReply { ok: false, reason: "HARNESS: model verified twice".into(), nontrivial: false, classes: vec![] };
    }
    WorkerReply {
        ok: true,
        reason: String::new(),
        nontrivial: (clone_of_clone || held) && consumed,
        classes: classes.into_iter().collect(),
    }
}

pub fn worker_main() {
    vcore::worker::serve(|line| {
        let case: LifeCase = match serde_json::from_str(line) {
            Ok(c) => c,
            Err(e) => {
                return serde_json::to_string(&WorkerReply {
                    ok: false,
                    reason: format!("HARNESS: bad case {e}"),
                    nontrivial: false,
                    classes: vec![],
                })
                .unwrap()
            }
        };
        let reply = match catch(|| execute(&case)) {
            Ok(r) => r,
            Err(p) => WorkerReply { ok: false, reason: format!("HARNESS-PANIC in worker: {p}"), nontrivial: false, classes: vec![] },
        };
        serde_json::to_string(&reply).unwrap()
    });
}

pub fn check_via(worker: &std::cell::RefCell<Worker>, case: &LifeCase) -> Result<CaseInfo, String> {
    let json = serde_json::to_string(case).unwrap();
    match worker.borrow_mut().run(&json) {
        Reply::Crash(status) => Err(format!(
            "the process died while executing the lifecycle sequence ({status}): a second panic during unwinding?"
        )),
        Reply::Line(l) => {
            let r: WorkerReply = serde_json::from_str(&l).map_err(|e| format!("HARNESS: bad worker reply {e}: {l}"))?;
            if r.ok {
                let mut ci = CaseInfo::new(r.nontrivial);
                ci.classes = r.classes.iter().map(|c| super::leak_class(c)).collect();
                Ok(ci)
            } else if r.reason.starts_with("HARNESS") {
                panic!("{}", r.reason)
            } else {
                Err(r.reason)
            }
        }
    }
}

pub fn ev_strategy() -> impl Strategy<Value = Ev> {
    let i = any::<u8>();
    prop_oneof![
        5 => i.clone().prop_map(Ev::CloneOf),
        3 => i.clone().prop_map(Ev::Drop),
        5 => i.clone().prop_map(Ev::Call),
        1 => i.clone().prop_map(Ev::DropOnThread),
        1 => i.clone().prop_map(Ev::CallOnThread),
        1 => i.clone().prop_map(Ev::Verify),
        1 => Just(Ev::Report(0)),
        1 => i.clone().prop_map(Ev::NoVerifyInDrop),
        2 => i.clone().prop_map(Ev::Delegated),
        2 => (i.clone(), i.clone()).prop_map(|(a, b)| Ev::MakeRefClone(a, b)),
        1 => i.clone().prop_map(Ev::MockPanic),
        2 => (i, 0..3u8).prop_map(|(a, k)| Ev::Consume(a, k)),
    ]
}

pub fn case_strategy() -> impl Strategy<Value = LifeCase> {
    (0..=3u8, vec(ev_strategy(), 0..=16), any::<bool>(), prop_oneof![1 => Just(0u8), 2 => 0..8u8]).prop_map(
        |(expected_calls, events, drop_ascending, consume_kinds)| LifeCase { expected_calls, events, drop_ascending, consume_kinds },
    )
}

pub const RULE: &str = "cases = sequences of up to 16 lifecycle events over a table of up to 6 instances sharing one state (clone of original or of a clone, drop, matching call, drop on another thread, call on another thread, verify(), report(), no_verify_in_drop(), delegated default-method call creating the helper clone, make_ref holding a clone, caught mock-induced panic, consumption by a provided by-value / sole-owner Rc / sole-owner Arc method whose body hands self on to a required method), expectation exactly 0..3 calls, remaining instances dropped in ascending or descending order; every step's outcome (silent / panic class / exit code) is compared with a lifecycle state-machine model. Non-trivial = the sequence has a clone-of-clone or a helper/value-chain-held clone, and a verify/report/thread move; distinct = distinct sequence";

pub fn run(ctx: &Ctx) -> Verdict {
    let mut v = Verdict::new("exploration", RULE);
    v.explanation = "Each sequence runs in a crash-isolated worker process so that a double panic (process abort) is attributed to its sequence. Compared per step: does it panic, with which class (clone misuse / live clone / foreign thread / failed verification naming the pattern), and report()'s exit code; verification by the model happens at most once per sequence.".into();
    v.assumptions = vec![
        "panic classes are recognised by the documented phrases; an unrecognised wording is only compared as panic / no panic".into(),
        "report() on a clone is outside the property and not generated".into(),
    ];
    v.subs.push(super::replay_corpus(ctx));
    let worker = std::cell::RefCell::new(Worker::new("c09"));
    let n = ctx.tier.pick(150_000, 4_000_000);
    let mut sub = vcore::run_proptest(ctx, "lifecycle", n, case_strategy(), |c| check_via(&worker, c));
    sub.extra.insert("worker_processes_spawned".into(), serde_json::json!(worker.borrow().spawned));
    v.subs.push(sub);
    v
}

pub fn replay(_sub: &str, case: Value) -> Result<(), String> {
    let case: LifeCase = serde_json::from_value(case).map_err(|e| format!("HARNESS: bad case: {e}"))?;
    let worker = std::cell::RefCell::new(Worker::new("c09"));
    check_via(&worker, &case).map(|_| ())
}
