//! C08 — a mock-induced panic anywhere makes final verification fail with that error.

use proptest::collection::vec;
use proptest::prelude::*;
use serde::{Deserialize, Serialize};
use serde_json::Value;
use unimock::Unimock;
use vcore::panics::{catch, payload_to_string};
use vcore::{CaseInfo, Ctx, Verdict};

use crate::exec::{compare_run, new_mock, verify_original, CompareOpts, Obs, RealRun, VerifyObs};
use crate::gen::{self, Cfg};
use crate::model::Verdict as MV;
use crate::spec::*;
use crate::traits::{self, FACTS};

pub fn cfg() -> Cfg {
    let mut cfg = Cfg::base();
    cfg.methods = vec![0, 1, 2, 3, 4, 5, 6, 7];
    cfg.p_unordered = 110;
    cfg.p_ordered = 60;
    cfg.resps = vec![
        Resp::Returns,
        Resp::Answers,
        Resp::Panics,
        Resp::Unmocked,
        Resp::DefaultImpl,
        Resp::AnswersUserPanic,
        Resp::ReturnsDefault,
        Resp::AnswersArc,
    ];
    cfg.matchers = vec![
        MatcherKind::FuncDebug,
        MatcherKind::FuncDebug,
        MatcherKind::FuncDebug,
        MatcherKind::Func,
        MatcherKind::FuncDebug,
        MatcherKind::FuncDebug,
        MatcherKind::NoFunc,
        MatcherKind::FuncUserPanic,
    ];
    cfg.max_clauses = 6;
    cfg.max_stub_pats = 3;
    cfg.max_chain = 3;
    cfg.max_n = 2;
    cfg.max_history = 20;
    cfg.guide = 120;
    cfg.prefer_match = 90;
    cfg.allow_empty_stub_chain = true;
    cfg.stop_at_deviation = false;
    cfg.verify_modes = vec![VerifyMode::Drop, VerifyMode::Verify, VerifyMode::Drop, VerifyMode::Report, VerifyMode::ExplicitVerify, VerifyMode::ExplicitReport];
    cfg
}

#[derive(Clone, Debug, Hash, Serialize, Deserialize)]
pub struct ThreadedCase {
    pub scn: Scenario,
    /// per call: 0 = on the creator thread under catch_unwind, 1 = on a spawned thread under
    /// catch_unwind, 2 = on a spawned thread, panic propagated to the thread boundary (join)
    pub plan: Vec<u8>,
}

/// Like exec::run_real, but calls made through clones may run on other threads.
pub fn run_real_threaded(case: &ThreadedCase) -> (RealRun, usize, usize) {
    let scn = &case.scn;
    let _ = traits::take_log();
    let original = match new_mock(scn.partial, &scn.clauses) {
        Ok(u) => u,
        Err(msg) => {
            return (
                RealRun { construct_error: Some(msg), calls: vec![], clone_drop_panics: vec![], verify: None },
                0,
                0,
            )
        }
    };
    let mut insts: Vec<Unimock> = vec![original];
    for _ in 0..scn.clones {
        let c = insts[0].clone();
        insts.push(c);
    }
    let mut calls = vec![];
    let (mut on_thread, mut propagated) = (0, 0);
    for (k, call) in scn.history.iter().enumerate() {
        let i = call.via as usize % insts.len();
        let mode = if i == 0 { 0 } else { case.plan.get(k).copied().unwrap_or(0) % 3 };
        let (method, arg) = (call.method, call.arg);
        match mode {
            0 => {
                let inst = &mut insts[i];
                let r = catch(|| traits::call(inst, method, arg));
                calls.push((Obs::from_result(r), traits::take_log()));
            }
            1 => {
                on_thread += 1;
                let mut clone = insts.swap_remove(i);
                let (clone, r, log) = std::thread::spawn(move || {
                    let r = catch(|| traits::call(&mut clone, method, arg));
                    (clone, r, traits::take_log())
                })
                .join()
                .expect("HARNESS: thread");
                insts.push(clone);
                let last = insts.len() - 1;
                insts.swap(i, last);
                calls.push((Obs::from_result(r), log));
            }
            _ => {
                on_thread += 1;
                let mut clone = insts.swap_remove(i);
                let joined = std::thread::spawn(move || {
                    let v = traits::call(&mut clone, method, arg);
                    (clone, v, traits::take_log())
                })
                .join();
                match joined {
                    Ok((clone, v, log)) => {
                        insts.push(clone);
                        let last = insts.len() - 1;
                        insts.swap(i, last);
                        calls.push((Obs::Value(v), log));
                    }
                    Err(payload) => {
                        propagated += 1;
                        // the clone was dropped while its thread was unwinding; make a new one
                        let fresh = insts[0].clone();
                        insts.push(fresh);
                        let last = insts.len() - 1;
                        insts.swap(i, last);
                        calls.push((Obs::from_result(Err(payload_to_string(payload))), vec![]));
                    }
                }
            }
        }
    }
    let mut clone_drop_panics = vec![];
    while insts.len() > 1 {
        let c = insts.pop().unwrap();
        if let Err(m) = catch(move || drop(c)) {
            clone_drop_panics.push(m);
        }
    }
    let original = insts.pop().unwrap();
    let verify = verify_original(original, scn.verify);
    (
        RealRun { construct_error: None, calls, clone_drop_panics, verify: Some(verify) },
        on_thread,
        propagated,
    )
}

fn kind_class(text: &str) -> &'static str {
    if text.contains("No mock implementation found") {
        "err:no-mock-implementation"
    } else if text.contains("No function supplied for matching") {
        "err:no-matcher-function"
    } else if text.contains("No matching call patterns") {
        "err:no-matching-call-patterns"
    } else if text.contains("No output available") {
        "err:no-output-available"
    } else if text.contains("wrong order") {
        "err:order-wrong-method"
    } else if text.contains("out of range") {
        "err:order-out-of-range"
    } else if text.contains("inputs didn't match") {
        "err:order-inputs-not-matched"
    } else if text.contains("more than once") {
        "err:cannot-return-twice"
    } else if text.contains("Explicit panic") {
        "err:explicit-panic"
    } else if text.contains("cannot be unmocked") {
        "err:cannot-unmock"
    } else if text.contains("default implementation delegation") {
        "err:no-default-impl"
    } else {
        "err:other-wording"
    }
}

pub fn check(case: &ThreadedCase) -> Result<CaseInfo, String> {
    let (real, on_thread, propagated) = run_real_threaded(case);
    // side effects of propagated panics cannot be collected: a panicking call has none anyway
    match compare_run(&case.scn, real, CompareOpts::default())? {
        None => Ok(CaseInfo::new(false).class("construct-error")),
        Some(cmp) => {
            let n_err = cmp.mock_panic_texts.len();
            let user = cmp.calls.iter().filter(|t| matches!(t.observed, Obs::UserPanic(_))).count();
            // direct statement of the property, independent of the model:
            if n_err > 0 {
                match &cmp.verify {
                    VerifyObs::Silent | VerifyObs::ReportSuccess => {
                        return Err(format!("verification passed although {n_err} mock-induced panics occurred"))
                    }
                    VerifyObs::Panic(msg) => crate::exec::check_contains_all(msg, &cmp.mock_panic_texts)?,
                    VerifyObs::ReportFailure => {}
                }
            }
            let first_err = cmp.calls.iter().position(|t| matches!(t.observed, Obs::MockPanic(_)));
            let later_ok = first_err
                .map(|p| cmp.calls[p + 1..].iter().any(|t| matches!(t.observed, Obs::Value(_))))
                .unwrap_or(false);
            let mut ci = CaseInfo::new(n_err >= 2 || (n_err >= 1 && (on_thread > 0 || later_ok)))
                .class_if(n_err == 0 && user > 0, "negative-control:only-user-panics")
                .class_if(n_err == 0 && user == 0, "no-panic-at-all")
                .class_if(n_err >= 2, "two-or-more-errors")
                .class_if(propagated > 0, "panic-propagated-to-thread-boundary")
                .class_if(on_thread > 0, "calls-on-other-threads")
                .class_if(matches!(cmp.model_verdict, MV::RecordedErrors(_)), "verdict-recorded-errors");
            let mut kinds: std::collections::BTreeSet<&'static str> = Default::default();
            for t in &cmp.mock_panic_texts {
                kinds.insert(kind_class(t));
            }
            ci.classes.extend(kinds);
            Ok(ci)
        }
    }
}

/// Several threads induce errors concurrently through clones; every text must be forwarded.
#[derive(Clone, Debug, Hash, Serialize, Deserialize)]
pub struct ConcurrentCase {
    pub threads: u8,
    pub per_thread: u8,
    pub salt: u8,
}

pub fn check_concurrent(case: &ConcurrentCase) -> Result<CaseInfo, String> {
    // A::a0 is mentioned with a pattern accepting only arg 7; every other call errs (strict).
    let clauses = vec![ClauseSpec::Single {
        method: 0,
        entry: Entry::Each,
        pat: PatternSpec {
            id: 3,
            mask: 1 << 7,
            matcher: MatcherKind::FuncDebug,
            chain: vec![Seg { resp: Resp::Answers, quant: Quant::None }],
        },
    }];
    let original = new_mock(false, &clauses).map_err(|e| format!("HARNESS: {e}"))?;
    let barrier = std::sync::Arc::new(std::sync::Barrier::new(case.threads as usize));
    let mut handles = vec![];
    for t in 0..case.threads {
        let clone = original.clone();
        let barrier = barrier.clone();
        let per = case.per_thread;
        let salt = case.salt;
        handles.push(std::thread::spawn(move || {
            let mut clone = clone;
            let mut texts = vec![];
            barrier.wait();
            for k in 0..per {
                // alternate between error kinds: unmatched args of a0 (0..7) and unmentioned a1
                let (m, a) = if k.wrapping_add(t).wrapping_add(salt) % 2 == 0 { (0u8, (k + t) % 7) } else { (1u8, (k * 3 + t) % 8) };
                if let Err(text) = catch(|| traits::call(&mut clone, m, a)) {
                    texts.push(text);
                }
            }
            drop(clone);
            texts
        }));
    }
    let mut texts = vec![];
    for h in handles {
        match h.join() {
            Ok(t) => texts.extend(t),
            Err(p) => {
                let _ = catch(move || drop(original));
                return Err(format!("HARNESS: thread panicked: {}", payload_to_string(p)));
            }
        }
    }
    let expected = case.threads as usize * case.per_thread as usize;
    if texts.len() != expected {
        let _ = catch(move || drop(original));
        return Err(format!("{} of {expected} erroneous calls did not panic", expected - texts.len()));
    }
    match verify_original(original, VerifyMode::Drop) {
        VerifyObs::Panic(msg) => crate::exec::check_contains_all(&msg, &texts)?,
        other => return Err(format!("verification did not fail after {expected} concurrent mock-induced panics: {other:?}")),
    }
    let _ = FACTS.len();
    Ok(CaseInfo::new(case.threads >= 2 && case.per_thread >= 2).class("concurrent-errors"))
}

pub const RULE: &str = "histories = generated strict/partial mocks (unordered and ordered patterns, all response kinds incl. panics(), applies_unmocked/applies_default_impl on methods lacking them, stub patterns without response, matchers without function, single-use values) with histories of up to 20 calls that continue after errors; each call through a clone runs on the creator thread under catch_unwind, on a spawned thread under catch_unwind, or on a spawned thread with the panic propagated to join(); verification through drop / verify() / report(). Panicking answer functions and matchers are the negative controls. concurrent = 2-8 threads x 1-12 erroneous calls through clones, started behind a barrier. Non-trivial = >= 2 mock-induced errors, or an error on another thread, or an error followed by successful calls; distinct = distinct case";

pub fn run(ctx: &Ctx) -> Verdict {
    let mut v = Verdict::new("fault_enumeration", RULE);
    v.explanation = "Invariant over the history: if any mock-induced panic occurred, verifying the original fails and its message contains the exact text of every one of them (multiset inclusion); with only user panics the verdict equals the model's count-based verdict. Every error kind reachable through the public API is injected (class counters list them).".into();
    v.assumptions = vec![
        "panics are classified as user panics by the harness' own marker text; everything else raised during a mocked call is mock-induced".into(),
        "std build; the no_std variant (errors through clones only) is not run in this tier".into(),
    ];
    v.subs.push(super::replay_corpus(ctx));
    let n = ctx.tier.pick(60_000, 1_500_000);
    let strat = (gen::scenario(cfg()), vec(0..3u8, 20)).prop_map(|(scn, plan)| ThreadedCase { scn, plan });
    v.subs.push(vcore::run_proptest(ctx, "histories", n, strat, check));
    let n2 = ctx.tier.pick(600, 15_000);
    let conc = (2..=8u8, 1..=12u8, any::<u8>()).prop_map(|(threads, per_thread, salt)| ConcurrentCase { threads, per_thread, salt });
    v.subs.push(vcore::run_proptest(ctx, "concurrent", n2, conc, check_concurrent));
    // errors racing for the shared error list under every interleaving (E3 scheduler)
    for mut s in super::c10::run_kinds(ctx, &[(2, 1), (2, 2), (3, 1)], &[super::c10::Kind::AllErrors]) {
        let renamed = format!("scheduled-{}", s.name);
        s.rename(renamed);
        v.subs.push(s);
    }
    // errors about calls with arbitrary Unicode text arguments must be recorded like any other
    v.subs.push(super::text::sub_report(ctx, super::text::Oracle::Recorded));
    if ctx.tier == vcore::Tier::Thorough {
        v.subs.push(super::fuzz_campaign(ctx, 1_500_000));
    }
    v
}

pub fn replay(sub: &str, case: Value) -> Result<(), String> {
    if sub.starts_with("scheduled") {
        return super::c10::replay(sub, case);
    }
    if sub == "text-arguments" {
        return super::text::replay(case, super::text::Oracle::Recorded);
    }
    if sub == "fuzz" {
        let scn: Scenario = serde_json::from_value(case).map_err(|e| format!("HARNESS: bad case: {e}"))?;
        return check(&ThreadedCase { scn, plan: vec![] }).map(|_| ());
    }
    if sub == "concurrent" {
        let c: ConcurrentCase = serde_json::from_value(case).map_err(|e| format!("HARNESS: bad case: {e}"))?;
        return check_concurrent(&c).map(|_| ());
    }
    let c: ThreadedCase = serde_json::from_value(case).map_err(|e| format!("HARNESS: bad case: {e}"))?;
    check(&c).map(|_| ())
}
