//! C18 — behaviour depends only on clauses and call history, not on incidental layout.
//! Metamorphic: two real runs are compared with each other; no model is involved
//! (except for the generic-instantiation sub-check, which reuses the C01 model-diff).

use proptest::collection::vec;
use proptest::prelude::*;
use serde::{Deserialize, Serialize};
use serde_json::Value;
use vcore::{CaseInfo, Ctx, Verdict};

use crate::exec::{new_mock, run_real, verify_original, Obs, VerifyObs};
use crate::gen::{self, Cfg};
use crate::spec::*;
use crate::traits;

#[derive(Clone, Debug, PartialEq, Eq)]
pub enum ObsKind {
    Value(u32),
    MockPanic,
    UserPanic,
}

fn kind(o: &Obs) -> ObsKind {
    match o {
        Obs::Value(v) => ObsKind::Value(*v),
        Obs::MockPanic(_) => ObsKind::MockPanic,
        Obs::UserPanic(_) => ObsKind::UserPanic,
    }
}

fn verdict_lines(v: &VerifyObs) -> (bool, Vec<String>) {
    match v {
        VerifyObs::Silent | VerifyObs::ReportSuccess => (false, vec![]),
        VerifyObs::ReportFailure => (true, vec![]),
        VerifyObs::Panic(m) => {
            let mut l: Vec<String> = m.lines().map(|s| s.to_string()).collect();
            l.sort();
            (true, l)
        }
    }
}

pub fn observe(scn: &Scenario) -> Result<(Vec<ObsKind>, (bool, Vec<String>)), String> {
    let r = run_real(scn);
    if let Some(e) = r.construct_error {
        return Err(format!("construct:{e}"));
    }
    if !r.clone_drop_panics.is_empty() {
        return Err(format!("clone-drop-panic:{}", r.clone_drop_panics[0]));
    }
    Ok((
        r.calls.iter().map(|(o, _)| kind(o)).collect(),
        verdict_lines(r.verify.as_ref().unwrap()),
    ))
}

pub fn cfg() -> Cfg {
    let mut cfg = Cfg::base();
    cfg.methods = vec![0, 1, 2, 4, 5, 6, 8, 9, 10, 11];
    cfg.p_unordered = 110;
    cfg.p_ordered = 60;
    cfg.resps = vec![
        Resp::Returns,
        Resp::Answers,
        Resp::AnswersArc,
        Resp::ReturnsDefault,
        Resp::Answers,
        Resp::Unmocked,
        Resp::DefaultImpl,
        Resp::Panics,
    ];
    cfg.matchers = vec![MatcherKind::FuncDebug, MatcherKind::FuncDebug, MatcherKind::Func, MatcherKind::Macro(0)];
    cfg.max_clauses = 8;
    cfg.max_stub_pats = 3;
    cfg.max_chain = 3;
    cfg.max_history = 24;
    cfg.guide = 150;
    cfg.prefer_match = 80;
    cfg.stop_at_deviation = false;
    cfg.verify_modes = vec![VerifyMode::Drop, VerifyMode::Verify, VerifyMode::ExplicitVerify, VerifyMode::Report, VerifyMode::ExplicitReport];
    cfg
}

/// R1: permutation of clauses that keeps each unordered method's own clause order and the
/// relative order of all ordered clauses.
pub fn permute(clauses: &[ClauseSpec], keys: &[u8]) -> Vec<ClauseSpec> {
    // group label: ordered clauses share one group, unordered are grouped per method
    let label = |c: &ClauseSpec| if c.ordered() { 255u8 } else { c.method() };
    let mut labels: Vec<(u8, usize, u8)> = clauses
        .iter()
        .enumerate()
        .map(|(i, c)| (keys.get(i).copied().unwrap_or(0), i, label(c)))
        .collect();
    labels.sort();
    let mut cursor: std::collections::BTreeMap<u8, Vec<usize>> = Default::default();
    for (i, c) in clauses.iter().enumerate() {
        cursor.entry(label(c)).or_default().push(i);
    }
    for v in cursor.values_mut() {
        v.reverse();
    }
    labels
        .iter()
        .map(|(_, _, l)| clauses[cursor.get_mut(l).unwrap().pop().unwrap()].clone())
        .collect()
}

#[derive(Clone, Debug, Hash, Serialize, Deserialize)]
pub struct PermCase {
    pub base: Scenario,
    pub keys: Vec<u8>,
}

pub fn check_perm(case: &PermCase) -> Result<CaseInfo, String> {
    let mut t = case.base.clone();
    t.clauses = permute(&case.base.clauses, &case.keys);
    let identity = t.clauses == case.base.clauses;
    let (a, b) = match (observe(&case.base), observe(&t)) {
        (Ok(a), Ok(b)) => (a, b),
        (Err(a), Err(b)) if a.starts_with("construct") && b.starts_with("construct") => {
            return Ok(CaseInfo::new(false).class("construct-error"))
        }
        (a, b) => return Err(format!("runs differ fundamentally: base {a:?}, permuted {b:?}")),
    };
    if a.0 != b.0 {
        return Err(format!("call outcomes differ after clause permutation: base {:?}, permuted {:?}", a.0, b.0));
    }
    if a.1 != b.1 {
        return Err(format!("verification differs after clause permutation: base {:?}, permuted {:?}", a.1, b.1));
    }
    let methods: std::collections::BTreeSet<u8> = case.base.clauses.iter().map(|c| c.method()).collect();
    Ok(CaseInfo::new(!identity && methods.len() >= 2)
        .class_if(identity, "identity-permutation")
        .class_if(a.1 .0, "verification-fails")
        .class_if(!a.1 .0, "verification-silent"))
}

#[derive(Clone, Debug, Hash, Serialize, Deserialize)]
pub struct RouteCase {
    pub base: Scenario,
    pub clones: u8,
    pub vias: Vec<u8>,
}

/// R2: every call routed through an arbitrary instance.
pub fn check_route(case: &RouteCase) -> Result<CaseInfo, String> {
    let mut base = case.base.clone();
    base.clones = 0;
    for c in base.history.iter_mut() {
        c.via = 0;
    }
    let mut t = base.clone();
    t.clones = case.clones;
    for (i, c) in t.history.iter_mut().enumerate() {
        c.via = case.vias.get(i).copied().unwrap_or(0) % (case.clones + 1);
    }
    let (a, b) = match (observe(&base), observe(&t)) {
        (Ok(a), Ok(b)) => (a, b),
        (Err(a), Err(b)) if a.starts_with("construct") && b.starts_with("construct") => {
            return Ok(CaseInfo::new(false).class("construct-error"))
        }
        (a, b) => return Err(format!("runs differ fundamentally: original-only {a:?}, routed {b:?}")),
    };
    // without the std feature a mock-induced panic through the original disables its verification
    // (documented): then only the call outcomes are comparable
    let verdict_comparable = cfg!(feature = "std") || !a.0.contains(&ObsKind::MockPanic);
    if a.0 != b.0 || (verdict_comparable && a.1 != b.1) {
        return Err(format!(
            "routing calls through clones changed the behaviour: original-only {a:?}, routed {b:?}"
        ));
    }
    let used: std::collections::BTreeSet<u8> = t.history.iter().map(|c| c.via).collect();
    Ok(CaseInfo::new(used.len() >= 2)
        .class_if(used.len() >= 3, "three-or-more-instances-used")
        .class_if(a.1 .0, "verification-fails")
        .class_if(!a.1 .0, "verification-silent"))
}

#[derive(Clone, Debug, Hash, Serialize, Deserialize)]
pub struct TwinCase {
    pub clauses: Vec<ClauseSpec>,
    pub partial: bool,
    pub h1: Vec<Call>,
    pub h2: Vec<Call>,
    /// interleaving: true = next step from h1
    pub pick: Vec<bool>,
}

/// R3: two mocks from the same clauses, histories interleaved; each must behave as if alone.
pub fn check_twin(case: &TwinCase) -> Result<CaseInfo, String> {
    let solo = |h: &Vec<Call>| {
        observe(&Scenario {
            partial: case.partial,
            clauses: case.clauses.clone(),
            clones: 0,
            history: h.iter().map(|c| Call { via: 0, ..*c }).collect(),
            verify: VerifyMode::Drop,
        })
    };
    let (s1, s2) = match (solo(&case.h1), solo(&case.h2)) {
        (Ok(a), Ok(b)) => (a, b),
        _ => return Ok(CaseInfo::new(false).class("construct-error")),
    };
    let _ = traits::take_log();
    let mut m1 = new_mock(case.partial, &case.clauses).map_err(|e| format!("twin construct: {e}"))?;
    let mut m2 = new_mock(case.partial, &case.clauses).map_err(|e| format!("twin construct: {e}"))?;
    let (mut i1, mut i2) = (0, 0);
    let (mut o1, mut o2) = (vec![], vec![]);
    let mut step = 0;
    let mut switches = 0;
    let mut last = None;
    while i1 < case.h1.len() || i2 < case.h2.len() {
        let first = if i1 >= case.h1.len() {
            false
        } else if i2 >= case.h2.len() {
            true
        } else {
            case.pick.get(step).copied().unwrap_or(step % 2 == 0)
        };
        step += 1;
        if last.is_some() && last != Some(first) {
            switches += 1;
        }
        last = Some(first);
        if first {
            let c = case.h1[i1];
            i1 += 1;
            o1.push(kind(&Obs::from_result(vcore::panics::catch(|| traits::call(&mut m1, c.method, c.arg)))));
        } else {
            let c = case.h2[i2];
            i2 += 1;
            o2.push(kind(&Obs::from_result(vcore::panics::catch(|| traits::call(&mut m2, c.method, c.arg)))));
        }
    }
    let _ = traits::take_log();
    let v1 = verdict_lines(&verify_original(m1, VerifyMode::Drop));
    let v2 = verdict_lines(&verify_original(m2, VerifyMode::Drop));
    if (o1.clone(), v1.clone()) != s1 {
        return Err(format!("mock 1 of a twin pair behaved differently from a solo run: twin {:?}, solo {:?}", (o1, v1), s1));
    }
    if (o2.clone(), v2.clone()) != s2 {
        return Err(format!("mock 2 of a twin pair behaved differently from a solo run: twin {:?}, solo {:?}", (o2, v2), s2));
    }
    Ok(CaseInfo::new(switches >= 2 && !case.clauses.is_empty()).class_if(switches >= 4, "four-or-more-switches"))
}

fn generic_cfg() -> Cfg {
    let mut cfg = super::c01::cfg();
    cfg.methods = vec![8, 9, 10, 11, 0];
    cfg.p_unordered = 190;
    cfg
}

pub fn check_generic(scn: &Scenario) -> Result<CaseInfo, String> {
    let info = super::c01::check(scn)?;
    // non-trivial: both instantiations of one generic are mentioned with overlapping masks and both are called
    let mut nt = false;
    for (a, b) in [(8u8, 9u8), (10, 11)] {
        let mask = |m: u8| {
            scn.clauses
                .iter()
                .filter(|c| c.method() == m)
                .flat_map(|c| c.patterns())
                .fold(0u8, |acc, p| acc | p.mask)
        };
        let called = |m: u8| scn.history.iter().any(|c| c.method == m);
        if mask(a) & mask(b) != 0 && called(a) && called(b) {
            nt = true;
        }
    }
    Ok(CaseInfo { nontrivial: nt, classes: info.classes })
}

pub const RULE: &str = "permute = C01-C04-style scenario x random clause permutation that keeps each unordered method's clause order and the relative order of ordered clauses; route = scenario run through the original only vs every call routed through one of 1-4 instances; twin = two mocks from the same clauses with two interleaved histories vs each history on a solo mock; generic = model-diff over two instantiations each of a generic trait and a generic method with overlapping patterns. Non-trivial = non-identity permutation over >= 2 methods / >= 2 instances used / >= 2 switches between the twins / both instantiations mentioned with overlapping masks and called; distinct = distinct case. racing-* = every schedule of 2-3 threads x 1-2 calls (sampled up to 4x3) routed through clones / one shared handle / the creator thread on an ordered sequence of several clauses and on ordered + unordered clauses mixed: outcomes and verdict equal the sequential run (C10's scheduler). route-lent-clone = a method answered by make_ref(Holder(u.clone())) called 1-3 times through the original / a clone / a clone of a clone, ended by drop / verify() / report(): same outcomes, silent verdict (enumerated)";

pub fn run(ctx: &Ctx) -> Verdict {
    let mut v = Verdict::new("exploration", RULE);
    v.explanation = "Relation between two real runs: per-call outcomes (value or panic class) and the verification message as a sorted multiset of lines must be identical.".into();
    v.assumptions = vec!["each clause is wrapped in the DynClause hook (its builder type is only known at run time); the clause list itself is a production tuple of that arity".into()];
    v.subs.push(super::replay_corpus(ctx));
    let n = ctx.tier.pick(60_000, 1_500_000);
    let perm = (gen::scenario(cfg()), vec(any::<u8>(), 10)).prop_map(|(base, keys)| PermCase { base, keys });
    v.subs.push(vcore::run_proptest(ctx, "permute", n, perm, check_perm));
    // long clause lists (real tuples of up to 16 clauses), few methods: position in the tuple must not matter
    let mut cw = cfg();
    cw.max_clauses = 16;
    cw.max_stub_pats = 2;
    cw.methods = vec![0, 1, 2, 4, 6];
    let perm_wide = (gen::scenario(cw), vec(any::<u8>(), 16)).prop_map(|(base, keys)| PermCase { base, keys });
    v.subs.push(vcore::run_proptest(ctx, "permute-wide", n / 2, perm_wide, check_perm));
    let route = (gen::scenario(cfg()), 1..=3u8, vec(any::<u8>(), 24))
        .prop_map(|(base, clones, vias)| RouteCase { base, clones, vias });
    v.subs.push(vcore::run_proptest(ctx, "route", n, route, check_route));
    let mut tc = cfg();
    tc.max_history = 12;
    let twin = (gen::scenario(tc.clone()), gen::scenario(tc), vec(any::<bool>(), 24)).prop_map(|(a, b, pick)| {
        // second history re-generated against the first scenario's clauses: keep only its raw calls
        TwinCase {
            clauses: a.clauses.clone(),
            partial: a.partial,
            h1: a.history,
            h2: b.history,
            pick,
        }
    });
    v.subs.push(vcore::run_proptest(ctx, "twin", n, twin, check_twin));
    v.subs
        .push(vcore::run_proptest(ctx, "generic", n, gen::scenario(generic_cfg()), check_generic));
    #[cfg(feature = "std")]
    v.subs.push(vcore::run_enumerated(ctx, "route-lent-clone", lent::lent_route_table(), lent::check_lent_route));
    // routing calls through clones on several threads: every schedule of 2-3 threads on an ordered sequence
    // made of several clauses, and on ordered + unordered clauses mixed (C10's scheduler; the outcome of the
    // calls and the verdict must be those of the sequential run, whichever instance a call goes through)
    #[cfg(feature = "std")]
    for mut s in super::c10::run_kinds(ctx, &[(2, 1), (2, 2), (3, 1)], &[super::c10::Kind::Ordered, super::c10::Kind::Mixed]) {
        let renamed = format!("racing-{}", s.name);
        s.rename(renamed);
        v.subs.push(s);
    }
    v.subs.extend(super::variant_reports(ctx, &["nostd-spin"]));
    v
}

// ------------------------------------------------------------------ routing a call whose answer lends a value owning a clone
#[cfg(feature = "std")]
pub mod lent {
    use serde::{Deserialize, Serialize};
    use unimock::Unimock;
    use vcore::panics::catch;
    use vcore::CaseInfo;

    pub struct Holder(pub Unimock);

    #[unimock::unimock(api=LcMock)]
    pub trait Lc {
        fn child(&self) -> &Holder;
        fn ping(&self, x: u8) -> u32;
    }

    /// `child()` is answered by `u.make_ref(Holder(u.clone()))` (a lent value that owns a clone of the instance the
    /// call went through). Whichever instance the calls are routed through, the outcomes and the verdict are the same.
    #[derive(Clone, Copy, Debug, PartialEq, Eq, Hash, Serialize, Deserialize)]
    pub struct LentRouteCase {
        /// 0 = the original, 1 = a clone, 2 = a clone of that clone
        pub route: u8,
        pub calls: u8,
        /// 0 = drop, 1 = verify(), 2 = report()
        pub finish: u8,
    }

    pub fn check_lent_route(c: &LentRouteCase) -> Result<CaseInfo, String> {
        use unimock::{matching, MockFn};
        let u = Unimock::new((
            LcMock::child.each_call(matching!()).answers(&|u| u.make_ref(Holder(u.clone()))).n_times(c.calls as usize),
            LcMock::ping.each_call(matching!(_)).answers(&|_, x| 500 + x as u32).n_times(3),
        ));
        let c1 = u.clone();
        let c2 = c1.clone();
        let mut outcome = Ok(());
        {
            let insts: [&Unimock; 3] = [&u, &c1, &c2];
            let via = insts[c.route as usize % 3];
            for k in 0..c.calls {
                match catch(|| via.child().0.ping(k)) {
                    // the lent holder's clone is usable: it shares the patterns
                    Ok(v) if v == 500 + k as u32 => {}
                    other => {
                        outcome = Err(format!("call #{k} of child() routed through instance {}: ping through the lent holder gave {other:?}", c.route));
                        break;
                    }
                }
            }
            for k in c.calls..3 {
                let other = insts[(c.route as usize + 1 + k as usize) % 3];
                if let Err(p) = catch(|| other.ping(k)) {
                    outcome = Err(format!("ping({k}) through another instance panicked: {p}"));
                    break;
                }
            }
        }
        let d2 = catch(move || drop(c2));
        let d1 = catch(move || drop(c1));
        let verdict = match c.finish % 3 {
            1 => catch(move || u.verify()).map(|_| true),
            2 => catch(move || format!("{:?}", std::process::Termination::report(u)) == format!("{:?}", std::process::ExitCode::SUCCESS)),
            _ => catch(move || drop(u)).map(|_| true),
        };
        outcome?;
        if d1.is_err() || d2.is_err() {
            return Err("dropping a clone panicked".into());
        }
        match verdict {
            Ok(true) => Ok(CaseInfo::new(true).class(["routed-through-the-original", "routed-through-a-clone", "routed-through-a-clone-of-a-clone"][c.route as usize % 3])),
            Ok(false) => Err(format!("every expectation is met and every user clone is gone, yet report() returned FAILURE (calls routed through instance {})", c.route)),
            Err(p) => Err(format!("every expectation is met and every user clone is gone, yet the verdict is a panic when the calls are routed through instance {}: {p}", c.route)),
        }
    }

    pub fn lent_route_table() -> Vec<LentRouteCase> {
        let mut v = vec![];
        for route in 0..3u8 {
            for calls in 1..=3u8 {
                for finish in 0..3u8 {
                    v.push(LentRouteCase { route, calls, finish });
                }
            }
        }
        v
    }
}

pub fn replay(sub: &str, case: Value) -> Result<(), String> {
    fn de<T: serde::de::DeserializeOwned>(v: Value) -> Result<T, String> {
        serde_json::from_value(v).map_err(|e| format!("HARNESS: bad case: {e}"))
    }
    #[cfg(any(feature = "std", feature = "nostd-spin"))]
    if sub.starts_with("racing") {
        return super::c10::replay(sub, case);
    }
    #[cfg(feature = "std")]
    if sub == "route-lent-clone" {
        return lent::check_lent_route(&de(case)?).map(|_| ());
    }
    match sub {
        "permute" => check_perm(&de(case)?).map(|_| ()),
        "route" => check_route(&de(case)?).map(|_| ()),
        "permute-wide" => check_perm(&de(case)?).map(|_| ()),
        "twin" => check_twin(&de(case)?).map(|_| ()),
        _ => check_generic(&de(case)?).map(|_| ()),
    }
}
