//! C04 — next_call patterns are consumed strictly in declaration order across methods.

use proptest::prelude::*;
use serde_json::Value;
use vcore::{CaseInfo, Ctx, Verdict};

use crate::exec::{compare, CompareOpts, Obs};
use crate::gen::{self, Cfg};
use crate::model::{Model, Outcome, PanicKind};
use crate::spec::*;
use crate::traits::FACTS;

pub fn cfg() -> Cfg {
    let mut cfg = Cfg::base();
    // 0,1,2: ordered candidates; 3,4,5: unordered noise (real fn / default body / both)
    cfg.methods = vec![0, 1, 2, 3, 4, 5, 6];
    cfg.method_modes = Some(vec![
        (0, 230),
        (0, 200),
        (20, 170),
        (150, 0),
        (120, 0),
        (120, 0),
        (30, 120),
    ]);
    cfg.resps = vec![
        Resp::Returns,
        Resp::Answers,
        Resp::AnswersArc,
        Resp::ReturnsDefault,
        Resp::Returns,
        Resp::Answers,
        Resp::Unmocked,
        Resp::DefaultImpl,
    ];
    cfg.matchers = vec![
        MatcherKind::FuncDebug,
        MatcherKind::FuncDebug,
        MatcherKind::FuncDebug,
        MatcherKind::Func,
        MatcherKind::Macro(0),
    ];
    cfg.max_clauses = 8;
    cfg.max_stub_pats = 2;
    cfg.max_chain = 3;
    cfg.max_n = 3;
    cfg.max_history = 26;
    cfg.guide = 205;
    cfg.prefer_match = 25;
    cfg.stop_at_deviation = true;
    cfg
}

fn classify(scn: &Scenario, cmp: &crate::exec::Comparison) -> CaseInfo {
    let ordered_methods: std::collections::BTreeSet<u8> = scn
        .clauses
        .iter()
        .filter(|c| c.ordered())
        .map(|c| c.method())
        .collect();
    let count_ge2 = cmp
        .final_model
        .methods
        .values()
        .filter(|m| m.ordered)
        .any(|m| m.pats.iter().any(|p| matches!(p.expect, crate::model::Expect::Exactly(n) if n >= 2)));
    let mut unordered_between = false;
    let mut seen_ordered = false;
    let mut pending_unordered = false;
    for c in &scn.history {
        if ordered_methods.contains(&c.method) {
            if seen_ordered && pending_unordered {
                unordered_between = true;
            }
            seen_ordered = true;
            pending_unordered = false;
        } else if seen_ordered {
            pending_unordered = true;
        }
    }
    let deviation = cmp.calls.iter().find_map(|t| match t.expected {
        Outcome::Panic(k @ (PanicKind::WrongOrder | PanicKind::OutOfRange | PanicKind::InputsNotMatched)) => Some(k),
        _ => None,
    });
    let complete = cmp.final_model.ordered_next == cmp.final_model.slots.len() && deviation.is_none();
    let nt = ordered_methods.len() >= 2 && count_ge2 && (unordered_between || deviation.is_some());
    CaseInfo::new(nt)
        .class_if(unordered_between, "unordered-call-between-ordered")
        .class_if(deviation == Some(PanicKind::WrongOrder), "deviation-wrong-method")
        .class_if(deviation == Some(PanicKind::InputsNotMatched), "deviation-wrong-arguments")
        .class_if(deviation == Some(PanicKind::OutOfRange), "deviation-past-the-end")
        .class_if(complete && !cmp.final_model.slots.is_empty(), "sequence-completed")
        .class_if(ordered_methods.len() >= 2, "two-or-more-ordered-methods")
        .class(super::verdict_class(&cmp.model_verdict))
                .class_if(scn.history.iter().any(|c| c.unwinding), "has-call-by-a-destructor-during-unwinding")
}

pub fn check(scn: &Scenario) -> Result<CaseInfo, String> {
    match compare(scn, CompareOpts::default())? {
        None => Ok(CaseInfo::new(false).class("construct-error")),
        Some(cmp) => {
            // C04 adds: an accepted ordered call must not be a panic, a deviating one must be
            for (c, t) in scn.history.iter().zip(cmp.calls.iter()) {
                if let (Outcome::Panic(k), Obs::Value(v)) = (&t.expected, &t.observed) {
                    return Err(format!(
                        "deviating call {}({}) was accepted (returned {v}) instead of panicking ({k:?})",
                        FACTS[c.method as usize].path, c.arg
                    ));
                }
            }
            Ok(classify(scn, &cmp))
        }
    }
}

/// The accepted sequence of a configuration interleaved with unordered calls, then every
/// one-step extension of every prefix: prefix(i) ++ [(method, arg)] for all methods and args.
pub fn extensions(scn: &Scenario) -> Vec<Scenario> {
    // the base history is model-guided with guide=256 equivalent: take scn.history as the
    // accepted walk (generated with stop_at_deviation), cut at the first panic/deviation.
    let mut model = match Model::new(scn.partial, &scn.clauses, &FACTS) {
        Ok(m) => m,
        Err(_) => return vec![],
    };
    let mut accepted = vec![];
    for c in &scn.history {
        let before = model.deviated;
        let out = model.call(c.method, c.arg);
        if model.deviated && !before {
            break;
        }
        if matches!(out, Outcome::Panic(_) | Outcome::Unspecified) {
            break;
        }
        accepted.push(*c);
    }
    let mut methods: Vec<u8> = scn.clauses.iter().map(|c| c.method()).collect();
    methods.sort();
    methods.dedup();
    let mut out = vec![];
    for i in 0..=accepted.len() {
        for &m in &methods {
            for arg in 0..ARGS {
                let mut s = scn.clone();
                s.history = accepted[..i].to_vec();
                s.history.push(Call {
                    method: m,
                    arg,
                    via: (i as u8 + arg) % (scn.clones + 1),
                    unwinding: false,
                });
                out.push(s);
            }
        }
    }
    out
}

pub fn check_extensions(scn: &Scenario) -> Result<CaseInfo, String> {
    let exts = extensions(scn);
    let mut any_nt = false;
    let mut classes: std::collections::BTreeSet<&'static str> = Default::default();
    for e in &exts {
        let info = check(e).map_err(|r| {
            format!(
                "{r} [one-step extension: history = {}]",
                serde_json::to_string(&e.history).unwrap_or_default()
            )
        })?;
        any_nt |= info.nontrivial;
        classes.extend(info.classes);
    }
    let mut ci = CaseInfo::new(any_nt);
    ci.classes = classes.into_iter().collect();
    Ok(ci)
}

/// Histories that go on after deviations. The property states a necessary condition for every call: the
/// i-th call MADE to any ordered method is accepted only if it targets the method of slot i and its
/// arguments match slot i's pattern, and it then gets that slot's response. Checked on the real run
/// alone (responses are answers(): every accepted call yields the tag of the pattern that answered).
pub fn cfg_after_deviation() -> Cfg {
    let mut c = cfg();
    c.resps = vec![Resp::Answers, Resp::AnswersArc];
    c.stop_at_deviation = false;
    c.guide = 170;
    c.prefer_match = 60;
    c.max_history = 24;
    c
}

pub fn check_after_deviation(scn: &Scenario) -> Result<CaseInfo, String> {
    let model = match Model::new(scn.partial, &scn.clauses, &FACTS) {
        Ok(m) => m,
        Err(_) => return Ok(CaseInfo::new(false).class("construct-error")),
    };
    let real = crate::exec::run_real(scn);
    if let Some(e) = real.construct_error {
        return Err(format!("construction of a consistent setup panicked: {e}"));
    }
    let ordered_methods: std::collections::BTreeSet<u8> = model.methods.iter().filter(|(_, m)| m.ordered).map(|(k, _)| *k).collect();
    let mut made = 0usize; // calls made to ordered methods so far
    let mut rejected = 0usize;
    let mut accepted_after_rejection = false;
    for (k, ((obs, _), call)) in real.calls.iter().zip(scn.history.iter()).enumerate() {
        if !ordered_methods.contains(&call.method) {
            continue;
        }
        let i = made;
        made += 1;
        match obs {
            Obs::Value(v) if *v >= 1 && *v < 5_000_000 => {
                let Some((sm, spi)) = model.slots.get(i) else {
                    return Err(format!(
                        "call #{k} {}({}) is ordered call number {} but the sequence has only {} positions, and it was accepted (returned {v})",
                        FACTS[call.method as usize].path, call.arg, i + 1, model.slots.len()
                    ));
                };
                let pat = &model.methods[sm].pats[*spi];
                if *sm != call.method || (pat.mask >> call.arg) & 1 == 0 {
                    return Err(format!(
                        "call #{k} {}({}) is ordered call number {} (after {rejected} rejected ones); position {} expects {} with accept set {:#010b}, yet the call was accepted (returned {v})",
                        FACTS[call.method as usize].path, call.arg, i + 1, i + 1, FACTS[*sm as usize].path, pat.mask
                    ));
                }
                let id = ((*v - 1) / 100) as u16;
                if id != pat.id {
                    return Err(format!(
                        "call #{k} {}({}) is ordered call number {}: answered by pattern P{id}, position {} belongs to P{}",
                        FACTS[call.method as usize].path, call.arg, i + 1, i + 1, pat.id
                    ));
                }
                if rejected > 0 {
                    accepted_after_rejection = true;
                }
            }
            Obs::MockPanic(_) => rejected += 1,
            _ => {}
        }
    }
    Ok(CaseInfo::new(accepted_after_rejection)
        .class_if(accepted_after_rejection, "ordered-call-accepted-after-an-earlier-rejection")
        .class_if(rejected >= 2, "two-or-more-rejected-calls"))
}

pub const RULE: &str = "walk = generated mocks with 2-8 next_call clauses over up to 4 ordered methods (implicit count, once, n_times(0..3), response chains inside a slot range) interleaved with unordered clauses of other methods; histories are model-guided random walks (p=0.8 the expected next call, else any call: wrong method / wrong argument / past the end / unordered method), stopped at the first deviation. prefix-x-next = for each generated configuration, every prefix of an accepted walk extended by every (mentioned method, argument 0..8) on a fresh mock. Non-trivial = >= 2 ordered methods, some ordered count >= 2, and the history has an unordered call between ordered ones or ends in a deviation; distinct = distinct scenario. racing-* = every schedule of 2-3 threads x 1-2 calls (sampled up to 4x3) on an ordered sequence of several clauses (all slots accepting; slots rejecting part of the calls; mixed with an unordered method): positions handed out are those of the sequential run (C10's scheduler)";

pub fn run(ctx: &Ctx) -> Verdict {
    let mut v = Verdict::new("exploration", RULE);
    v.explanation = "Model = one global slot sequence; the returned tag identifies the slot's pattern and segment. A deviating call must panic (and verification must then report it), calls to unordered methods must not move the sequence, complete sequences verify silently and short ones name the unconsumed patterns.".into();
    v.assumptions = vec![
        "each clause is wrapped in the DynClause hook (its builder type is only known at run time); the clause list itself is a production tuple of that arity".into(),
        "after the first deviation only the property's necessary condition is checked (sub-check after-deviation): the i-th call made to an ordered method may be accepted only by slot i".into(),
    ];
    v.subs.push(super::replay_corpus(ctx));
    let n = ctx.tier.pick(200_000, 5_000_000);
    v.subs.push(vcore::run_proptest(ctx, "walk", n, gen::scenario(cfg()), check));
    let mut c2 = cfg();
    c2.guide = 215;
    c2.prefer_match = 41;
    c2.max_history = 14;
    c2.max_clauses = 6;
    let n2 = ctx.tier.pick(800, 20_000);
    let mut sub = vcore::run_proptest(ctx, "prefix-x-next", n2, gen::scenario(c2), check_extensions);
    sub.extra.insert(
        "note".into(),
        serde_json::json!("each evaluation is one configuration; all its prefix x next-call extensions are executed (typically 100-600 real runs per configuration)"),
    );
    v.subs.push(sub);
    v.subs.push(vcore::run_proptest(ctx, "after-deviation", n / 2, gen::scenario(cfg_after_deviation()), check_after_deviation));
    // long clause lists: the mock is a real tuple of up to 16 clauses, the ordered sequence spans all of it
    let mut cw = cfg();
    cw.max_clauses = 16;
    cw.max_history = 36;
    cw.guide = 235;
    v.subs.push(vcore::run_proptest(ctx, "wide-clause-lists", n / 4, gen::scenario(cw), |scn| {
        check(scn).map(|i| {
            let k = scn.clauses.len();
            i.class_if(k >= 9, "clause-tuple-arity>=9").class_if(k >= 13, "clause-tuple-arity>=13")
        })
    }));
    // the global sequence under every interleaving: N racing ordered calls occupy N consecutive positions, also
    // when slots reject part of the calls (C10's scheduler; clones, one shared handle, creator thread)
    #[cfg(feature = "std")]
    for mut s in super::c10::run_kinds(ctx, &[(2, 1), (2, 2), (3, 1)], &[super::c10::Kind::Ordered, super::c10::Kind::OrderedRejecting, super::c10::Kind::Mixed]) {
        let renamed = format!("racing-{}", s.name);
        s.rename(renamed);
        v.subs.push(s);
    }
    v.subs.extend(super::variant_reports(ctx, &["nostd-spin"]));
    v
}

pub fn replay(sub: &str, case: Value) -> Result<(), String> {
    #[cfg(any(feature = "std", feature = "nostd-spin"))]
    if sub.starts_with("racing") {
        return super::c10::replay(sub, case);
    }
    let scn: Scenario = serde_json::from_value(case).map_err(|e| format!("HARNESS: bad case: {e}"))?;
    if sub == "after-deviation" {
        check_after_deviation(&scn).map(|_| ())
    } else if sub == "prefix-x-next" {
        check_extensions(&scn).map(|_| ())
    } else {
        check(&scn).map(|_| ())
    }
}

#[allow(unused)]
fn _unused(_: impl Strategy<Value = ()>) {}
