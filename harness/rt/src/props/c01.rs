//! C01 — unordered calls are answered by the first declared pattern that matches.

use proptest::prelude::*;
use serde_json::Value;
use vcore::{CaseInfo, Ctx, Verdict};

use crate::exec::{compare, CompareOpts, Obs};
use crate::gen::{self, Cfg};
use crate::model::{Model, Outcome};
use crate::spec::*;
use crate::traits::FACTS;

pub fn cfg() -> Cfg {
    let mut cfg = Cfg::base();
    cfg.methods = vec![0, 1, 2, 4, 5, 6, 7, 8, 9];
    cfg.p_unordered = 170;
    cfg.p_ordered = 0;
    cfg.resps = vec![
        Resp::Returns,
        Resp::Answers,
        Resp::AnswersArc,
        Resp::ReturnsDefault,
        Resp::Returns,
        Resp::Answers,
    ];
    cfg.matchers = vec![
        MatcherKind::FuncDebug,
        MatcherKind::FuncDebug,
        MatcherKind::FuncDebug,
        MatcherKind::Func,
        MatcherKind::Macro(0),
        MatcherKind::MacroEq(0),
    ];
    cfg.max_clauses = 6;
    cfg.max_stub_pats = 6;
    cfg.max_history = 24;
    cfg.prefer_match = 248;
    cfg
}

/// Long clause lists (up to 16 separate clauses over few methods): the mock is built from a real
/// tuple of that arity, and patterns of one method are spread over distant clauses.
pub fn cfg_wide() -> Cfg {
    let mut cfg = cfg();
    cfg.methods = vec![0, 1, 2];
    cfg.max_clauses = 16;
    cfg.max_stub_pats = 2;
    cfg
}

/// Rewrites every pattern to a single `answers(tag)` response with an exact
/// expectation of (the model's match count for this history) + delta, so that the
/// verification message reveals exactly which patterns were counted how often.
pub fn counted(mut scn: Scenario, deltas: Vec<u8>) -> Scenario {
    // first pass: unquantified answers everywhere, to learn the counts
    for c in scn.clauses.iter_mut() {
        let pats: Vec<&mut PatternSpec> = match c {
            ClauseSpec::Single { pat, entry, .. } => {
                *entry = Entry::Each;
                vec![pat]
            }
            ClauseSpec::Stub { pats, .. } => pats.iter_mut().collect(),
        };
        for p in pats {
            p.chain = vec![Seg {
                resp: Resp::Answers,
                quant: Quant::None,
            }];
        }
    }
    let mut model = Model::new(scn.partial, &scn.clauses, &FACTS).expect("consistent");
    for call in &scn.history {
        model.call(call.method, call.arg);
    }
    let mut counts = std::collections::BTreeMap::new();
    for m in model.methods.values() {
        for p in &m.pats {
            counts.insert(p.id, p.matched);
        }
    }
    let mut i = 0;
    for c in scn.clauses.iter_mut() {
        let pats: Vec<&mut PatternSpec> = match c {
            ClauseSpec::Single { pat, .. } => vec![pat],
            ClauseSpec::Stub { pats, .. } => pats.iter_mut().collect(),
        };
        for p in pats {
            let count = counts[&p.id] as i64;
            let d = deltas.get(i).copied().unwrap_or(0);
            i += 1;
            let delta: i64 = match d % 5 {
                3 => 1,
                4 if count > 0 => -1,
                _ => 0,
            };
            p.chain[0].quant = Quant::NTimes((count + delta).clamp(0, 255) as u8);
        }
    }
    scn
}

fn nontrivial(scn: &Scenario, cmp: &crate::exec::Comparison) -> bool {
    // some call has >= 2 accepting patterns and an earlier call to the same method matched
    for (i, (call, t)) in scn.history.iter().zip(cmp.calls.iter()).enumerate() {
        if t.accepting >= 2 {
            let earlier = scn.history[..i]
                .iter()
                .zip(cmp.calls.iter())
                .any(|(c, t)| c.method == call.method && matches!(t.observed, Obs::Value(_)));
            if earlier {
                return true;
            }
        }
    }
    false
}

pub fn check(scn: &Scenario) -> Result<CaseInfo, String> {
    match compare(scn, CompareOpts::default())? {
        None => Ok(CaseInfo::new(false).class("construct-error")),
        Some(cmp) => {
            let nt = nontrivial(scn, &cmp);
            let overlap = cmp.calls.iter().any(|t| t.accepting >= 2);
            let fallthrough = cmp
                .calls
                .iter()
                .any(|t| t.accepting == 0 && !matches!(t.expected, Outcome::Unspecified));
            Ok(CaseInfo::new(nt)
                .class_if(overlap, "call-with-overlapping-patterns")
                .class_if(fallthrough, "call-rejected-by-all-patterns")
                .class_if(scn.partial, "partial")
                .class_if(!scn.partial, "strict")
                .class(super::verdict_class(&cmp.model_verdict))
                .class_if(scn.clones > 0, "uses-clones"))
        }
    }
}

pub const RULE: &str = "scenarios = generated unordered clause lists (1-6 patterns per method, arbitrary 8-bit accept masks over args 0..8, some_call/each_call/stub forms, patterns of one method split over several clauses) x histories of up to 24 calls routed through the original or clones, strict and partial; wide-clause-lists = the same with up to 16 separate clauses over 3 methods (every mock is built from a REAL tuple of the list's arity); non-trivial = some call is accepted by >= 2 patterns of its method and an earlier call to the same method already matched; distinct = distinct scenario (hash of the whole case)";

pub fn run(ctx: &Ctx) -> Verdict {
    let mut v = Verdict::new("exploration", RULE);
    v.explanation = "Model-vs-implementation comparison of every call outcome (returned tag identifies the answering pattern), side effects, and the verification message (which patterns were counted).".into();
    v.assumptions = vec![
        "each clause is wrapped in the DynClause hook (its builder type is only known at run time); the list itself is a production tuple of that arity; every terminal clause and the runtime are production code".into(),
        "build variant: std".into(),
    ];
    v.subs.push(super::replay_corpus(ctx));
    let n = ctx.tier.pick(150_000, 4_000_000);
    v.subs.push(vcore::run_proptest(ctx, "diff", n, gen::scenario(cfg()), check));
    let counted_strategy = (gen::scenario(cfg()), proptest::collection::vec(any::<u8>(), 40))
        .prop_map(|(s, d)| counted(s, d));
    v.subs
        .push(vcore::run_proptest(ctx, "counted", n, counted_strategy, check));
    let wide = (gen::scenario(cfg_wide()), proptest::collection::vec(any::<u8>(), 40), any::<bool>())
        .prop_map(|(s, d, c)| if c { counted(s, d) } else { s });
    v.subs.push(vcore::run_proptest(ctx, "wide-clause-lists", n / 3, wide, |scn| {
        check(scn).map(|i| {
            let n = scn.clauses.len();
            i.class_if(n >= 9, "clause-tuple-arity>=9").class_if(n >= 13, "clause-tuple-arity>=13")
        })
    }));
    if ctx.tier == vcore::Tier::Thorough {
        v.subs.push(super::fuzz_campaign(ctx, 1_500_000));
    }
    v.subs.extend(super::variant_reports(ctx, &["nostd-spin", "nostd-nomutex"]));
    v
}

pub fn replay(_sub: &str, case: Value) -> Result<(), String> {
    let scn: Scenario = serde_json::from_value(case).map_err(|e| format!("HARNESS: bad case: {e}"))?;
    check(&scn).map(|_| ())
}
