//! C01 — unordered calls are answered by the first declared pattern that matches.

use proptest::prelude::*;
use serde_json::Value;
use vcore::{CaseInfo, Ctx, Verdict};

use crate::exec::{compare, CompareOpts, Obs};
use crate::gen::{self, Cfg};
use crate::model::{Model, Outcome};
use crate::spec::*;
use crate::traits::FACTS;

pub fn cfg() -> Cfg {
    let mut cfg = Cfg::base();
    cfg.methods = vec![0, 1, 2, 4, 5, 6, 7, 8, 9];
    cfg.p_unordered = 170;
    cfg.p_ordered = 0;
    cfg.resps = vec![
        Resp::Returns,
        Resp::Answers,
        Resp::AnswersArc,
        Resp::ReturnsDefault,
        Resp::Returns,
        Resp::Answers,
        // pass-through responses: which pattern answers must not depend on the KIND of its response
        Resp::Unmocked,
        Resp::DefaultImpl,
    ];
    cfg.matchers = vec![
        MatcherKind::FuncDebug,
        MatcherKind::FuncDebug,
        MatcherKind::FuncDebug,
        MatcherKind::Func,
        MatcherKind::Macro(0),
        MatcherKind::MacroEq(0),
        MatcherKind::FuncDebug,
        MatcherKind::NoFunc,
    ];
    cfg.max_clauses = 6;
    cfg.max_stub_pats = 6;
    cfg.max_history = 24;
    cfg.prefer_match = 248;
    // a stub may contain response-less `each.call(m);` patterns: they keep their place in the scan
    cfg.allow_empty_stub_chain = true;
    cfg
}

/// Long clause lists (up to 16 separate clauses over few methods): the mock is built from a real
/// tuple of that arity, and patterns of one method are spread over distant clauses.
pub fn cfg_wide() -> Cfg {
    let mut cfg = cfg();
    cfg.methods = vec![0, 1, 2];
    cfg.max_clauses = 16;
    cfg.max_stub_pats = 2;
    cfg
}

/// Rewrites every pattern to a single `answers(tag)` response with an exact
/// expectation of (the model's match count for this history) + delta, so that the
/// verification message reveals exactly which patterns were counted how often.
pub fn counted(mut scn: Scenario, deltas: Vec<u8>) -> Scenario {
    // first pass: unquantified answers everywhere, to learn the counts
    for c in scn.clauses.iter_mut() {
        let pats: Vec<&mut PatternSpec> = match c {
            ClauseSpec::Single { pat, entry, .. } => {
                *entry = Entry::Each;
                vec![pat]
            }
            ClauseSpec::Stub { pats, .. } => pats.iter_mut().collect(),
        };
        for p in pats {
            p.chain = vec![Seg {
                resp: Resp::Answers,
                quant: Quant::None,
            }];
        }
    }
    let mut model = Model::new(scn.partial, &scn.clauses, &FACTS).expect("consistent");
    for call in &scn.history {
        model.call(call.method, call.arg);
    }
    let mut counts = std::collections::BTreeMap::new();
    for m in model.methods.values() {
        for p in &m.pats {
            counts.insert(p.id, p.matched);
        }
    }
    let mut i = 0;
    for c in scn.clauses.iter_mut() {
        let pats: Vec<&mut PatternSpec> = match c {
            ClauseSpec::Single { pat, .. } => vec![pat],
            ClauseSpec::Stub { pats, .. } => pats.iter_mut().collect(),
        };
        for p in pats {
            let count = counts[&p.id] as i64;
            let d = deltas.get(i).copied().unwrap_or(0);
            i += 1;
            let delta: i64 = match d % 5 {
                3 => 1,
                4 if count > 0 => -1,
                _ => 0,
            };
            p.chain[0].quant = Quant::NTimes((count + delta).clamp(0, 255) as u8);
        }
    }
    scn
}

fn nontrivial(scn: &Scenario, cmp: &crate::exec::Comparison) -> bool {
    // some call has >= 2 accepting patterns and an earlier call to the same method matched
    for (i, (call, t)) in scn.history.iter().zip(cmp.calls.iter()).enumerate() {
        if t.accepting >= 2 {
            let earlier = scn.history[..i]
                .iter()
                .zip(cmp.calls.iter())
                .any(|(c, t)| c.method == call.method && matches!(t.observed, Obs::Value(_)));
            if earlier {
                return true;
            }
        }
    }
    false
}

pub fn check(scn: &Scenario) -> Result<CaseInfo, String> {
    match compare(scn, CompareOpts::default())? {
        None => Ok(CaseInfo::new(false).class("construct-error")),
        Some(cmp) => {
            let nt = nontrivial(scn, &cmp);
            let overlap = cmp.calls.iter().any(|t| t.accepting >= 2);
            let fallthrough = cmp
                .calls
                .iter()
                .any(|t| t.accepting == 0 && !matches!(t.expected, Outcome::Unspecified));
            Ok(CaseInfo::new(nt)
                .class_if(overlap, "call-with-overlapping-patterns")
                .class_if(fallthrough, "call-rejected-by-all-patterns")
                .class_if(scn.partial, "partial")
                .class_if(!scn.partial, "strict")
                .class(super::verdict_class(&cmp.model_verdict))
                .class_if(scn.clones > 0, "uses-clones")
                .class_if(scn.history.iter().any(|c| c.unwinding), "has-call-by-a-destructor-during-unwinding"))
        }
    }
}

// ------------------------------------------------------------------ methods without (sized) inputs

#[derive(Clone, Copy, Debug, PartialEq, Eq, Hash, serde::Serialize, serde::Deserialize)]
pub struct UnitTag;

#[unimock::unimock(api=ZMock, unmock_with=[real_z0, real_zu])]
pub trait Z {
    fn z0(&self) -> u32;
    fn zu(&self, t: UnitTag) -> u32;
}
pub fn real_z0(_: &impl std::any::Any) -> u32 {
    7777
}
pub fn real_zu(_: &impl std::any::Any, _: UnitTag) -> u32 {
    7778
}

/// Patterns over a method whose inputs are zero-sized: a matcher can only accept or reject every
/// call (a guard over captured state, `m.func(|_, _| false)`), but first-declared-wins still applies.
#[derive(Clone, Debug, PartialEq, Eq, Hash, serde::Serialize, serde::Deserialize)]
pub struct ZeroCase {
    pub partial: bool,
    /// the method takes a unit-struct argument instead of no argument
    pub unit_arg: bool,
    /// per pattern: does its matcher accept
    pub accepts: Vec<bool>,
    /// patterns in one stub (true) or one each_call clause per pattern
    pub one_stub: bool,
    pub calls: u8,
}

pub fn check_zero(c: &ZeroCase) -> Result<CaseInfo, String> {
    use std::sync::Arc;
    use unimock::{MockFn, Unimock};
    use vcore::panics::catch;
    let first = c.accepts.iter().position(|a| *a);
    // model: every call is answered by the first accepting pattern
    let mut counts = vec![0usize; c.accepts.len()];
    if let Some(i) = first {
        counts[i] = c.calls as usize;
    }
    let mut dc = unimock::verif::DynClause::new();
    macro_rules! setup {
        ($f:expr, $ans:expr) => {{
            if c.one_stub {
                let accepts = c.accepts.clone();
                let counts = counts.clone();
                dc.push($f.stub(move |each| {
                    for (i, a) in accepts.iter().enumerate() {
                        let a = *a;
                        each.call(&move |m| m.func(move |_, _| a)).answers_arc($ans(i)).n_times(counts[i]);
                    }
                }));
            } else {
                for (i, a) in c.accepts.iter().enumerate() {
                    let a = *a;
                    dc.push($f.each_call(&move |m| m.func(move |_, _| a)).answers_arc($ans(i)).n_times(counts[i]));
                }
            }
        }};
    }
    if c.unit_arg {
        setup!(ZMock::zu, |i: usize| -> Arc<dyn Fn(&Unimock, UnitTag) -> u32 + Send + Sync> { Arc::new(move |_, _| 100 + i as u32) });
    } else {
        setup!(ZMock::z0, |i: usize| -> Arc<dyn Fn(&Unimock) -> u32 + Send + Sync> { Arc::new(move |_| 100 + i as u32) });
    }
    let partial = c.partial;
    let u = catch(move || if partial { Unimock::new_partial(dc) } else { Unimock::new(dc) }).map_err(|e| format!("HARNESS: construct {e}"))?;
    let mut any_panic = false;
    for k in 0..c.calls {
        let r = catch(|| if c.unit_arg { u.zu(UnitTag) } else { u.z0() });
        let expected: Result<u32, ()> = match first {
            Some(i) => Ok(100 + i as u32),
            None if c.partial => Ok(if c.unit_arg { 7778 } else { 7777 }),
            None => Err(()),
        };
        match (&r, expected) {
            (Ok(v), Ok(w)) if *v == w => {}
            (Err(_), Err(())) => any_panic = true,
            _ => {
                let _ = catch(move || drop(u));
                return Err(format!(
                    "call #{k} of a method without sized inputs, patterns accept = {:?}: observed {r:?}, the first accepting pattern is {first:?} (expected {expected:?})",
                    c.accepts
                ));
            }
        }
    }
    let verdict = catch(move || drop(u));
    // never-called rule: a mentioned method that was not matched at all fails verification
    let matched_any = first.is_some() && c.calls > 0;
    let should_fail = any_panic || (!c.accepts.is_empty() && !matched_any);
    if verdict.is_err() != should_fail {
        return Err(format!(
            "verification after {} calls (patterns accept = {:?}, counts expected {counts:?}): {verdict:?}, expected {}",
            c.calls,
            c.accepts,
            if should_fail { "a failure" } else { "silence" }
        ));
    }
    Ok(CaseInfo::new(c.accepts.len() >= 2 && c.accepts.iter().any(|a| !*a))
        .class_if(c.unit_arg, "unit-struct-argument")
        .class_if(!c.unit_arg, "no-argument")
        .class_if(first.map(|i| i > 0).unwrap_or(false), "a-rejecting-pattern-precedes-the-accepting-one")
        .class_if(first.is_none(), "every-pattern-rejects"))
}

// ------------------------------------------------------------------ two-argument patterns written with matching!

#[unimock::unimock(api=P2Mock)]
pub trait P2 {
    fn p(&self, a: u8, b: u8) -> u32;
}

pub const P2_KINDS: usize = 10;

/// The reference predicate of two-argument pattern `k` (what the equivalent Rust `match` accepts).
pub fn p2_accepts(k: u8, a: u8, b: u8) -> bool {
    match k {
        0 => a == 1 && b == 2,
        1 => a == 2 && b != 2,
        2 => (a == 0 && b == 3) || (a == 3 && b == 0),
        3 => a != 1 && b != 0,
        4 => b == 1 || a == 2,
        5 => (1..=2).contains(&a) && b == 3,
        6 => a > b,
        7 => (b == 2 && a != 0) || (a == 0 && b == 0),
        8 => a == 3 && b == 3,
        _ => true,
    }
}

/// One unordered clause per pattern kind, answering `100 + position`; a call is answered by the first
/// declared pattern whose Rust-match equivalent accepts (a, b).
#[derive(Clone, Debug, PartialEq, Eq, Hash, serde::Serialize, serde::Deserialize)]
pub struct TwoArgCase {
    pub kinds: Vec<u8>,
    pub a: u8,
    pub b: u8,
    pub one_stub: bool,
}

pub fn check_two_arg(c: &TwoArgCase) -> Result<CaseInfo, String> {
    use unimock::{matching, MockFn, Unimock};
    use vcore::panics::catch;
    let mut dc = unimock::verif::DynClause::new();
    macro_rules! pats {
        ($each:ident, $k:expr, $v:expr) => {
            match $k {
                0 => { $each!(matching!(eq!(&1), eq!(&2)), $v) }
                1 => { $each!(matching!(eq!(&2), ne!(&2)), $v) }
                2 => { $each!(matching!((eq!(&0), eq!(&3)) | (eq!(&3), eq!(&0))), $v) }
                3 => { $each!(matching!(ne!(&1), ne!(&0)), $v) }
                4 => { $each!(matching!((_, eq!(&1)) | (eq!(&2), _)), $v) }
                5 => { $each!(matching!(1..=2, eq!(&3)), $v) }
                6 => { $each!(matching!((a, b) if a > b), $v) }
                7 => { $each!(matching!((ne!(&0), eq!(&2)) | (eq!(&0), eq!(&0))), $v) }
                8 => { $each!(matching!(eq!(&3), eq!(&3)), $v) }
                _ => { $each!(matching!(_, _), $v) }
            }
        };
    }
    if c.one_stub {
        let kinds = c.kinds.clone();
        dc.push(P2Mock::p.stub(move |each| {
            for (i, k) in kinds.iter().enumerate() {
                let v = 100 + i as u32;
                macro_rules! in_stub {
                    ($m:expr, $v:expr) => {{
                        each.call($m).returns($v);
                    }};
                }
                pats!(in_stub, *k, v);
            }
        }));
    } else {
        for (i, k) in c.kinds.iter().enumerate() {
            let v = 100 + i as u32;
            macro_rules! as_clause {
                ($m:expr, $v:expr) => {{
                    dc.push(P2Mock::p.each_call($m).returns($v));
                }};
            }
            pats!(as_clause, *k, v);
        }
    }
    let u = catch(move || Unimock::new(dc).no_verify_in_drop()).map_err(|e| format!("HARNESS: construct {e}"))?;
    let first = c.kinds.iter().position(|k| p2_accepts(*k, c.a, c.b));
    let r = catch(|| u.p(c.a, c.b));
    let _ = catch(move || drop(u));
    let describe = || format!("patterns {:?} (see c01::check_two_arg for their text), call p({}, {})", c.kinds, c.a, c.b);
    match (&r, first) {
        (Ok(v), Some(i)) if *v == 100 + i as u32 => {}
        (Err(m), None) if m.contains("P2::p") => {}
        (Ok(v), Some(i)) => return Err(format!("{}: answered by pattern #{}, the first pattern whose Rust-match equivalent accepts is #{i}", describe(), v.wrapping_sub(100))),
        (Ok(v), None) => return Err(format!("{}: answered by pattern #{}, but no pattern's Rust-match equivalent accepts", describe(), v.wrapping_sub(100))),
        (Err(m), Some(i)) => return Err(format!("{}: panicked ({m}), pattern #{i} accepts", describe())),
        (Err(m), None) => return Err(format!("{}: the panic does not name the method: {m}", describe())),
    }
    let accepting = c.kinds.iter().filter(|k| p2_accepts(**k, c.a, c.b)).count();
    Ok(CaseInfo::new(c.kinds.len() >= 2)
        .class_if(accepting >= 2, "call-with-overlapping-patterns")
        .class_if(first.map(|i| i > 0).unwrap_or(false), "a-rejecting-pattern-precedes-the-accepting-one")
        .class_if(first.is_none(), "every-pattern-rejects")
        .class_if(c.one_stub, "one-stub")
        .class_if(c.kinds.iter().any(|k| matches!(k, 0 | 1 | 2 | 3 | 7 | 8)), "two-compare-macros-in-one-alternative"))
}

/// every single kind and every ordered pair of kinds x every (a, b) in 0..4 x 0..4 x {clauses, one stub}
pub fn two_arg_grid() -> Vec<TwoArgCase> {
    let mut out = vec![];
    let n = P2_KINDS as u8;
    let mut lists: Vec<Vec<u8>> = (0..n).map(|k| vec![k]).collect();
    for i in 0..n {
        for j in 0..n {
            if i != j {
                lists.push(vec![i, j]);
            }
        }
    }
    for kinds in lists {
        for a in 0..4 {
            for b in 0..4 {
                for one_stub in [false, true] {
                    out.push(TwoArgCase { kinds: kinds.clone(), a, b, one_stub });
                }
            }
        }
    }
    out
}

fn zero_strategy() -> impl Strategy<Value = ZeroCase> {
    (any::<bool>(), any::<bool>(), proptest::collection::vec(proptest::bool::weighted(0.4), 1..=5), any::<bool>(), 0..=4u8)
        .prop_map(|(partial, unit_arg, accepts, one_stub, calls)| ZeroCase { partial, unit_arg, accepts, one_stub, calls })
}

pub const RULE: &str = "scenarios = generated unordered clause lists (1-6 patterns per method, arbitrary 8-bit accept masks over args 0..8, some_call/each_call/stub forms, patterns of one method split over several clauses) x histories of up to 24 calls routed through the original or clones, strict and partial; wide-clause-lists = the same with up to 16 separate clauses over 3 methods (every mock is built from a REAL tuple of the list's arity); zero-sized-inputs = 1-5 accepting / rejecting patterns on a method without arguments or with a unit-struct argument (one stub or separate clauses), 0-4 calls, strict and partial; two-argument-macro-patterns = ten patterns over (u8, u8) written with the real matching! macro (two eq!/ne! operands in one alternative, alternatives with operands at different positions, ranges, guards), every single pattern and every ordered pair x every (a, b) in 0..4 x 0..4 x {separate clauses, one stub}, enumerated: the call is answered by the first pattern whose Rust-match equivalent accepts; racing-* = every schedule of 2-3 threads x 1-2 calls (sampled to 4x3) on two unordered patterns of one method, the first (with a response chain) accepting half of the argument domain: rejected and accepted calls race, the responses handed out equal those of the sequential run (C10's scheduler); non-trivial = some call is accepted by >= 2 patterns of its method and an earlier call to the same method already matched; distinct = distinct scenario (hash of the whole case)";

pub fn run(ctx: &Ctx) -> Verdict {
    let mut v = Verdict::new("exploration", RULE);
    v.explanation = "Model-vs-implementation comparison of every call outcome (returned tag identifies the answering pattern), side effects, and the verification message (which patterns were counted).".into();
    v.assumptions = vec![
        "each clause is wrapped in the DynClause hook (its builder type is only known at run time); the list itself is a production tuple of that arity; every terminal clause and the runtime are production code".into(),
        "build variant: std".into(),
    ];
    v.subs.push(super::replay_corpus(ctx));
    let n = ctx.tier.pick(150_000, 4_000_000);
    v.subs.push(vcore::run_proptest(ctx, "diff", n, gen::scenario(cfg()), check));
    let counted_strategy = (gen::scenario(cfg()), proptest::collection::vec(any::<u8>(), 40))
        .prop_map(|(s, d)| counted(s, d));
    v.subs
        .push(vcore::run_proptest(ctx, "counted", n, counted_strategy, check));
    let wide = (gen::scenario(cfg_wide()), proptest::collection::vec(any::<u8>(), 40), any::<bool>())
        .prop_map(|(s, d, c)| if c { counted(s, d) } else { s });
    v.subs.push(vcore::run_proptest(ctx, "wide-clause-lists", n / 3, wide, |scn| {
        check(scn).map(|i| {
            let n = scn.clauses.len();
            i.class_if(n >= 9, "clause-tuple-arity>=9").class_if(n >= 13, "clause-tuple-arity>=13")
        })
    }));
    #[cfg(feature = "std")]
    v.subs.push(vcore::run_proptest(ctx, "zero-sized-inputs", ctx.tier.pick(4_000, 100_000), zero_strategy(), check_zero));
    v.subs.push(vcore::run_enumerated(ctx, "two-argument-macro-patterns", two_arg_grid(), check_two_arg));
    // a pattern that rejects a call must not influence the answer of a concurrent call it accepts: every schedule of
    // 2-3 threads on (half-accepting pattern with a response chain, catch-all pattern) - C10's scheduler
    #[cfg(feature = "std")]
    for mut s in super::c10::run_kinds(ctx, &[(2, 1), (2, 2), (3, 1)], &[super::c10::Kind::UnorderedRejecting]) {
        let renamed = format!("racing-{}", s.name);
        s.rename(renamed);
        v.subs.push(s);
    }
    if ctx.tier == vcore::Tier::Thorough {
        v.subs.push(super::fuzz_campaign(ctx, 1_500_000));
    }
    v.subs.extend(super::variant_reports(ctx, &["nostd-spin", "nostd-nomutex"]));
    v
}

pub fn replay(_sub: &str, case: Value) -> Result<(), String> {
    #[cfg(feature = "std")]
    if _sub.starts_with("racing") {
        return super::c10::replay(_sub, case);
    }
    if _sub == "two-argument-macro-patterns" {
        let c: TwoArgCase = serde_json::from_value(case).map_err(|e| format!("HARNESS: bad case: {e}"))?;
        return check_two_arg(&c).map(|_| ());
    }
    if _sub == "zero-sized-inputs" {
        let c: ZeroCase = serde_json::from_value(case).map_err(|e| format!("HARNESS: bad case: {e}"))?;
        return check_zero(&c).map(|_| ());
    }
    let scn: Scenario = serde_json::from_value(case).map_err(|e| format!("HARNESS: bad case: {e}"))?;
    check(&scn).map(|_| ())
}
