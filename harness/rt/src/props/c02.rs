//! C02 — the k-th match of a pattern yields the response its quantifier chain assigns.

use serde_json::Value;
use vcore::{CaseInfo, Ctx, Verdict};

use crate::exec::{compare, CompareOpts, Obs};
use crate::gen::{self, Cfg};
use crate::model::{Outcome, PanicKind};
use crate::spec::*;

pub fn cfg(ordered_share: u16) -> Cfg {
    let mut cfg = Cfg::base();
    // 0: plain, 2: real fn, 4: default body, 5: both, 6: &mut plain, 7: &mut default body
    cfg.methods = vec![0, 2, 4, 5, 6, 7];
    cfg.p_unordered = 200 - ordered_share;
    cfg.p_ordered = ordered_share;
    cfg.resps = vec![
        Resp::Returns,
        Resp::ReturnsDefault,
        Resp::Answers,
        Resp::AnswersArc,
        Resp::Panics,
        Resp::Unmocked,
        Resp::DefaultImpl,
        Resp::Returns,
        Resp::Answers,
        Resp::AnswersUserPanic,
    ];
    cfg.matchers = vec![MatcherKind::FuncDebug, MatcherKind::FuncDebug, MatcherKind::Func, MatcherKind::Macro(0), MatcherKind::FuncDebug, MatcherKind::FuncUserPanic];
    cfg.max_clauses = 3;
    cfg.max_stub_pats = 2;
    cfg.max_chain = 5;
    cfg.max_n = 4;
    cfg.max_history = 28;
    cfg.guide = 215;
    cfg.prefer_match = 36;
    cfg.allow_empty_stub_chain = true;
    cfg.stop_at_deviation = true;
    cfg
}

pub fn check(scn: &Scenario) -> Result<CaseInfo, String> {
    match compare(scn, CompareOpts::default())? {
        None => Ok(CaseInfo::new(false).class("construct-error")),
        Some(cmp) => {
            let mut crossed = false;
            let mut beyond_end = false;
            let mut zero_seg = false;
            for m in cmp.final_model.methods.values() {
                for p in &m.pats {
                    if p.segs.len() >= 2 {
                        if let Some(n) = p.segs[0].1 {
                            if p.matched > n {
                                crossed = true;
                            }
                        }
                    }
                    if p.segs.iter().any(|s| s.1 == Some(0)) && p.matched > 0 {
                        zero_seg = true;
                    }
                    if !p.segs.is_empty() && p.segment_for(p.matched.saturating_sub(1)).is_none() && p.matched > 0 {
                        beyond_end = true;
                    }
                }
            }
            let twice = cmp
                .calls
                .iter()
                .any(|t| t.expected == Outcome::Panic(PanicKind::CannotReturnTwice));
            let ordered = scn.clauses.iter().any(|c| c.ordered());
            let user_panic = cmp.calls.iter().any(|t| matches!(t.observed, Obs::UserPanic(_)));
            Ok(CaseInfo::new(crossed || twice)
                .class_if(crossed, "crosses-segment-boundary")
                .class_if(twice, "single-use-requested-twice")
                .class_if(beyond_end, "matched-beyond-exact-chain")
                .class_if(zero_seg, "has-n_times(0)-segment")
                .class_if(ordered, "has-ordered-pattern")
                .class_if(user_panic, "user-panic-in-answer")
                .class_if(scn.clones > 0, "uses-clones")
                .class_if(scn.history.iter().any(|c| c.unwinding), "has-call-by-a-destructor-during-unwinding")
                .class(super::verdict_class(&cmp.model_verdict)))
        }
    }
}

/// Histories that go on after rejected calls (ordered and unordered), judged without a model of which
/// calls are accepted: whenever a call IS answered by pattern P, the segment of its tag must be the one
/// the chain assigns to P's number of earlier answered matches. Responses are answers()/answers_arc()
/// only, so that every match yields a tag.
pub fn cfg_after_rejection() -> Cfg {
    let mut cfg = cfg(130);
    cfg.resps = vec![Resp::Answers, Resp::AnswersArc];
    cfg.stop_at_deviation = false;
    cfg.prefer_match = 150;
    cfg.guide = 170;
    cfg.max_history = 28;
    cfg
}

pub fn check_after_rejection(scn: &Scenario) -> Result<CaseInfo, String> {
    let model = match crate::model::Model::new(scn.partial, &scn.clauses, &crate::traits::FACTS) {
        Ok(m) => m,
        Err(_) => return Ok(CaseInfo::new(false).class("construct-error")),
    };
    let real = crate::exec::run_real(scn);
    if let Some(e) = real.construct_error {
        return Err(format!("construction of a consistent setup panicked: {e}"));
    }
    let mut pats: std::collections::BTreeMap<u16, &crate::model::MPat> = Default::default();
    for m in model.methods.values() {
        for p in &m.pats {
            pats.insert(p.id, p);
        }
    }
    let mut answered: std::collections::BTreeMap<u16, usize> = Default::default();
    let mut rejected_before_answer = false;
    let mut rejections = 0usize;
    let mut shifted_possible = false;
    for (k, ((obs, _), call)) in real.calls.iter().zip(scn.history.iter()).enumerate() {
        match obs {
            Obs::Value(v) if *v >= 1 && *v < 5_000_000 => {
                let id = ((*v - 1) / 100) as u16;
                let seg = ((*v - 1) % 100) as usize;
                let Some(p) = pats.get(&id) else {
                    return Err(format!("call #{k}: value {v} is the tag of no configured pattern"));
                };
                let n = answered.entry(id).or_default();
                if let Some(want) = p.segment_for(*n) {
                    if want != seg {
                        return Err(format!(
                            "call #{k} {:?}: pattern P{id} answered its match #{} with the response of segment {seg}, its chain assigns segment {want} (rejected calls so far: {rejections})",
                            call,
                            *n + 1
                        ));
                    }
                }
                if rejections > 0 {
                    rejected_before_answer = true;
                    if p.segs.len() >= 2 {
                        shifted_possible = true;
                    }
                }
                *n += 1;
            }
            Obs::MockPanic(_) => rejections += 1,
            _ => {}
        }
    }
    Ok(CaseInfo::new(shifted_possible)
        .class_if(rejected_before_answer, "answered-call-after-a-rejected-one")
        .class_if(shifted_possible, "multi-segment-pattern-answers-after-a-rejection")
        .class_if(scn.clauses.iter().any(|c| c.ordered()), "has-ordered-pattern"))
}

pub const RULE: &str = "scenarios = 1-3 clauses (some_call/each_call/next_call/stub) whose patterns carry generated quantifier chains of 1-5 segments (once / n_times(0..4) joined by then(), closed by nothing, an unquantified response or at_least_times(0..4)) over all response kinds (returns, returns_default, answers, answers_arc, panics, applies_unmocked, applies_default_impl, panicking answer), histories of up to 28 calls steered to matching calls so that match counts run from 0 to beyond the chain's end, via original and clones; non-trivial = a pattern with >= 2 segments was matched past its first segment, or a single-use value was requested twice; distinct = distinct scenario";

pub fn run(ctx: &Ctx) -> Verdict {
    let mut v = Verdict::new("exploration", RULE);
    v.explanation = "Model-vs-implementation comparison: the returned tag identifies (pattern, segment), so every match index is checked against the segment arithmetic of the chain; single-use values must panic on the second request. Return values beyond the end of an all-exact chain are not compared (the property does not define them).".into();
    v.assumptions = vec![
        "each clause is wrapped in the DynClause hook (its builder type is only known at run time); the clause list itself is a production tuple of that arity; builder chain and runtime are production code".into(),
        "build variant: std".into(),
    ];
    v.subs.push(super::replay_corpus(ctx));
    let n = ctx.tier.pick(150_000, 4_000_000);
    v.subs
        .push(vcore::run_proptest(ctx, "unordered-chains", n, gen::scenario(cfg(0)), check));
    v.subs
        .push(vcore::run_proptest(ctx, "mixed-ordered-chains", n, gen::scenario(cfg(110)), check));
    v.subs.push(vcore::run_proptest(ctx, "answers-after-rejections", n / 2, gen::scenario(cfg_after_rejection()), check_after_rejection));
    // the single-use rule for every composite return shape (owned leaves up to three levels down):
    // the C12 grid (shape x entry x quantifier x 0..3 requests), here for "the second request panics"
    #[cfg(feature = "std")]
    v.subs.push(vcore::run_enumerated(ctx, "single-use-composite-shapes", super::c12::grid(), |c| {
        super::c12::check(c).map(|i| CaseInfo { nontrivial: true, classes: i.classes })
    }));
    // the same chain positions handed out to racing threads: every schedule of the small
    // configurations (engine E3, shared with C10): the multiset of responses must be positions 1..N
    #[cfg(feature = "std")]
    for mut s in super::c10::run_kinds(ctx, &[(2, 1), (2, 2), (3, 1)], &[super::c10::Kind::UnorderedChain]) {
        let renamed = format!("racing-{}", s.name);
        s.rename(renamed);
        v.subs.push(s);
    }
    v.subs.extend(super::variant_reports(ctx, &["nostd-spin"]));
    v
}

pub fn replay(_sub: &str, case: Value) -> Result<(), String> {
    if _sub == "answers-after-rejections" {
        let scn: Scenario = serde_json::from_value(case).map_err(|e| format!("HARNESS: bad case: {e}"))?;
        return check_after_rejection(&scn).map(|_| ());
    }
    #[cfg(feature = "std")]
    if _sub == "single-use-composite-shapes" {
        let c: super::c12::LinearCase = serde_json::from_value(case).map_err(|e| format!("HARNESS: bad case: {e}"))?;
        return super::c12::check(&c).map(|_| ());
    }
    #[cfg(feature = "std")]
    if _sub.starts_with("racing") {
        return super::c10::replay(_sub, case);
    }
    let scn: Scenario = serde_json::from_value(case).map_err(|e| format!("HARNESS: bad case: {e}"))?;
    check(&scn).map(|_| ())
}
