//! C20 — bundled std/core/tokio/futures/embedded-hal mocks act like hand-written impls.
//!
//! Differential: a Unimock whose *required* methods replay a generated script is driven
//! through the upstream *provided* methods, and so is a plain struct implementing the
//! upstream trait with the same script. Results, buffers and the sequence of required-method
//! calls must be identical. A wiring sweep configures one entry point at a time.

use std::io::{BufRead, IoSlice, IoSliceMut, Read, Seek, SeekFrom, Write};
use std::sync::{Arc, Mutex};

use embedded_hal::delay::DelayNs;
use embedded_hal::digital::{InputPin, OutputPin, PinState, StatefulOutputPin};
use embedded_hal::i2c::I2c;
use embedded_hal::pwm::SetDutyCycle;
use embedded_hal::spi::SpiDevice;
use proptest::collection::vec;
use proptest::prelude::*;
use serde::{Deserialize, Serialize};
use serde_json::Value;
use unimock::mock::core::fmt::{DebugMock, DisplayMock};
use unimock::mock::core::hash::HasherMock;
use unimock::mock::embedded_hal_1 as hal;
use unimock::mock::std::io::{BufReadMock, ReadMock, SeekMock, WriteMock};
use unimock::verif::DynClause;
use unimock::*;
use vcore::panics::catch;
use vcore::{CaseInfo, Ctx, Verdict};

#[derive(Clone, Copy, Debug, PartialEq, Eq, Hash, Serialize, Deserialize)]
pub enum Step {
    /// transfer up to n bytes (0 = end of stream / write zero)
    Take(u8),
    Interrupted,
    OtherError,
}

#[derive(Clone, Debug, PartialEq, Eq, Hash, Serialize, Deserialize)]
pub enum Drive {
    WriteAll(Vec<u8>),
    WriteFmt(u16, Vec<u8>),
    WriteVectored(Vec<Vec<u8>>),
    ReadExact(u8),
    ReadToEnd,
    ReadToString,
    ReadVectored(Vec<u8>),
    ReadLine,
    ReadUntil(u8),
    SeekRewind,
    SeekStreamPosition,
    Hasher(Vec<(u8, u64)>),
    Display(u8),
    DelayUs(u32),
    DelayMs(u32),
    PinSetState(bool),
    PinToggle(bool),
    I2cRead(u8, u8),
    I2cWrite(u8, Vec<u8>),
    I2cWriteRead(u8, Vec<u8>, u8),
    SpiRead(u8),
    SpiWrite(Vec<u8>),
    SpiTransfer(u8, Vec<u8>),
    SpiTransferInPlace(Vec<u8>),
    Pwm(u8, u16, u16),
}

#[derive(Clone, Debug, PartialEq, Eq, Hash, Serialize, Deserialize)]
pub struct MirrorCase {
    pub script: Vec<Step>,
    /// data the scripted stream serves (reads) — text-ish so that read_to_string can succeed
    pub data: Vec<u8>,
    pub drive: Drive,
    /// the mock is built with `Unimock::new_partial` (unmocked provided methods must still run
    /// the upstream body: the bundled mirrors register no unmock function)
    #[serde(default)]
    pub partial: bool,
    /// how the mock ends its life after the drive: 0 = dropped, 1 = `Termination::report()` (what a `#[test]`
    /// returning the mock does), 2 = `verify()`. The verdict is irrelevant here (most mirrored methods were never
    /// called); ending must not panic for a reason other than unmet expectations
    #[serde(default)]
    pub finish: u8,
    /// provided methods also get the documented catch-all `each_call(matching!(_)).applies_default_impl()`, next to
    /// a specific clause that never matches: the upstream body must still run for every call
    #[serde(default)]
    pub catch_all_default: bool,
    /// clones of the mock that merely exist while the script is driven (e.g. handed to worker threads or helper
    /// objects) and are dropped before the original ends: they must not change what any method does
    #[serde(default)]
    pub bystander_clones: u8,
}

/// Script state shared by the mock's answer functions and by the plain struct.
#[derive(Default)]
pub struct State {
    script: Vec<Step>,
    pos: usize,
    data: Vec<u8>,
    data_pos: usize,
    pub log: Vec<String>,
    sink: Vec<u8>,
    buffered: Vec<u8>,
    pin_high: bool,
}

type Shared = Arc<Mutex<State>>;

fn io_err(kind: std::io::ErrorKind) -> std::io::Error {
    std::io::Error::new(kind, "scripted")
}

impl State {
    fn next_step(&mut self) -> Step {
        let s = self.script.get(self.pos).copied().unwrap_or(Step::Take(255));
        self.pos += 1;
        s
    }
    fn write_step(&mut self, buf: &[u8]) -> std::io::Result<usize> {
        self.log.push(format!("write({buf:?})"));
        match self.next_step() {
            Step::Take(n) => {
                let n = (n as usize).min(buf.len());
                self.sink.extend_from_slice(&buf[..n]);
                Ok(n)
            }
            Step::Interrupted => Err(io_err(std::io::ErrorKind::Interrupted)),
            Step::OtherError => Err(io_err(std::io::ErrorKind::Other)),
        }
    }
    fn flush_step(&mut self) -> std::io::Result<()> {
        self.log.push("flush()".into());
        Ok(())
    }
    fn read_step(&mut self, buf: &mut [u8]) -> std::io::Result<usize> {
        self.log.push(format!("read(len {})", buf.len()));
        match self.next_step() {
            Step::Take(n) => {
                let avail = self.data.len() - self.data_pos;
                let n = (n as usize).min(buf.len()).min(avail);
                buf[..n].copy_from_slice(&self.data[self.data_pos..self.data_pos + n]);
                self.data_pos += n;
                Ok(n)
            }
            Step::Interrupted => Err(io_err(std::io::ErrorKind::Interrupted)),
            Step::OtherError => Err(io_err(std::io::ErrorKind::Other)),
        }
    }
    /// BufRead::fill_buf: returns the currently buffered chunk (refilled per script when empty)
    fn fill_step(&mut self) -> std::io::Result<Vec<u8>> {
        self.log.push("fill_buf()".into());
        if self.buffered.is_empty() {
            match self.next_step() {
                Step::Take(n) => {
                    let avail = self.data.len() - self.data_pos;
                    let n = (n as usize).max(1).min(avail);
                    self.buffered = self.data[self.data_pos..self.data_pos + n].to_vec();
                    self.data_pos += n;
                }
                Step::Interrupted => return Err(io_err(std::io::ErrorKind::Interrupted)),
                Step::OtherError => return Err(io_err(std::io::ErrorKind::Other)),
            }
        }
        Ok(self.buffered.clone())
    }
    fn consume_step(&mut self, amt: usize) {
        self.log.push(format!("consume({amt})"));
        let amt = amt.min(self.buffered.len());
        self.buffered.drain(..amt);
    }
    fn seek_step(&mut self, pos: SeekFrom) -> std::io::Result<u64> {
        self.log.push(format!("seek({pos:?})"));
        match self.next_step() {
            Step::Take(n) => Ok(n as u64 * 3),
            Step::Interrupted => Err(io_err(std::io::ErrorKind::Interrupted)),
            Step::OtherError => Err(io_err(std::io::ErrorKind::Other)),
        }
    }
}

// ------------------------------------------------------------------ plain structs

pub struct Plain(pub Shared);

impl Write for Plain {
    fn write(&mut self, buf: &[u8]) -> std::io::Result<usize> {
        self.0.lock().unwrap().write_step(buf)
    }
    fn flush(&mut self) -> std::io::Result<()> {
        self.0.lock().unwrap().flush_step()
    }
}
impl Read for Plain {
    fn read(&mut self, buf: &mut [u8]) -> std::io::Result<usize> {
        self.0.lock().unwrap().read_step(buf)
    }
}
pub struct PlainBuf(pub Shared, Vec<u8>);
impl Read for PlainBuf {
    fn read(&mut self, buf: &mut [u8]) -> std::io::Result<usize> {
        self.0.lock().unwrap().read_step(buf)
    }
}
impl BufRead for PlainBuf {
    fn fill_buf(&mut self) -> std::io::Result<&[u8]> {
        self.1 = self.0.lock().unwrap().fill_step()?;
        Ok(&self.1)
    }
    fn consume(&mut self, amt: usize) {
        self.0.lock().unwrap().consume_step(amt)
    }
}
impl Seek for Plain {
    fn seek(&mut self, pos: SeekFrom) -> std::io::Result<u64> {
        self.0.lock().unwrap().seek_step(pos)
    }
}
impl std::hash::Hasher for Plain {
    fn finish(&self) -> u64 {
        let mut s = self.0.lock().unwrap();
        s.log.push("finish()".into());
        s.sink.iter().fold(7u64, |a, b| a.wrapping_mul(31).wrapping_add(*b as u64))
    }
    fn write(&mut self, bytes: &[u8]) {
        let mut s = self.0.lock().unwrap();
        s.log.push(format!("write({bytes:?})"));
        s.sink.extend_from_slice(bytes);
    }
}
impl std::fmt::Display for Plain {
    fn fmt(&self, f: &mut std::fmt::Formatter<'_>) -> std::fmt::Result {
        display_step(&self.0, f)
    }
}
fn display_step(s: &Shared, f: &mut std::fmt::Formatter<'_>) -> std::fmt::Result {
    let mut st = s.lock().unwrap();
    st.log.push(format!("fmt(width={:?},fill={:?},alt={})", f.width(), f.fill(), f.alternate()));
    let text = String::from_utf8_lossy(&st.data).to_string();
    drop(st);
    f.pad(&text)
}
impl DelayNs for Plain {
    fn delay_ns(&mut self, ns: u32) {
        self.0.lock().unwrap().log.push(format!("delay_ns({ns})"));
    }
}
impl embedded_hal::digital::ErrorType for Plain {
    type Error = core::convert::Infallible;
}
impl OutputPin for Plain {
    fn set_low(&mut self) -> Result<(), Self::Error> {
        let mut s = self.0.lock().unwrap();
        s.log.push("set_low()".into());
        s.pin_high = false;
        Ok(())
    }
    fn set_high(&mut self) -> Result<(), Self::Error> {
        let mut s = self.0.lock().unwrap();
        s.log.push("set_high()".into());
        s.pin_high = true;
        Ok(())
    }
}
impl StatefulOutputPin for Plain {
    fn is_set_high(&mut self) -> Result<bool, Self::Error> {
        let mut s = self.0.lock().unwrap();
        s.log.push("is_set_high()".into());
        Ok(s.pin_high)
    }
    fn is_set_low(&mut self) -> Result<bool, Self::Error> {
        let mut s = self.0.lock().unwrap();
        s.log.push("is_set_low()".into());
        Ok(!s.pin_high)
    }
}
pub struct PlainI2c(pub Shared);
impl embedded_hal::i2c::ErrorType for PlainI2c {
    type Error = core::convert::Infallible;
}
fn i2c_ops(s: &Shared, address: u8, ops: &mut [embedded_hal::i2c::Operation<'_>]) {
    let mut st = s.lock().unwrap();
    let mut desc = vec![];
    for op in ops.iter_mut() {
        match op {
            embedded_hal::i2c::Operation::Read(buf) => {
                for (i, b) in buf.iter_mut().enumerate() {
                    *b = 0xA0 + i as u8;
                }
                desc.push(format!("Read(len {})", buf.len()));
            }
            embedded_hal::i2c::Operation::Write(w) => desc.push(format!("Write({w:?})")),
        }
    }
    st.log.push(format!("transaction({address}, [{}])", desc.join(", ")));
}
impl I2c for PlainI2c {
    fn transaction(&mut self, address: u8, operations: &mut [embedded_hal::i2c::Operation<'_>]) -> Result<(), Self::Error> {
        i2c_ops(&self.0, address, operations);
        Ok(())
    }
}
pub struct PlainSpi(pub Shared);
impl embedded_hal::spi::ErrorType for PlainSpi {
    type Error = core::convert::Infallible;
}
fn spi_ops(s: &Shared, ops: &mut [embedded_hal::spi::Operation<'_, u8>]) {
    let mut st = s.lock().unwrap();
    let mut desc = vec![];
    for op in ops.iter_mut() {
        match op {
            embedded_hal::spi::Operation::Read(buf) => {
                for (i, b) in buf.iter_mut().enumerate() {
                    *b = 0x50 + i as u8;
                }
                desc.push(format!("Read(len {})", buf.len()));
            }
            embedded_hal::spi::Operation::Write(w) => desc.push(format!("Write({w:?})")),
            embedded_hal::spi::Operation::Transfer(r, w) => {
                for (i, b) in r.iter_mut().enumerate() {
                    *b = 0x60 + i as u8;
                }
                desc.push(format!("Transfer(len {}, {w:?})", r.len()));
            }
            embedded_hal::spi::Operation::TransferInPlace(b) => {
                desc.push(format!("TransferInPlace({b:?})"));
                for x in b.iter_mut() {
                    *x = x.wrapping_add(1);
                }
            }
            embedded_hal::spi::Operation::DelayNs(n) => desc.push(format!("DelayNs({n})")),
        }
    }
    st.log.push(format!("transaction([{}])", desc.join(", ")));
}
impl SpiDevice for PlainSpi {
    fn transaction(&mut self, operations: &mut [embedded_hal::spi::Operation<'_, u8>]) -> Result<(), Self::Error> {
        spi_ops(&self.0, operations);
        Ok(())
    }
}
pub struct PlainPwm(pub Shared, u16);
impl embedded_hal::pwm::ErrorType for PlainPwm {
    type Error = core::convert::Infallible;
}
impl SetDutyCycle for PlainPwm {
    fn max_duty_cycle(&self) -> u16 {
        self.0.lock().unwrap().log.push("max_duty_cycle()".into());
        self.1
    }
    fn set_duty_cycle(&mut self, duty: u16) -> Result<(), Self::Error> {
        self.0.lock().unwrap().log.push(format!("set_duty_cycle({duty})"));
        Ok(())
    }
}

// ------------------------------------------------------------------ the mock with the same script

fn all<F: MockFn>() -> impl Fn(&mut unimock::private::Matching<F>) {
    |m| m.func(|_, _| true)
}

pub fn mock_for(s: &Shared, max_duty: u16, partial: bool, catch_all_default: bool) -> Unimock {
    let mut dc = DynClause::new();
    if catch_all_default {
        // a specific clause that never matches, then the catch-all that hands every call to the upstream body
        dc.push(WriteMock::write_all.each_call(&|m| m.func(|_, _| false)).answers(&|_, _| Ok(())));
        dc.push(WriteMock::write_all.each_call(&all()).applies_default_impl());
        dc.push(ReadMock::read_exact.each_call(&|m| m.func(|_, _| false)).answers(&|_, _| Ok(())));
        dc.push(ReadMock::read_exact.each_call(&all()).applies_default_impl());
        dc.push(ReadMock::read_to_end.each_call(&|m| m.func(|_, _| false)).answers(&|_, _| Ok(0)));
        dc.push(ReadMock::read_to_end.each_call(&all()).applies_default_impl());
        dc.push(hal::delay::DelayNsMock::delay_ms.each_call(&|m| m.func(|_, _| false)).returns(()));
        dc.push(hal::delay::DelayNsMock::delay_ms.each_call(&all()).applies_default_impl());
        dc.push(HasherMock::write_u32.each_call(&|m| m.func(|_, _| false)).returns(()));
        dc.push(HasherMock::write_u32.each_call(&all()).applies_default_impl());
    }
    let (a, b, c, d, e, f, g, h) = (s.clone(), s.clone(), s.clone(), s.clone(), s.clone(), s.clone(), s.clone(), s.clone());
    dc.push(WriteMock::write.each_call(&all()).answers_arc(Arc::new(move |_, buf| a.lock().unwrap().write_step(buf))));
    dc.push(WriteMock::flush.each_call(&all()).answers_arc(Arc::new(move |_| b.lock().unwrap().flush_step())));
    dc.push(ReadMock::read.each_call(&all()).answers_arc(Arc::new(move |_, buf| c.lock().unwrap().read_step(buf))));
    dc.push(BufReadMock::fill_buf.each_call(&all()).answers_arc(fill_answer(d)));
    dc.push(BufReadMock::consume.each_call(&all()).answers_arc(Arc::new(move |_, amt| e.lock().unwrap().consume_step(amt))));
    dc.push(SeekMock::seek.each_call(&all()).answers_arc(Arc::new(move |_, pos| f.lock().unwrap().seek_step(pos))));
    dc.push(HasherMock::write.each_call(&all()).answers_arc(Arc::new(move |_, bytes| {
        let mut st = g.lock().unwrap();
        st.log.push(format!("write({bytes:?})"));
        st.sink.extend_from_slice(bytes);
    })));
    dc.push(HasherMock::finish.each_call(&all()).answers_arc(Arc::new(move |_| {
        let mut st = h.lock().unwrap();
        st.log.push("finish()".into());
        st.sink.iter().fold(7u64, |a, b| a.wrapping_mul(31).wrapping_add(*b as u64))
    })));
    let (a, b, c, d, e, f, g, h) = (s.clone(), s.clone(), s.clone(), s.clone(), s.clone(), s.clone(), s.clone(), s.clone());
    dc.push(DisplayMock::fmt.each_call(&all()).answers_arc(Arc::new(move |_, fm| display_step(&a, fm))));
    dc.push(hal::delay::DelayNsMock::delay_ns.each_call(&all()).answers_arc(Arc::new(move |_, ns| {
        b.lock().unwrap().log.push(format!("delay_ns({ns})"));
    })));
    dc.push(hal::digital::OutputPinMock::set_low.each_call(&all()).answers_arc(Arc::new(move |_| {
        let mut st = c.lock().unwrap();
        st.log.push("set_low()".into());
        st.pin_high = false;
        Ok(())
    })));
    dc.push(hal::digital::OutputPinMock::set_high.each_call(&all()).answers_arc(Arc::new(move |_| {
        let mut st = d.lock().unwrap();
        st.log.push("set_high()".into());
        st.pin_high = true;
        Ok(())
    })));
    dc.push(hal::digital::StatefulOutputPinMock::is_set_high.each_call(&all()).answers_arc(Arc::new(move |_| {
        let mut st = e.lock().unwrap();
        st.log.push("is_set_high()".into());
        Ok(st.pin_high)
    })));
    dc.push(hal::digital::StatefulOutputPinMock::is_set_low.each_call(&all()).answers_arc(Arc::new(move |_| {
        let mut st = f.lock().unwrap();
        st.log.push("is_set_low()".into());
        Ok(!st.pin_high)
    })));
    dc.push(hal::i2c::I2cMock::transaction.with_types::<u8>().each_call(&all()).answers_arc(Arc::new(move |_, address, ops| {
        i2c_ops(&g, address, ops);
        Ok(())
    })));
    dc.push(hal::spi::SpiDeviceMock::transaction.with_types::<u8>().each_call(&all()).answers_arc(Arc::new(move |_, ops| {
        spi_ops(&h, ops);
        Ok(())
    })));
    let (a, b) = (s.clone(), s.clone());
    dc.push(hal::pwm::SetDutyCycleMock::max_duty_cycle.each_call(&all()).answers_arc(Arc::new(move |_| {
        a.lock().unwrap().log.push("max_duty_cycle()".into());
        max_duty
    })));
    dc.push(hal::pwm::SetDutyCycleMock::set_duty_cycle.each_call(&all()).answers_arc(Arc::new(move |_, duty| {
        b.lock().unwrap().log.push(format!("set_duty_cycle({duty})"));
        Ok(())
    })));
    if partial {
        Unimock::new_partial(dc).no_verify_in_drop()
    } else {
        Unimock::new(dc).no_verify_in_drop()
    }
}

fn fill_answer(s: Shared) -> Arc<dyn for<'u> Fn(&'u mut Unimock) -> std::io::Result<&'u [u8]> + Send + Sync> {
    fn coerce<F>(f: F) -> Arc<dyn for<'u> Fn(&'u mut Unimock) -> std::io::Result<&'u [u8]> + Send + Sync>
    where
        F: for<'u> Fn(&'u mut Unimock) -> std::io::Result<&'u [u8]> + Send + Sync + 'static,
    {
        Arc::new(f)
    }
    coerce(move |u: &mut Unimock| {
        let chunk = s.lock().unwrap().fill_step()?;
        Ok(u.make_mut(chunk).as_slice())
    })
}

fn res<T: std::fmt::Debug>(r: std::io::Result<T>) -> String {
    match r {
        Ok(v) => format!("Ok({v:?})"),
        Err(e) => format!("Err({:?})", e.kind()),
    }
}

struct Fmt<'a>(u16, &'a [u8]);
impl std::fmt::Display for Fmt<'_> {
    fn fmt(&self, f: &mut std::fmt::Formatter<'_>) -> std::fmt::Result {
        write!(f, "{}:{:?}", self.0, self.1)
    }
}

/// Apply the drive to anything implementing the upstream traits; returns the observable result.
macro_rules! drive_io {
    ($t:expr, $bt:expr, $drive:expr) => {{
        match $drive {
            Drive::WriteAll(p) => res($t.write_all(p)),
            Drive::WriteFmt(n, p) => res(write!($t, "{}-{}", n, Fmt(*n, p))),
            Drive::WriteVectored(bufs) => {
                let slices: Vec<IoSlice<'_>> = bufs.iter().map(|b| IoSlice::new(b)).collect();
                res($t.write_vectored(&slices))
            }
            Drive::ReadExact(n) => {
                let mut buf = vec![0u8; *n as usize];
                let r = $t.read_exact(&mut buf);
                format!("{} {buf:?}", res(r))
            }
            Drive::ReadToEnd => {
                let mut buf = vec![9u8];
                let r = $t.read_to_end(&mut buf);
                format!("{} {buf:?}", res(r))
            }
            Drive::ReadToString => {
                let mut buf = String::from("x");
                let r = $t.read_to_string(&mut buf);
                format!("{} {buf:?}", res(r))
            }
            Drive::ReadVectored(lens) => {
                let mut bufs: Vec<Vec<u8>> = lens.iter().map(|l| vec![0u8; *l as usize]).collect();
                let r = {
                    let mut slices: Vec<IoSliceMut<'_>> = bufs.iter_mut().map(|b| IoSliceMut::new(b)).collect();
                    $t.read_vectored(&mut slices)
                };
                format!("{} {bufs:?}", res(r))
            }
            Drive::ReadLine => {
                let mut line = String::from("l:");
                let r = $bt.read_line(&mut line);
                format!("{} {line:?}", res(r))
            }
            Drive::ReadUntil(b) => {
                let mut buf = vec![1u8];
                let r = $bt.read_until(*b, &mut buf);
                format!("{} {buf:?}", res(r))
            }
            Drive::SeekRewind => res($t.rewind()),
            Drive::SeekStreamPosition => res($t.stream_position()),
            _ => unreachable!(),
        }
    }};
}

fn new_state(c: &MirrorCase) -> Shared {
    Arc::new(Mutex::new(State { script: c.script.clone(), data: c.data.clone(), ..Default::default() }))
}

fn run_mock(c: &MirrorCase) -> (String, Vec<String>) {
    let s = new_state(c);
    let max_duty = match &c.drive {
        Drive::Pwm(_, m, _) => *m,
        _ => 100,
    };
    let mut u = mock_for(&s, max_duty, c.partial, c.catch_all_default);
    let bystanders: Vec<Unimock> = (0..c.bystander_clones).map(|_| u.clone()).collect();
    let out = match &c.drive {
        d @ (Drive::WriteAll(_) | Drive::WriteFmt(..) | Drive::WriteVectored(_) | Drive::ReadExact(_) | Drive::ReadToEnd | Drive::ReadToString
        | Drive::ReadVectored(_) | Drive::ReadLine | Drive::ReadUntil(_) | Drive::SeekRewind | Drive::SeekStreamPosition) => {
            let mut u2 = u.clone();
            let r = drive_io!(u, u2, d);
            drop(u2);
            r
        }
        Drive::Hasher(ops) => {
            use std::hash::Hasher;
            hasher_ops(&mut u, ops);
            format!("{}", Hasher::finish(&u))
        }
        Drive::Display(w) => display_with(&u, *w),
        Drive::DelayUs(n) => {
            DelayNs::delay_us(&mut u, *n);
            String::new()
        }
        Drive::DelayMs(n) => {
            DelayNs::delay_ms(&mut u, *n);
            String::new()
        }
        Drive::PinSetState(h) => format!("{:?}", OutputPin::set_state(&mut u, PinState::from(*h)).is_ok()),
        Drive::PinToggle(start) => {
            s.lock().unwrap().pin_high = *start;
            let a = StatefulOutputPin::toggle(&mut u).is_ok();
            let b = StatefulOutputPin::toggle(&mut u).is_ok();
            format!("{a} {b} {}", s.lock().unwrap().pin_high)
        }
        Drive::I2cRead(addr, n) => {
            let mut buf = vec![0u8; *n as usize];
            let r = I2c::read(&mut u, *addr, &mut buf).is_ok();
            format!("{r} {buf:?}")
        }
        Drive::I2cWrite(addr, w) => format!("{}", I2c::write(&mut u, *addr, w).is_ok()),
        Drive::I2cWriteRead(addr, w, n) => {
            let mut buf = vec![0u8; *n as usize];
            let r = I2c::write_read(&mut u, *addr, w, &mut buf).is_ok();
            format!("{r} {buf:?}")
        }
        Drive::SpiRead(n) => {
            let mut buf = vec![0u8; *n as usize];
            let r = SpiDevice::read(&mut u, &mut buf).is_ok();
            format!("{r} {buf:?}")
        }
        Drive::SpiWrite(w) => format!("{}", SpiDevice::write(&mut u, w).is_ok()),
        Drive::SpiTransfer(n, w) => {
            let mut buf = vec![0u8; *n as usize];
            let r = SpiDevice::transfer(&mut u, &mut buf, w).is_ok();
            format!("{r} {buf:?}")
        }
        Drive::SpiTransferInPlace(w) => {
            let mut buf = w.clone();
            let r = SpiDevice::transfer_in_place(&mut u, &mut buf).is_ok();
            format!("{r} {buf:?}")
        }
        Drive::Pwm(sel, _, x) => pwm_drive(&mut u, *sel, *x),
    };
    drop(bystanders);
    match c.finish % 3 {
        1 => {
            use std::process::Termination;
            let _code = u.report();
        }
        2 => {
            if let Err(msg) = catch(move || u.verify()) {
                // unmet expectations are expected; lifecycle complaints are not
                if msg.contains("clones still alive") || msg.contains("different thread") {
                    panic!("verify() after the drive: {msg}");
                }
            }
        }
        _ => drop(u),
    }
    let log = s.lock().unwrap().log.clone();
    (out, log)
}

fn hasher_ops(h: &mut impl std::hash::Hasher, ops: &[(u8, u64)]) {
    for (k, v) in ops {
        match k % 13 {
            0 => h.write_u8(*v as u8),
            1 => h.write_u16(*v as u16),
            2 => h.write_u32(*v as u32),
            3 => h.write_u64(*v),
            4 => h.write_u128(*v as u128 * 3),
            5 => h.write_usize(*v as usize),
            6 => h.write_i8(*v as i8),
            7 => h.write_i16(*v as i16),
            8 => h.write_i32(*v as i32),
            9 => h.write_i64(*v as i64),
            10 => h.write_i128(-(*v as i128)),
            11 => h.write_isize(*v as isize),
            _ => h.write(&v.to_le_bytes()[..(*v % 8) as usize]),
        }
    }
}

fn display_with(d: &impl std::fmt::Display, w: u8) -> String {
    match w % 5 {
        0 => format!("{d}"),
        1 => format!("[{d:>12}]"),
        2 => format!("[{d:*<9}]"),
        3 => format!("[{d:^7}]"),
        _ => d.to_string(),
    }
}

fn pwm_drive<P: SetDutyCycle>(p: &mut P, sel: u8, x: u16) -> String {
    match sel % 4 {
        0 => format!("{}", p.set_duty_cycle_fully_off().is_ok()),
        1 => format!("{}", p.set_duty_cycle_fully_on().is_ok()),
        2 => format!("{}", p.set_duty_cycle_fraction(x % 7, 7).is_ok()),
        _ => format!("{}", p.set_duty_cycle_percent((x % 101) as u8).is_ok()),
    }
}

fn run_plain(c: &MirrorCase) -> (String, Vec<String>) {
    let s = new_state(c);
    let out = match &c.drive {
        d @ (Drive::WriteAll(_) | Drive::WriteFmt(..) | Drive::WriteVectored(_) | Drive::ReadExact(_) | Drive::ReadToEnd | Drive::ReadToString
        | Drive::ReadVectored(_) | Drive::ReadLine | Drive::ReadUntil(_) | Drive::SeekRewind | Drive::SeekStreamPosition) => {
            let mut p = Plain(s.clone());
            let mut pb = PlainBuf(s.clone(), vec![]);
            drive_io!(p, pb, d)
        }
        Drive::Hasher(ops) => {
            use std::hash::Hasher;
            let mut p = Plain(s.clone());
            hasher_ops(&mut p, ops);
            format!("{}", p.finish())
        }
        Drive::Display(w) => display_with(&Plain(s.clone()), *w),
        Drive::DelayUs(n) => {
            Plain(s.clone()).delay_us(*n);
            String::new()
        }
        Drive::DelayMs(n) => {
            Plain(s.clone()).delay_ms(*n);
            String::new()
        }
        Drive::PinSetState(h) => format!("{:?}", Plain(s.clone()).set_state(PinState::from(*h)).is_ok()),
        Drive::PinToggle(start) => {
            s.lock().unwrap().pin_high = *start;
            let mut p = Plain(s.clone());
            let a = p.toggle().is_ok();
            let b = p.toggle().is_ok();
            format!("{a} {b} {}", s.lock().unwrap().pin_high)
        }
        Drive::I2cRead(addr, n) => {
            let mut buf = vec![0u8; *n as usize];
            let r = PlainI2c(s.clone()).read(*addr, &mut buf).is_ok();
            format!("{r} {buf:?}")
        }
        Drive::I2cWrite(addr, w) => format!("{}", PlainI2c(s.clone()).write(*addr, w).is_ok()),
        Drive::I2cWriteRead(addr, w, n) => {
            let mut buf = vec![0u8; *n as usize];
            let r = PlainI2c(s.clone()).write_read(*addr, w, &mut buf).is_ok();
            format!("{r} {buf:?}")
        }
        Drive::SpiRead(n) => {
            let mut buf = vec![0u8; *n as usize];
            let r = PlainSpi(s.clone()).read(&mut buf).is_ok();
            format!("{r} {buf:?}")
        }
        Drive::SpiWrite(w) => format!("{}", PlainSpi(s.clone()).write(w).is_ok()),
        Drive::SpiTransfer(n, w) => {
            let mut buf = vec![0u8; *n as usize];
            let r = PlainSpi(s.clone()).transfer(&mut buf, w).is_ok();
            format!("{r} {buf:?}")
        }
        Drive::SpiTransferInPlace(w) => {
            let mut buf = w.clone();
            let r = PlainSpi(s.clone()).transfer_in_place(&mut buf).is_ok();
            format!("{r} {buf:?}")
        }
        Drive::Pwm(sel, max, x) => pwm_drive(&mut PlainPwm(s.clone(), *max), *sel, *x),
    };
    let log = s.lock().unwrap().log.clone();
    (out, log)
}

pub fn check(c: &MirrorCase) -> Result<CaseInfo, String> {
    let plain = catch(|| run_plain(c)).map_err(|p| format!("HARNESS: the plain struct panicked: {p}"))?;
    let mock = catch(|| run_mock(c)).map_err(|p| format!("the mock panicked where the plain implementation did not: {p} (drive {:?})", c.drive))?;
    if mock.1 != plain.1 {
        return Err(format!(
            "{:?}: the mocked required methods saw {:?}, a plain implementation with the same script sees {:?}",
            c.drive, mock.1, plain.1
        ));
    }
    if mock.0 != plain.0 {
        return Err(format!("{:?}: the mock produced {:?}, a plain implementation produces {:?}", c.drive, mock.0, plain.0));
    }
    let short = c.script.iter().take(plain.1.len().max(1)).any(|s| !matches!(s, Step::Take(255)));
    let name: &'static str = match &c.drive {
        Drive::WriteAll(_) => "Write::write_all",
        Drive::WriteFmt(..) => "Write::write_fmt",
        Drive::WriteVectored(_) => "Write::write_vectored",
        Drive::ReadExact(_) => "Read::read_exact",
        Drive::ReadToEnd => "Read::read_to_end",
        Drive::ReadToString => "Read::read_to_string",
        Drive::ReadVectored(_) => "Read::read_vectored",
        Drive::ReadLine => "BufRead::read_line",
        Drive::ReadUntil(_) => "BufRead::read_until",
        Drive::SeekRewind => "Seek::rewind",
        Drive::SeekStreamPosition => "Seek::stream_position",
        Drive::Hasher(_) => "Hasher::write_*",
        Drive::Display(_) => "Display via format!",
        Drive::DelayUs(_) => "DelayNs::delay_us",
        Drive::DelayMs(_) => "DelayNs::delay_ms",
        Drive::PinSetState(_) => "OutputPin::set_state",
        Drive::PinToggle(_) => "StatefulOutputPin::toggle",
        Drive::I2cRead(..) => "I2c::read",
        Drive::I2cWrite(..) => "I2c::write",
        Drive::I2cWriteRead(..) => "I2c::write_read",
        Drive::SpiRead(_) => "SpiDevice::read",
        Drive::SpiWrite(_) => "SpiDevice::write",
        Drive::SpiTransfer(..) => "SpiDevice::transfer",
        Drive::SpiTransferInPlace(_) => "SpiDevice::transfer_in_place",
        Drive::Pwm(..) => "SetDutyCycle::set_duty_cycle_*",
    };
    Ok(CaseInfo::new(short || plain.1.len() >= 2).class(name).class_if(short, "short-transfer-or-error-in-script").class_if(c.partial, "partial-mock").class_if(c.finish % 3 == 1, "ended-by-report()").class_if(c.finish % 3 == 2, "ended-by-verify()").class_if(c.catch_all_default, "catch-all-applies_default_impl-clauses").class_if(c.bystander_clones >= 5, "five-or-more-live-clones-during-the-drive").class_if((1..5).contains(&c.bystander_clones), "1-4-live-clones-during-the-drive"))
}

fn step_strategy() -> impl Strategy<Value = Step> {
    prop_oneof![5 => (0..6u8).prop_map(Step::Take), 3 => Just(Step::Take(255)), 1 => Just(Step::Interrupted), 1 => Just(Step::OtherError)]
}

fn drive_strategy() -> impl Strategy<Value = Drive> {
    let bytes = || vec(any::<u8>(), 0..12);
    prop_oneof![
        bytes().prop_map(Drive::WriteAll),
        (any::<u16>(), vec(any::<u8>(), 0..4)).prop_map(|(n, p)| Drive::WriteFmt(n, p)),
        vec(vec(any::<u8>(), 0..4), 0..4).prop_map(Drive::WriteVectored),
        (0..14u8).prop_map(Drive::ReadExact),
        Just(Drive::ReadToEnd),
        Just(Drive::ReadToString),
        vec(0..5u8, 0..4).prop_map(Drive::ReadVectored),
        Just(Drive::ReadLine),
        prop_oneof![Just(b'\n'), Just(b'a'), Just(0u8)].prop_map(Drive::ReadUntil),
        Just(Drive::SeekRewind),
        Just(Drive::SeekStreamPosition),
        vec((any::<u8>(), any::<u64>()), 0..6).prop_map(Drive::Hasher),
        any::<u8>().prop_map(Drive::Display),
        prop_oneof![0..5000u32, Just(u32::MAX / 1000), Just(u32::MAX / 1000 + 1), 4_290_000u32..4_300_000, 4_000_000..40_000_000u32].prop_map(Drive::DelayUs),
        prop_oneof![0..5000u32, Just(4294), Just(4295), Just(9000), 4000..60_000u32].prop_map(Drive::DelayMs),
        any::<bool>().prop_map(Drive::PinSetState),
        any::<bool>().prop_map(Drive::PinToggle),
        (any::<u8>(), 0..5u8).prop_map(|(a, n)| Drive::I2cRead(a, n)),
        (any::<u8>(), vec(any::<u8>(), 0..5)).prop_map(|(a, w)| Drive::I2cWrite(a, w)),
        (any::<u8>(), vec(any::<u8>(), 0..5), 0..5u8).prop_map(|(a, w, n)| Drive::I2cWriteRead(a, w, n)),
        (0..5u8).prop_map(Drive::SpiRead),
        vec(any::<u8>(), 0..5).prop_map(Drive::SpiWrite),
        (0..5u8, vec(any::<u8>(), 0..5)).prop_map(|(n, w)| Drive::SpiTransfer(n, w)),
        vec(any::<u8>(), 0..5).prop_map(Drive::SpiTransferInPlace),
        (any::<u8>(), 1..5000u16, any::<u16>()).prop_map(|(s, m, x)| Drive::Pwm(s, m, x)),
    ]
}

pub fn case_strategy() -> impl Strategy<Value = MirrorCase> {
    (
        vec(step_strategy(), 0..10),
        vec(prop_oneof![4 => 97..123u8, 1 => Just(b'\n'), 1 => any::<u8>()], 0..16),
        drive_strategy(),
        any::<bool>(),
        0..3u8,
        proptest::bool::weighted(0.3),
        prop_oneof![3 => Just(0u8), 1 => 1..=4u8, 1 => 5..=16u8],
    )
        .prop_map(|(script, data, drive, partial, finish, catch_all_default, bystander_clones)| MirrorCase { script, data, drive, partial, finish, catch_all_default, bystander_clones })
}

// ------------------------------------------------------------------ wiring sweep

/// One entry point configured at a time; calling the upstream method must reach exactly it.
pub fn wiring_sweep(partial: bool) -> Vec<(&'static str, Result<(), String>)> {
    // every probe builds its mock through `mk`: strict, or partial (same expectations: the mirrors have no unmock function)
    let mk_partial = partial;
    macro_rules! mk {
        ($c:expr $(,)?) => {
            if mk_partial { Unimock::new_partial($c) } else { Unimock::new($c) }
        };
    }
    use std::task::{Context, Poll};
    let mut out: Vec<(&'static str, Result<(), String>)> = vec![];
    let mut probe = |name: &'static str, f: &mut dyn FnMut() -> Result<(), String>| {
        let r = catch(|| f()).unwrap_or_else(|p| Err(format!("panicked: {p}")));
        out.push((name, r));
    };
    fn eq<T: PartialEq + std::fmt::Debug>(got: T, want: T) -> Result<(), String> {
        if got == want {
            Ok(())
        } else {
            Err(format!("answered {got:?}, the configured entry point answers {want:?}"))
        }
    }
    // embedded-hal digital: same-signature neighbours
    probe("InputPin::is_high", &mut || {
        let mut u = mk!(hal::digital::InputPinMock::is_high.next_call(&all()).returns(Ok(true)));
        eq(InputPin::is_high(&mut u).ok(), Some(true))
    });
    probe("InputPin::is_low", &mut || {
        let mut u = mk!(hal::digital::InputPinMock::is_low.next_call(&all()).returns(Ok(true)));
        eq(InputPin::is_low(&mut u).ok(), Some(true))
    });
    probe("OutputPin::set_low", &mut || {
        let mut u = mk!(hal::digital::OutputPinMock::set_low.next_call(&all()).returns(Ok(())));
        eq(OutputPin::set_low(&mut u).is_ok(), true)
    });
    probe("OutputPin::set_high", &mut || {
        let mut u = mk!(hal::digital::OutputPinMock::set_high.next_call(&all()).returns(Ok(())));
        eq(OutputPin::set_high(&mut u).is_ok(), true)
    });
    probe("OutputPin::set_state(mocked directly)", &mut || {
        let mut u = mk!(hal::digital::OutputPinMock::set_state.next_call(&all()).returns(Ok(())));
        eq(OutputPin::set_state(&mut u, PinState::High).is_ok(), true)
    });
    probe("StatefulOutputPin::is_set_high", &mut || {
        let mut u = mk!(hal::digital::StatefulOutputPinMock::is_set_high.next_call(&all()).returns(Ok(true)));
        eq(StatefulOutputPin::is_set_high(&mut u).ok(), Some(true))
    });
    probe("StatefulOutputPin::is_set_low", &mut || {
        let mut u = mk!(hal::digital::StatefulOutputPinMock::is_set_low.next_call(&all()).returns(Ok(true)));
        eq(StatefulOutputPin::is_set_low(&mut u).ok(), Some(true))
    });
    probe("StatefulOutputPin::toggle(mocked directly)", &mut || {
        let mut u = mk!(hal::digital::StatefulOutputPinMock::toggle.next_call(&all()).returns(Ok(())));
        eq(StatefulOutputPin::toggle(&mut u).is_ok(), true)
    });
    probe("digital::Error::kind", &mut || {
        let u = mk!(hal::digital::ErrorMock::kind.next_call(&all()).returns(embedded_hal::digital::ErrorKind::Other));
        eq(format!("{:?}", embedded_hal::digital::Error::kind(&u)), "Other".to_string())
    });
    probe("DelayNs::delay_us(mocked directly)", &mut || {
        let mut u = mk!(hal::delay::DelayNsMock::delay_us.next_call(&|m| m.func(|us: &u32, _| *us == 77)).returns(()));
        DelayNs::delay_us(&mut u, 77);
        Ok(())
    });
    probe("DelayNs::delay_ms(mocked directly)", &mut || {
        let mut u = mk!(hal::delay::DelayNsMock::delay_ms.next_call(&|m| m.func(|ms: &u32, _| *ms == 78)).returns(()));
        DelayNs::delay_ms(&mut u, 78);
        Ok(())
    });
    // spi bus: five required methods
    probe("SpiBus::read", &mut || {
        let mut u = mk!(hal::spi::SpiBusMock::read.with_types::<u8>().next_call(&all()).answers(&|_, w| {
            w[0] = 11;
            Ok(())
        }));
        let mut b = [0u8; 1];
        let _ = embedded_hal::spi::SpiBus::read(&mut u, &mut b);
        eq(b[0], 11)
    });
    probe("SpiBus::write", &mut || {
        let mut u = mk!(hal::spi::SpiBusMock::write.with_types::<u8>().next_call(&|m| m.func(|w: &&[u8], _| *w == [5u8])).returns(Ok(())));
        eq(embedded_hal::spi::SpiBus::write(&mut u, &[5u8]).is_ok(), true)
    });
    probe("SpiBus::transfer", &mut || {
        let mut u = mk!(hal::spi::SpiBusMock::transfer.with_types::<u8>().next_call(&all()).answers(&|_, r, w| {
            r[0] = w[0] + 1;
            Ok(())
        }));
        let mut b = [0u8; 1];
        let _ = embedded_hal::spi::SpiBus::transfer(&mut u, &mut b, &[8u8]);
        eq(b[0], 9)
    });
    probe("SpiBus::transfer_in_place", &mut || {
        let mut u = mk!(hal::spi::SpiBusMock::transfer_in_place.with_types::<u8>().next_call(&all()).answers(&|_, w| {
            w[0] = 21;
            Ok(())
        }));
        let mut b = [0u8; 1];
        let _ = embedded_hal::spi::SpiBus::transfer_in_place(&mut u, &mut b);
        eq(b[0], 21)
    });
    probe("SpiBus::flush", &mut || {
        let mut u = mk!(hal::spi::SpiBusMock::flush.with_types::<u8>().next_call(&all()).returns(Ok(())));
        eq(embedded_hal::spi::SpiBus::<u8>::flush(&mut u).is_ok(), true)
    });
    // std io: methods mocked directly must pre-empt the default body
    probe("Write::write_all(mocked directly)", &mut || {
        let mut u = mk!(WriteMock::write_all.next_call(&|m| m.func(|b: &&[u8], _| *b == b"xyz")).returns(Ok(())));
        eq(Write::write_all(&mut u, b"xyz").is_ok(), true)
    });
    probe("Read::read_to_end(mocked directly)", &mut || {
        let mut u = mk!(ReadMock::read_to_end.next_call(&all()).answers(&|_, v| {
            v.push(42);
            Ok(1)
        }));
        let mut v = vec![];
        let r = Read::read_to_end(&mut u, &mut v).ok();
        eq((r, v), (Some(1), vec![42]))
    });
    probe("Seek::stream_position(mocked directly)", &mut || {
        let mut u = mk!(SeekMock::stream_position.next_call(&all()).returns(Ok(99)));
        eq(Seek::stream_position(&mut u).ok(), Some(99))
    });
    probe("Debug::fmt", &mut || {
        let u = mk!(DebugMock::fmt.next_call(&all()).answers(&|_, f| f.write_str("dbg!")));
        eq(format!("{u:?}"), "dbg!".to_string())
    });
    probe("Display::fmt", &mut || {
        let u = mk!(DisplayMock::fmt.next_call(&all()).answers(&|_, f| f.write_str("dsp!")));
        eq(format!("{u}"), "dsp!".to_string())
    });
    probe("Error::source(default)", &mut || {
        let u = mk!(());
        eq(std::error::Error::source(&u).is_none(), true)
    });
    // tokio / futures async io: poll_* entry points and the vectored defaults
    let waker = {
        struct W;
        impl std::task::Wake for W {
            fn wake(self: Arc<Self>) {}
        }
        std::task::Waker::from(Arc::new(W))
    };
    {
        use unimock::mock::tokio_1::io as t;
        let w2 = waker.clone();
        probe("tokio AsyncWrite::poll_write", &mut || {
            let mut u = mk!(t::AsyncWriteMock::poll_write.next_call(&all()).answers(&|_, _, buf| Poll::Ready(Ok(buf.len() + 100))));
            let mut cx = Context::from_waker(&w2);
            let r = tokio::io::AsyncWrite::poll_write(std::pin::Pin::new(&mut u), &mut cx, b"ab");
            eq(format!("{r:?}"), "Ready(Ok(102))".to_string())
        });
        let w2 = waker.clone();
        probe("tokio AsyncWrite::poll_flush", &mut || {
            let mut u = mk!(t::AsyncWriteMock::poll_flush.next_call(&all()).returns(Poll::Ready(Ok(()))));
            let mut cx = Context::from_waker(&w2);
            eq(format!("{:?}", tokio::io::AsyncWrite::poll_flush(std::pin::Pin::new(&mut u), &mut cx)), "Ready(Ok(()))".to_string())
        });
        let w2 = waker.clone();
        probe("tokio AsyncWrite::poll_shutdown", &mut || {
            let mut u = mk!(t::AsyncWriteMock::poll_shutdown.next_call(&all()).returns(Poll::Pending));
            let mut cx = Context::from_waker(&w2);
            eq(format!("{:?}", tokio::io::AsyncWrite::poll_shutdown(std::pin::Pin::new(&mut u), &mut cx)), "Pending".to_string())
        });
        let w2 = waker.clone();
        probe("tokio AsyncWrite::poll_write_vectored(default)", &mut || {
            // upstream default: the first non-empty buffer goes to poll_write
            let mut u = mk!(
                t::AsyncWriteMock::poll_write.next_call(&|m| m.func(|(_, buf), _| *buf == b"cd")).returns(Poll::Ready(Ok(2))),
            );
            let mut cx = Context::from_waker(&w2);
            let bufs = [IoSlice::new(b""), IoSlice::new(b"cd"), IoSlice::new(b"ef")];
            let r = tokio::io::AsyncWrite::poll_write_vectored(std::pin::Pin::new(&mut u), &mut cx, &bufs);
            eq(format!("{r:?}"), "Ready(Ok(2))".to_string())
        });
        probe("tokio AsyncWrite::is_write_vectored(default)", &mut || {
            let u = mk!(());
            eq(tokio::io::AsyncWrite::is_write_vectored(&u), false)
        });
        let w2 = waker.clone();
        probe("tokio AsyncRead::poll_read", &mut || {
            let mut u = mk!(t::AsyncReadMock::poll_read.next_call(&all()).answers(&|_, _, buf| {
                buf.put_slice(b"hi");
                Poll::Ready(Ok(()))
            }));
            let mut cx = Context::from_waker(&w2);
            let mut storage = [0u8; 4];
            let mut rb = tokio::io::ReadBuf::new(&mut storage);
            let _ = tokio::io::AsyncRead::poll_read(std::pin::Pin::new(&mut u), &mut cx, &mut rb);
            eq(rb.filled().to_vec(), b"hi".to_vec())
        });
        let w2 = waker.clone();
        probe("tokio AsyncSeek::start_seek/poll_complete", &mut || {
            let mut u = mk!((
                t::AsyncSeekMock::start_seek.next_call(&|m| m.func(|p: &tokio::io::SeekFrom, _| *p == tokio::io::SeekFrom::Start(5))).returns(Ok(())),
                t::AsyncSeekMock::poll_complete.next_call(&all()).returns(Poll::Ready(Ok(5))),
            ));
            let mut cx = Context::from_waker(&w2);
            let a = tokio::io::AsyncSeek::start_seek(std::pin::Pin::new(&mut u), tokio::io::SeekFrom::Start(5)).is_ok();
            let b = format!("{:?}", tokio::io::AsyncSeek::poll_complete(std::pin::Pin::new(&mut u), &mut cx));
            eq((a, b), (true, "Ready(Ok(5))".to_string()))
        });
    }
    {
        use unimock::mock::futures_0_3::io as f;
        let w2 = waker.clone();
        probe("futures AsyncRead::poll_read_vectored(default)", &mut || {
            let mut u = mk!(f::AsyncReadMock::poll_read.next_call(&|m| m.func(|(_, buf), _| buf.len() == 3)).answers(&|_, _, buf| {
                buf[0] = 7;
                Poll::Ready(Ok(1))
            }));
            let mut cx = Context::from_waker(&w2);
            let (mut a, mut b) = ([0u8; 0], [0u8; 3]);
            let r = {
                let mut bufs = [IoSliceMut::new(&mut a), IoSliceMut::new(&mut b)];
                futures_io::AsyncRead::poll_read_vectored(std::pin::Pin::new(&mut u), &mut cx, &mut bufs)
            };
            eq((format!("{r:?}"), b[0]), ("Ready(Ok(1))".to_string(), 7))
        });
        let w2 = waker.clone();
        probe("futures AsyncWrite::poll_close", &mut || {
            let mut u = mk!(f::AsyncWriteMock::poll_close.next_call(&all()).returns(Poll::Ready(Ok(()))));
            let mut cx = Context::from_waker(&w2);
            eq(format!("{:?}", futures_io::AsyncWrite::poll_close(std::pin::Pin::new(&mut u), &mut cx)), "Ready(Ok(()))".to_string())
        });
        let w2 = waker.clone();
        probe("futures AsyncWrite::poll_flush", &mut || {
            let mut u = mk!(f::AsyncWriteMock::poll_flush.next_call(&all()).returns(Poll::Pending));
            let mut cx = Context::from_waker(&w2);
            eq(format!("{:?}", futures_io::AsyncWrite::poll_flush(std::pin::Pin::new(&mut u), &mut cx)), "Pending".to_string())
        });
        let w2 = waker.clone();
        probe("futures AsyncSeek::poll_seek", &mut || {
            let mut u = mk!(f::AsyncSeekMock::poll_seek.next_call(&all()).returns(Poll::Ready(Ok(12))));
            let mut cx = Context::from_waker(&w2);
            eq(format!("{:?}", futures_io::AsyncSeek::poll_seek(std::pin::Pin::new(&mut u), &mut cx, futures_io::SeekFrom::End(-1))), "Ready(Ok(12))".to_string())
        });
    }
    // ---- every remaining method of every mirrored trait, each through its own entry point ----
    probe("Hasher::finish", &mut || {
        let u = mk!(HasherMock::finish.next_call(&all()).returns(77u64));
        eq(std::hash::Hasher::finish(&u), 77)
    });
    probe("Hasher::write", &mut || {
        let mut u = mk!(HasherMock::write.next_call(&|m| m.func(|b: &&[u8], _| *b == [1u8, 2])).returns(()));
        std::hash::Hasher::write(&mut u, &[1, 2]);
        Ok(())
    });
    macro_rules! hasher_direct {
        ($($name:literal, $entry:ident, $ty:ty, $val:expr;)*) => {$(
            probe($name, &mut || {
                let mut u = mk!(HasherMock::$entry.next_call(&|m| m.func(|i: &$ty, _| *i == $val)).returns(()));
                std::hash::Hasher::$entry(&mut u, $val);
                Ok(())
            });
        )*};
    }
    hasher_direct! {
        "Hasher::write_u8(mocked directly)", write_u8, u8, 7u8;
        "Hasher::write_u16(mocked directly)", write_u16, u16, 7u16;
        "Hasher::write_u32(mocked directly)", write_u32, u32, 7u32;
        "Hasher::write_u64(mocked directly)", write_u64, u64, 7u64;
        "Hasher::write_u128(mocked directly)", write_u128, u128, 7u128;
        "Hasher::write_usize(mocked directly)", write_usize, usize, 7usize;
        "Hasher::write_i8(mocked directly)", write_i8, i8, -7i8;
        "Hasher::write_i16(mocked directly)", write_i16, i16, -7i16;
        "Hasher::write_i32(mocked directly)", write_i32, i32, -7i32;
        "Hasher::write_i64(mocked directly)", write_i64, i64, -7i64;
        "Hasher::write_i128(mocked directly)", write_i128, i128, -7i128;
        "Hasher::write_isize(mocked directly)", write_isize, isize, -7isize;
    }
    probe("Write::write", &mut || {
        let mut u = mk!(WriteMock::write.next_call(&|m| m.func(|b: &&[u8], _| *b == b"ab")).returns(Ok(1)));
        eq(Write::write(&mut u, b"ab").ok(), Some(1))
    });
    probe("Write::flush", &mut || {
        let mut u = mk!(WriteMock::flush.next_call(&all()).returns(Ok(())));
        eq(Write::flush(&mut u).is_ok(), true)
    });
    probe("Write::write_vectored(mocked directly)", &mut || {
        let mut u = mk!(WriteMock::write_vectored.next_call(&all()).returns(Ok(5)));
        eq(Write::write_vectored(&mut u, &[IoSlice::new(b"x")]).ok(), Some(5))
    });
    probe("Read::read", &mut || {
        let mut u = mk!(ReadMock::read.next_call(&all()).answers(&|_, buf| {
            buf[0] = 9;
            Ok(1)
        }));
        let mut b = [0u8; 2];
        let r = Read::read(&mut u, &mut b).ok();
        eq((r, b[0]), (Some(1), 9))
    });
    probe("Read::read_vectored(mocked directly)", &mut || {
        let mut u = mk!(ReadMock::read_vectored.next_call(&all()).returns(Ok(6)));
        let mut b = [0u8; 2];
        eq(Read::read_vectored(&mut u, &mut [IoSliceMut::new(&mut b)]).ok(), Some(6))
    });
    probe("Read::read_to_string(mocked directly)", &mut || {
        let mut u = mk!(ReadMock::read_to_string.next_call(&all()).answers(&|_, s| {
            s.push_str("hey");
            Ok(3)
        }));
        let mut s = String::new();
        let r = Read::read_to_string(&mut u, &mut s).ok();
        eq((r, s), (Some(3), "hey".to_string()))
    });
    probe("Read::read_exact(mocked directly)", &mut || {
        let mut u = mk!(ReadMock::read_exact.next_call(&all()).answers(&|_, b| {
            b[1] = 4;
            Ok(())
        }));
        let mut b = [0u8; 2];
        let r = Read::read_exact(&mut u, &mut b).is_ok();
        eq((r, b[1]), (true, 4))
    });
    probe("Seek::seek", &mut || {
        let mut u = mk!(SeekMock::seek.next_call(&|m| m.func(|p: &SeekFrom, _| *p == SeekFrom::Start(3))).returns(Ok(3)));
        eq(Seek::seek(&mut u, SeekFrom::Start(3)).ok(), Some(3))
    });
    probe("Seek::rewind(mocked directly)", &mut || {
        let mut u = mk!(SeekMock::rewind.next_call(&all()).returns(Ok(())));
        eq(Seek::rewind(&mut u).is_ok(), true)
    });
    probe("BufRead::fill_buf", &mut || {
        let mut u = mk!(BufReadMock::fill_buf.next_call(&all()).returns(Ok::<Vec<u8>, std::io::Error>(vec![5u8, 6])));
        eq(BufRead::fill_buf(&mut u).ok().map(|b| b.to_vec()), Some(vec![5u8, 6]))
    });
    probe("BufRead::consume", &mut || {
        let mut u = mk!(BufReadMock::consume.next_call(&|m| m.func(|n: &usize, _| *n == 4)).returns(()));
        BufRead::consume(&mut u, 4);
        Ok(())
    });
    probe("BufRead::read_until(mocked directly)", &mut || {
        let mut u = mk!(BufReadMock::read_until.next_call(&all()).answers(&|_, byte, buf| {
            buf.push(byte);
            Ok(1)
        }));
        let mut v = vec![];
        let r = BufRead::read_until(&mut u, b'q', &mut v).ok();
        eq((r, v), (Some(1), vec![b'q']))
    });
    probe("BufRead::read_line(mocked directly)", &mut || {
        let mut u = mk!(BufReadMock::read_line.next_call(&all()).answers(&|_, s| {
            s.push_str("line\n");
            Ok(5)
        }));
        let mut s = String::new();
        let r = BufRead::read_line(&mut u, &mut s).ok();
        eq((r, s), (Some(5), "line\n".to_string()))
    });
    probe("DelayNs::delay_ns", &mut || {
        let mut u = mk!(hal::delay::DelayNsMock::delay_ns.next_call(&|m| m.func(|ns: &u32, _| *ns == 76)).returns(()));
        DelayNs::delay_ns(&mut u, 76);
        Ok(())
    });
    probe("i2c::Error::kind", &mut || {
        let u = mk!(hal::i2c::ErrorMock::kind.next_call(&all()).returns(embedded_hal::i2c::ErrorKind::Bus));
        eq(format!("{:?}", embedded_hal::i2c::Error::kind(&u)), "Bus".to_string())
    });
    probe("pwm::Error::kind", &mut || {
        let u = mk!(hal::pwm::ErrorMock::kind.next_call(&all()).returns(embedded_hal::pwm::ErrorKind::Other));
        eq(format!("{:?}", embedded_hal::pwm::Error::kind(&u)), "Other".to_string())
    });
    probe("spi::Error::kind", &mut || {
        let u = mk!(hal::spi::ErrorMock::kind.next_call(&all()).returns(embedded_hal::spi::ErrorKind::Overrun));
        eq(format!("{:?}", embedded_hal::spi::Error::kind(&u)), "Overrun".to_string())
    });
    probe("I2c::transaction", &mut || {
        let mut u = mk!(hal::i2c::I2cMock::transaction.with_types::<u8>().next_call(&all()).returns(Ok(())));
        eq(I2c::transaction(&mut u, 3u8, &mut []).is_ok(), true)
    });
    probe("I2c::read(mocked directly)", &mut || {
        let mut u = mk!(hal::i2c::I2cMock::read.with_types::<u8>().next_call(&all()).answers(&|_, _, b| {
            b[0] = 31;
            Ok(())
        }));
        let mut b = [0u8; 1];
        let r = I2c::read(&mut u, 3u8, &mut b).is_ok();
        eq((r, b[0]), (true, 31))
    });
    probe("I2c::write(mocked directly)", &mut || {
        let mut u = mk!(hal::i2c::I2cMock::write.with_types::<u8>().next_call(&all()).returns(Ok(())));
        eq(I2c::write(&mut u, 3u8, &[1]).is_ok(), true)
    });
    probe("I2c::write_read(mocked directly)", &mut || {
        let mut u = mk!(hal::i2c::I2cMock::write_read.with_types::<u8>().next_call(&all()).answers(&|_, _, w, r| {
            r[0] = w[0] + 2;
            Ok(())
        }));
        let mut b = [0u8; 1];
        let r = I2c::write_read(&mut u, 3u8, &[40], &mut b).is_ok();
        eq((r, b[0]), (true, 42))
    });
    probe("SetDutyCycle::max_duty_cycle", &mut || {
        let u = mk!(hal::pwm::SetDutyCycleMock::max_duty_cycle.next_call(&all()).returns(900u16));
        eq(SetDutyCycle::max_duty_cycle(&u), 900)
    });
    probe("SetDutyCycle::set_duty_cycle", &mut || {
        let mut u = mk!(hal::pwm::SetDutyCycleMock::set_duty_cycle.next_call(&|m| m.func(|d: &u16, _| *d == 12)).returns(Ok(())));
        eq(SetDutyCycle::set_duty_cycle(&mut u, 12).is_ok(), true)
    });
    probe("SetDutyCycle::set_duty_cycle_fully_off(mocked directly)", &mut || {
        let mut u = mk!(hal::pwm::SetDutyCycleMock::set_duty_cycle_fully_off.next_call(&all()).returns(Ok(())));
        eq(SetDutyCycle::set_duty_cycle_fully_off(&mut u).is_ok(), true)
    });
    probe("SetDutyCycle::set_duty_cycle_fully_on(mocked directly)", &mut || {
        let mut u = mk!(hal::pwm::SetDutyCycleMock::set_duty_cycle_fully_on.next_call(&all()).returns(Ok(())));
        eq(SetDutyCycle::set_duty_cycle_fully_on(&mut u).is_ok(), true)
    });
    probe("SetDutyCycle::set_duty_cycle_fraction(mocked directly)", &mut || {
        let mut u = mk!(hal::pwm::SetDutyCycleMock::set_duty_cycle_fraction.next_call(&|m| m.func(|(n, d), _| *n == 1 && *d == 3)).returns(Ok(())));
        eq(SetDutyCycle::set_duty_cycle_fraction(&mut u, 1, 3).is_ok(), true)
    });
    probe("SetDutyCycle::set_duty_cycle_percent(mocked directly)", &mut || {
        let mut u = mk!(hal::pwm::SetDutyCycleMock::set_duty_cycle_percent.next_call(&|m| m.func(|p: &u8, _| *p == 40)).returns(Ok(())));
        eq(SetDutyCycle::set_duty_cycle_percent(&mut u, 40).is_ok(), true)
    });
    probe("SpiDevice::transaction", &mut || {
        let mut u = mk!(hal::spi::SpiDeviceMock::transaction.with_types::<u8>().next_call(&all()).returns(Ok(())));
        eq(SpiDevice::<u8>::transaction(&mut u, &mut []).is_ok(), true)
    });
    probe("SpiDevice::read(mocked directly)", &mut || {
        let mut u = mk!(hal::spi::SpiDeviceMock::read.with_types::<u8>().next_call(&all()).answers(&|_, b| {
            b[0] = 51;
            Ok(())
        }));
        let mut b = [0u8; 1];
        let r = SpiDevice::read(&mut u, &mut b).is_ok();
        eq((r, b[0]), (true, 51))
    });
    probe("SpiDevice::write(mocked directly)", &mut || {
        let mut u = mk!(hal::spi::SpiDeviceMock::write.with_types::<u8>().next_call(&|m| m.func(|w: &&[u8], _| *w == [6u8])).returns(Ok(())));
        eq(SpiDevice::write(&mut u, &[6u8]).is_ok(), true)
    });
    probe("SpiDevice::transfer(mocked directly)", &mut || {
        let mut u = mk!(hal::spi::SpiDeviceMock::transfer.with_types::<u8>().next_call(&all()).answers(&|_, r, w| {
            r[0] = w[0] + 3;
            Ok(())
        }));
        let mut b = [0u8; 1];
        let r = SpiDevice::transfer(&mut u, &mut b, &[8u8]).is_ok();
        eq((r, b[0]), (true, 11))
    });
    probe("SpiDevice::transfer_in_place(mocked directly)", &mut || {
        let mut u = mk!(hal::spi::SpiDeviceMock::transfer_in_place.with_types::<u8>().next_call(&all()).answers(&|_, b| {
            b[0] = 61;
            Ok(())
        }));
        let mut b = [0u8; 1];
        let r = SpiDevice::transfer_in_place(&mut u, &mut b).is_ok();
        eq((r, b[0]), (true, 61))
    });
    {
        use unimock::mock::tokio_1::io as t;
        let w2 = waker.clone();
        probe("tokio AsyncWrite::poll_write_vectored(mocked directly)", &mut || {
            let mut u = mk!(t::AsyncWriteMock::poll_write_vectored.next_call(&all()).returns(Poll::Ready(Ok(7))));
            let mut cx = Context::from_waker(&w2);
            let bufs = [IoSlice::new(b"cd"), IoSlice::new(b"ef")];
            let r = tokio::io::AsyncWrite::poll_write_vectored(std::pin::Pin::new(&mut u), &mut cx, &bufs);
            eq(format!("{r:?}"), "Ready(Ok(7))".to_string())
        });
        probe("tokio AsyncWrite::is_write_vectored(mocked directly)", &mut || {
            let u = mk!(t::AsyncWriteMock::is_write_vectored.next_call(&all()).returns(true));
            eq(tokio::io::AsyncWrite::is_write_vectored(&u), true)
        });
        let w2 = waker.clone();
        probe("tokio AsyncBufRead::poll_fill_buf", &mut || {
            let mut u = mk!(t::AsyncBufReadMock::poll_fill_buf.next_call(&all()).returns(Poll::Ready(Ok::<Vec<u8>, std::io::Error>(vec![1u8, 2]))));
            let mut cx = Context::from_waker(&w2);
            let r = tokio::io::AsyncBufRead::poll_fill_buf(std::pin::Pin::new(&mut u), &mut cx);
            eq(format!("{r:?}"), "Ready(Ok([1, 2]))".to_string())
        });
        probe("tokio AsyncBufRead::consume", &mut || {
            let mut u = mk!(t::AsyncBufReadMock::consume.next_call(&|m| m.func(|n: &usize, _| *n == 2)).returns(()));
            tokio::io::AsyncBufRead::consume(std::pin::Pin::new(&mut u), 2);
            Ok(())
        });
    }
    {
        use unimock::mock::futures_0_3::io as f;
        let w2 = waker.clone();
        probe("futures AsyncRead::poll_read", &mut || {
            let mut u = mk!(f::AsyncReadMock::poll_read.next_call(&all()).answers(&|_, _, buf| {
                buf[0] = 5;
                Poll::Ready(Ok(1))
            }));
            let mut cx = Context::from_waker(&w2);
            let mut b = [0u8; 2];
            let r = futures_io::AsyncRead::poll_read(std::pin::Pin::new(&mut u), &mut cx, &mut b);
            eq((format!("{r:?}"), b[0]), ("Ready(Ok(1))".to_string(), 5))
        });
        let w2 = waker.clone();
        probe("futures AsyncRead::poll_read_vectored(mocked directly)", &mut || {
            let mut u = mk!(f::AsyncReadMock::poll_read_vectored.next_call(&all()).returns(Poll::Ready(Ok(9))));
            let mut cx = Context::from_waker(&w2);
            let mut b = [0u8; 3];
            let r = {
                let mut bufs = [IoSliceMut::new(&mut b)];
                futures_io::AsyncRead::poll_read_vectored(std::pin::Pin::new(&mut u), &mut cx, &mut bufs)
            };
            eq(format!("{r:?}"), "Ready(Ok(9))".to_string())
        });
        let w2 = waker.clone();
        probe("futures AsyncWrite::poll_write", &mut || {
            let mut u = mk!(f::AsyncWriteMock::poll_write.next_call(&all()).answers(&|_, _, buf| Poll::Ready(Ok(buf.len() + 200))));
            let mut cx = Context::from_waker(&w2);
            let r = futures_io::AsyncWrite::poll_write(std::pin::Pin::new(&mut u), &mut cx, b"abc");
            eq(format!("{r:?}"), "Ready(Ok(203))".to_string())
        });
        let w2 = waker.clone();
        probe("futures AsyncWrite::poll_write_vectored(mocked directly)", &mut || {
            let mut u = mk!(f::AsyncWriteMock::poll_write_vectored.next_call(&all()).returns(Poll::Ready(Ok(8))));
            let mut cx = Context::from_waker(&w2);
            let bufs = [IoSlice::new(b"cd"), IoSlice::new(b"ef")];
            let r = futures_io::AsyncWrite::poll_write_vectored(std::pin::Pin::new(&mut u), &mut cx, &bufs);
            eq(format!("{r:?}"), "Ready(Ok(8))".to_string())
        });
        let w2 = waker.clone();
        probe("futures AsyncBufRead::poll_fill_buf", &mut || {
            let mut u = mk!(f::AsyncBufReadMock::poll_fill_buf.next_call(&all()).returns(Poll::Ready(Ok::<Vec<u8>, std::io::Error>(vec![3u8, 4]))));
            let mut cx = Context::from_waker(&w2);
            let r = futures_io::AsyncBufRead::poll_fill_buf(std::pin::Pin::new(&mut u), &mut cx);
            eq(format!("{r:?}"), "Ready(Ok([3, 4]))".to_string())
        });
        probe("futures AsyncBufRead::consume", &mut || {
            let mut u = mk!(f::AsyncBufReadMock::consume.next_call(&|m| m.func(|n: &usize, _| *n == 2)).returns(()));
            futures_io::AsyncBufRead::consume(std::pin::Pin::new(&mut u), 2);
            Ok(())
        });
    }
    out
}

pub const RULE: &str = "scripts = generated scripts of chunk sizes / short transfers / Interrupted and other errors / payload bytes, replayed by the mocked required methods of std::io::{Write, Read, BufRead, Seek}, core Hasher and Display, embedded-hal {DelayNs, OutputPin, StatefulOutputPin, I2c, SpiDevice, SetDutyCycle}, each driven through an upstream provided method (write_all, write_fmt, write_vectored, read_exact, read_to_end, read_to_string, read_vectored, read_line, read_until, rewind, stream_position, write_u8..write_isize, format! with width/fill, delay_us/ms incl. the overflow-splitting range, set_state, toggle, read/write/write_read, read/write/transfer/transfer_in_place, set_duty_cycle_fully_off/on/fraction/percent), on strict and partial mocks, with 0-16 further clones of the mock alive during the drive, optionally catch-all applies_default_impl() clauses, ended by drop / report() / verify(); wiring = one entry point configured at a time for every method of the mirrored traits, required and provided (mocked directly) (incl. tokio and futures-io poll_* methods and their vectored defaults), enumerated. racing-first-use = every schedule (sampled for 3-4 threads) of 2-3 threads x 1-2 first calls of a provided &self method (Error::source, tokio AsyncWrite::is_write_vectored) through one shared &Unimock: every thread gets what a plain implementation returns. Non-trivial = the script has a short transfer or error before completion, or >= 2 required-method calls; distinct = distinct case";

// ------------------------------------------------------------------ first use of a provided `&self` method, racing

/// T threads call a provided `&self` method of a mirrored trait through ONE shared `&Unimock` that has not
/// delegated anything yet (the delegation helper is installed by the first such call): under every schedule
/// every thread gets what a plain implementation returns.
#[derive(Clone, Debug, PartialEq, Eq, Hash, Serialize, Deserialize)]
pub struct FirstUseCase {
    /// 0 = `std::error::Error::source`, 1 = tokio `AsyncWrite::is_write_vectored`, 2 = both alternately
    pub method: u8,
    pub threads: u8,
    pub calls: u8,
    pub partial: bool,
    pub schedule: Vec<u8>,
}

fn first_use_call(u: &Unimock, method: u8, k: usize) -> Result<String, String> {
    let which = if method == 2 { k as u8 % 2 } else { method };
    catch(|| match which {
        0 => format!("{}", std::error::Error::source(u).is_none()),
        _ => format!("{}", tokio::io::AsyncWrite::is_write_vectored(u)),
    })
}

pub fn execute_first_use(c: &FirstUseCase, schedule: &[u8]) -> Result<crate::props::c10::Executed, String> {
    let u = if c.partial { Unimock::new_partial(()) } else { Unimock::new(()) };
    let arc = Arc::new(u);
    let mut bodies: Vec<Box<dyn FnOnce() -> Vec<Result<String, String>> + Send>> = vec![];
    for _ in 0..c.threads {
        let handle = arc.clone();
        let (method, calls) = (c.method, c.calls);
        bodies.push(Box::new(move || {
            let out = (0..calls as usize).map(|k| first_use_call(&handle, method, k)).collect();
            drop(handle);
            out
        }));
    }
    let run = crate::sched::run(bodies, schedule);
    let original = Arc::try_unwrap(arc).map_err(|_| "HARNESS: a thread kept its handle to the shared mock".to_string())?;
    if run.hung {
        let _ = catch(move || drop(original));
        return Err("HARNESS: watchdog: a scheduled thread did not get the token within 20 s".into());
    }
    let mut verdict = Ok(());
    'o: for (t, outs) in run.results.iter().enumerate() {
        for (k, r) in outs.iter().enumerate() {
            let which = if c.method == 2 { k as u8 % 2 } else { c.method };
            // what a plain struct implementing the upstream trait returns: no source, not vectored
            let plain = if which == 0 { "true" } else { "false" };
            match r {
                Ok(v) if v == plain => {}
                Ok(v) => {
                    verdict = Err(format!("thread {t} call {k}: the mock returned {v}, a plain implementation returns {plain}"));
                    break 'o;
                }
                Err(p) => {
                    verdict = Err(format!("thread {t} call {k}: the mock panicked where a plain implementation returns {plain}: {p}"));
                    break 'o;
                }
            }
        }
    }
    let teardown = catch(move || drop(original));
    verdict?;
    if let Err(p) = teardown {
        return Err(format!("dropping the mock after the threads were joined panicked: {p}"));
    }
    Ok(crate::props::c10::Executed { decisions: run.decisions, switches: run.switches, trace_len: run.trace.len() })
}

pub fn check_first_use(c: &FirstUseCase) -> Result<CaseInfo, String> {
    let e = execute_first_use(c, &c.schedule)?;
    Ok(CaseInfo::new(e.switches >= 2)
        .class(["Error::source", "AsyncWrite::is_write_vectored", "both-alternately"][c.method.min(2) as usize])
        .class_if(c.partial, "partial-mock")
        .class_if(e.switches >= 4, "four-or-more-context-switches"))
}

pub fn first_use_exhaustive(limit: u64) -> vcore::SubReport {
    let mut rep = vcore::SubReport::new("racing-first-use-exhaustive");
    rep.exhaustive = true;
    let mut per_config = vec![];
    'outer: for (threads, calls) in [(2u8, 1u8), (2, 2), (3, 1)] {
        for method in 0..3u8 {
            if method == 2 && calls < 2 {
                continue;
            }
            for partial in [false, true] {
                let base = FirstUseCase { method, threads, calls, partial, schedule: vec![] };
                let mut execs = 0u64;
                let mut with_switches = 0u64;
                let r = crate::sched::enumerate(limit, |path| {
                    let e = execute_first_use(&base, path)?;
                    execs += 1;
                    if e.switches >= 2 {
                        with_switches += 1;
                    }
                    Ok(e.decisions)
                });
                rep.evaluations += execs;
                for i in 0..with_switches {
                    rep.nontrivial.insert(vcore::stable_hash(&("first-use", method, threads, calls, partial, i)));
                }
                match r {
                    Ok(done) => {
                        if done.is_none() {
                            rep.exhaustive = false;
                        }
                        per_config.push(serde_json::json!({"method": method, "threads": threads, "calls": calls, "partial": partial, "schedules": execs, "complete": done.is_some()}));
                    }
                    Err((path, reason)) => {
                        let mut c = base.clone();
                        c.schedule = path;
                        if reason.starts_with("HARNESS") {
                            rep.inconclusive = Some(reason);
                        } else {
                            rep.fail(&c, reason);
                        }
                        break 'outer;
                    }
                }
                if rep.samples.len() < 2 {
                    rep.samples.push(serde_json::to_value(&base).unwrap());
                }
            }
        }
    }
    rep.extra.insert("configurations".into(), serde_json::json!(per_config));
    rep
}

fn first_use_strategy() -> impl Strategy<Value = FirstUseCase> {
    (0..3u8, prop_oneof![Just((3u8, 2u8)), Just((4, 1)), Just((4, 2)), Just((2, 3))], any::<bool>(), vec(any::<u8>(), 0..64))
        .prop_map(|(method, (threads, calls), partial, schedule)| FirstUseCase { method, threads, calls, partial, schedule })
}

pub fn run(ctx: &Ctx) -> Verdict {
    let mut v = Verdict::new("exploration", RULE);
    v.explanation = "Differential against a hand-written struct implementing the upstream trait with the same script state: result strings, output buffers and the sequence of required-method calls (with their arguments) must be identical. The wiring sweep checks that every required method is served by its own mock entry point and that mocking a provided method directly pre-empts the default body.".into();
    v.assumptions = vec![
        "upstream provided methods are trusted (they are the reference on both sides)".into(),
        "embedded-hal error paths are not scripted (the mock's error type is Unimock itself)".into(),
    ];
    v.subs.push(super::replay_corpus(ctx));
    let n = ctx.tier.pick(200_000, 3_000_000);
    v.subs.push(vcore::run_proptest(ctx, "scripts", n, case_strategy(), check));
    let mut rep = vcore::SubReport::new("wiring");
    rep.exhaustive = true;
    'sweep: for partial in [false, true] {
        for (name, r) in wiring_sweep(partial) {
            let key = (name, partial);
            match r {
                Ok(()) => rep.record(&key, &CaseInfo::new(true).class("entry-point-wired").class_if(partial, "partial-mock")),
                Err(e) => {
                    rep.fail(&key, format!("{name} (partial = {partial}): {e}"));
                    break 'sweep;
                }
            }
        }
    }
    v.subs.push(rep);
    // the delegation helper of a shared instance is installed by whichever thread first needs it
    v.subs.push(first_use_exhaustive(ctx.tier.pick(100_000, 400_000) as u64));
    v.subs.push(vcore::run_proptest(ctx, "racing-first-use-sampled", ctx.tier.pick(4_000, 150_000), first_use_strategy(), check_first_use));
    v
}

pub fn replay(sub: &str, case: Value) -> Result<(), String> {
    if sub.starts_with("racing-first-use") {
        let c: FirstUseCase = serde_json::from_value(case).map_err(|e| format!("HARNESS: bad case: {e}"))?;
        return check_first_use(&c).map(|_| ());
    }
    if sub == "wiring" {
        // old replay files hold the bare name (strict mock), newer ones (name, partial)
        let (name, partial) = match &case {
            Value::Array(a) => (a.first().and_then(|v| v.as_str()).unwrap_or(""), a.get(1).and_then(|v| v.as_bool()).unwrap_or(false)),
            v => (v.as_str().unwrap_or(""), false),
        };
        for (n, r) in wiring_sweep(partial) {
            if n == name {
                return r.map_err(|e| format!("{n} (partial = {partial}): {e}"));
            }
        }
        return Err("HARNESS: wiring probe not found".into());
    }
    let c: MirrorCase = serde_json::from_value(case).map_err(|e| format!("HARNESS: bad case: {e}"))?;
    check(&c).map(|_| ())
}
