//! C17 (run-time half hosted here; the property is decided by the program-generation engine): composite
//! return values with an OWNED leaf, configured for repeated use, requested by several threads at once.
//! Under every schedule every call observes the configured structure.

use serde::{Deserialize, Serialize};
use serde_json::Value;
use unimock::{matching, unimock, MockFn, Unimock};
use vcore::panics::catch;
use vcore::{Ctx, SubReport};

use crate::props::c10::Executed;
use crate::sched;

#[unimock(api=RepMock)]
pub trait Rep {
    fn plain(&self) -> String;
    fn pair(&self) -> (String, &u32);
    fn res(&self) -> Result<&u32, String>;
    fn opt_vec(&self) -> Option<Vec<Result<&u32, String>>>;
}

#[derive(Clone, Debug, PartialEq, Eq, Hash, Serialize, Deserialize)]
pub struct RepCase {
    /// 0 plain String, 1 (String, &u32), 2 Result<&u32, String> = Err, 3 Option<Vec<Result<&u32, String>>>
    pub shape: u8,
    /// 0 each_call().returns(v), 1 some_call().returns(v).n_times(N), 2 ..returns(v).at_least_times(1)
    pub route: u8,
    pub threads: u8,
    pub calls: u8,
    /// through one shared handle instead of clones
    pub shared: bool,
    pub schedule: Vec<u8>,
}

fn request(u: &Unimock, shape: u8) -> Result<String, String> {
    catch(|| match shape {
        0 => format!("{:?}", u.plain()),
        1 => format!("{:?}", u.pair()),
        2 => format!("{:?}", u.res()),
        _ => format!("{:?}", u.opt_vec()),
    })
}

fn configured(shape: u8) -> String {
    match shape {
        0 => format!("{:?}", String::from("leaf")),
        1 => format!("{:?}", (String::from("leaf"), &7u32)),
        2 => format!("{:?}", Err::<&u32, String>(String::from("leaf"))),
        _ => format!("{:?}", Some(vec![Ok::<&u32, String>(&1u32), Err(String::from("leaf")), Ok(&2u32)])),
    }
}

fn mock(c: &RepCase) -> Unimock {
    let n = c.threads as usize * c.calls as usize;
    macro_rules! route {
        ($f:expr, $v:expr) => {
            match c.route {
                0 => Unimock::new($f.each_call(matching!()).returns($v)),
                1 => Unimock::new($f.some_call(matching!()).returns($v).n_times(n)),
                _ => Unimock::new($f.some_call(matching!()).returns($v).at_least_times(1)),
            }
        };
    }
    match c.shape {
        0 => route!(RepMock::plain, String::from("leaf")),
        1 => route!(RepMock::pair, (String::from("leaf"), 7u32)),
        2 => route!(RepMock::res, Err::<u32, String>(String::from("leaf"))),
        _ => route!(RepMock::opt_vec, Some(vec![Ok::<u32, String>(1u32), Err(String::from("leaf")), Ok(2u32)])),
    }
}

pub fn execute(c: &RepCase, schedule: &[u8]) -> Result<Executed, String> {
    let original = catch(|| mock(c)).map_err(|e| format!("HARNESS: construct {e}"))?;
    let want = configured(c.shape);
    let mut bodies: Vec<Box<dyn FnOnce() -> Vec<Result<String, String>> + Send>> = vec![];
    let arc = std::sync::Arc::new(original);
    for _ in 0..c.threads {
        let (shape, calls) = (c.shape, c.calls);
        if c.shared {
            let h = arc.clone();
            bodies.push(Box::new(move || {
                let out = (0..calls).map(|_| request(&h, shape)).collect();
                drop(h);
                out
            }));
        } else {
            let h: Unimock = (*arc).clone();
            bodies.push(Box::new(move || {
                let out = (0..calls).map(|_| request(&h, shape)).collect();
                drop(h);
                out
            }));
        }
    }
    let run = sched::run(bodies, schedule);
    let original = std::sync::Arc::try_unwrap(arc).map_err(|_| "HARNESS: a thread kept its handle".to_string())?;
    if run.hung {
        let _ = catch(move || drop(original));
        return Err("HARNESS: watchdog: a scheduled thread did not get the token within 20 s".into());
    }
    let mut verdict = Ok(());
    'o: for (t, outs) in run.results.iter().enumerate() {
        for (k, r) in outs.iter().enumerate() {
            match r {
                Ok(v) if *v == want => {}
                Ok(v) => {
                    verdict = Err(format!("thread {t} call {k}: observed {v}, returns() was given {want}"));
                    break 'o;
                }
                Err(p) => {
                    verdict = Err(format!("thread {t} call {k}: panicked ({p}) although the value is configured for repeated use; returns() was given {want}"));
                    break 'o;
                }
            }
        }
    }
    let teardown = catch(move || drop(original));
    verdict?;
    if let Err(p) = teardown {
        return Err(format!("every call was answered, yet verification after join failed: {p}"));
    }
    Ok(Executed { decisions: run.decisions, switches: run.switches, trace_len: run.trace.len() })
}

pub fn check(c: &RepCase) -> Result<vcore::CaseInfo, String> {
    let e = execute(c, &c.schedule)?;
    Ok(vcore::CaseInfo::new(e.switches >= 2))
}

/// every schedule of 2 threads x 1-2 calls and 3 x 1, every shape x route x {clones, shared handle}
pub fn sub_report(ctx: &Ctx) -> SubReport {
    let mut rep = SubReport::new("racing-repeat-use-returns");
    rep.exhaustive = true;
    let limit = ctx.tier.pick(60_000, 400_000) as u64;
    let mut per_config = vec![];
    'outer: for (threads, calls) in [(2u8, 1u8), (2, 2), (3, 1)] {
        for shape in 0..4u8 {
            for route in 0..3u8 {
                for shared in [false, true] {
                    let base = RepCase { shape, route, threads, calls, shared, schedule: vec![] };
                    let mut execs = 0u64;
                    let mut with_switches = 0u64;
                    let r = sched::enumerate(limit, |path| {
                        let e = execute(&base, path)?;
                        execs += 1;
                        if e.switches >= 2 {
                            with_switches += 1;
                        }
                        Ok(e.decisions)
                    });
                    rep.evaluations += execs;
                    for i in 0..with_switches {
                        rep.nontrivial.insert(vcore::stable_hash(&("rep", shape, route, threads, calls, shared, i)));
                    }
                    *rep.classes.entry(["String", "(String,&u32)", "Result<&u32,String>=Err", "Option<Vec<Result<&u32,String>>>"][shape as usize].to_string()).or_default() += execs;
                    match r {
                        Ok(done) => {
                            if done.is_none() {
                                rep.exhaustive = false;
                            }
                            per_config.push(serde_json::json!({"shape": shape, "route": route, "threads": threads, "calls": calls, "shared": shared, "schedules": execs, "complete": done.is_some()}));
                        }
                        Err((path, reason)) => {
                            let mut c = base.clone();
                            c.schedule = path;
                            if reason.starts_with("HARNESS") {
                                rep.inconclusive = Some(reason);
                            } else {
                                rep.fail(&c, reason);
                            }
                            break 'outer;
                        }
                    }
                    if rep.samples.len() < 2 {
                        rep.samples.push(serde_json::to_value(&base).unwrap());
                    }
                }
            }
        }
    }
    rep.extra.insert("configurations".into(), serde_json::json!(per_config));
    rep
}

pub fn replay(_sub: &str, case: Value) -> Result<(), String> {
    let c: RepCase = serde_json::from_value(case).map_err(|e| format!("HARNESS: bad case: {e}"))?;
    check(&c).map(|_| ())
}
