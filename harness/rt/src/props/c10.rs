//! C10 — counting, sequencing and ordering are exact under every thread interleaving.
//! Also hosts the racing half of C12 (single-use values under every interleaving).

use proptest::collection::vec;
use proptest::prelude::*;
use serde::{Deserialize, Serialize};
use serde_json::Value;
use unimock::Unimock;
use vcore::panics::catch;
use vcore::{CaseInfo, Ctx, SubReport, Verdict};

use crate::exec::{new_mock, verify_original, Obs, VerifyObs};
use crate::model::{Model, Outcome};
use crate::sched;
use crate::spec::*;
use crate::traits::{self, FACTS};

#[derive(Clone, Copy, Debug, PartialEq, Eq, Hash, Serialize, Deserialize)]
pub enum Kind {
    /// one unordered pattern with a three-segment response chain
    UnorderedChain,
    /// ordered patterns of one method; slots accept every call
    Ordered,
    /// half of the threads call the ordered method, half the unordered one
    Mixed,
    /// single-use value: `some_call(..).returns(v)` (C12)
    SingleUse,
    /// single-use value followed by a repeatable one: `returns(v).once().then().returns(w)` (C12)
    SingleUseThen,
    /// every call is erroneous (strict mock, no pattern accepts): errors race for the shared list (C08)
    AllErrors,
    /// ordered slots that accept only part of the argument domain: some calls are rejected in the middle
    /// of the sequence while other threads go on (what follows a rejected ordered call is not specified,
    /// so the oracle is: no ordered position is ever handed out twice)
    OrderedRejecting,
    /// one unordered pattern with ONE response and an exact count (`each_call(..).answers(..).n_times(slots)`):
    /// every response is the same, so only the COUNT can go wrong (C03: verification fails iff the count is unmet)
    ExactCount,
    /// two unordered patterns of one method: the first accepts half of the argument domain and has a response
    /// chain, the second accepts everything: calls the first REJECTS race with calls it accepts (a rejecting
    /// pattern must not influence which position an accepted call gets - C01)
    UnorderedRejecting,
}

pub const KINDS: [Kind; 9] = [Kind::UnorderedChain, Kind::Ordered, Kind::Mixed, Kind::SingleUse, Kind::SingleUseThen, Kind::AllErrors, Kind::OrderedRejecting, Kind::ExactCount, Kind::UnorderedRejecting];

#[derive(Clone, Debug, PartialEq, Eq, Hash, Serialize, Deserialize)]
pub struct RaceCase {
    pub kind: Kind,
    pub threads: u8,
    pub calls: u8,
    /// ordered slots available (Ordered / Mixed)
    pub slots: u8,
    pub schedule: Vec<u8>,
    /// threads call through one shared `&Unimock` (the original behind an Arc) instead of clones
    #[serde(default)]
    pub shared: bool,
    /// thread 0 is the thread that constructed the mock, calling through the original itself
    #[serde(default)]
    pub creator: bool,
}

fn pat(id: u16, chain: Vec<Seg>) -> PatternSpec {
    PatternSpec { id, mask: 0xff, matcher: MatcherKind::FuncDebug, chain }
}

fn seg(resp: Resp, quant: Quant) -> Seg {
    Seg { resp, quant }
}

pub fn clauses(case: &RaceCase) -> Vec<ClauseSpec> {
    let unordered = ClauseSpec::Single {
        method: 2,
        entry: Entry::Each,
        pat: pat(
            1,
            vec![
                seg(Resp::Answers, Quant::Once),
                seg(Resp::AnswersArc, Quant::NTimes(2)),
                seg(Resp::Returns, Quant::None),
            ],
        ),
    };
    let ordered = |slots: u8| {
        let mut v = vec![];
        let mut left = slots;
        let mut id = 10;
        // slot ranges of sizes 1, 2, 1, 2, ... with distinct tags
        while left > 0 {
            let n = if id % 2 == 0 { 1 } else { 2.min(left) };
            v.push(ClauseSpec::Single {
                method: 0,
                entry: Entry::Next,
                pat: pat(id, vec![seg(Resp::Answers, Quant::NTimes(n))]),
            });
            left -= n;
            id += 1;
        }
        v
    };
    match case.kind {
        Kind::UnorderedChain => vec![unordered],
        Kind::Ordered => ordered(case.slots),
        Kind::Mixed => {
            let mut v = ordered(case.slots);
            v.insert(1.min(v.len()), unordered);
            v
        }
        Kind::SingleUse => vec![ClauseSpec::Single {
            method: 2,
            entry: Entry::Some,
            pat: pat(5, vec![seg(Resp::Returns, Quant::None)]),
        }],
        Kind::SingleUseThen => vec![ClauseSpec::Single {
            method: 2,
            entry: Entry::Some,
            pat: pat(6, vec![seg(Resp::Returns, Quant::Once), seg(Resp::Returns, Quant::None)]),
        }],
        Kind::OrderedRejecting => {
            let mut v = vec![];
            for i in 0..case.slots.max(1) {
                let mask = [0x0fu8, 0xf0, 0xff][i as usize % 3];
                v.push(ClauseSpec::Single {
                    method: 0,
                    entry: Entry::Next,
                    pat: PatternSpec { id: 10 + i as u16, mask, matcher: MatcherKind::FuncDebug, chain: vec![seg(Resp::Answers, Quant::NTimes(1))] },
                });
            }
            v
        }
        Kind::UnorderedRejecting => vec![
            ClauseSpec::Single {
                method: 2,
                entry: Entry::Each,
                pat: PatternSpec {
                    id: 20,
                    mask: 0x0f,
                    matcher: MatcherKind::FuncDebug,
                    chain: vec![seg(Resp::Answers, Quant::Once), seg(Resp::AnswersArc, Quant::NTimes(2)), seg(Resp::Returns, Quant::None)],
                },
            },
            ClauseSpec::Single {
                method: 2,
                entry: Entry::Each,
                pat: pat(21, vec![seg(Resp::Answers, Quant::Once), seg(Resp::Returns, Quant::None)]),
            },
        ],
        Kind::ExactCount => vec![ClauseSpec::Single {
            method: 2,
            entry: Entry::Each,
            pat: pat(7, vec![seg(Resp::Answers, Quant::NTimes(case.slots))]),
        }],
        Kind::AllErrors => vec![ClauseSpec::Single {
            method: 2,
            entry: Entry::Each,
            pat: PatternSpec { id: 8, mask: 0, matcher: MatcherKind::FuncDebug, chain: vec![seg(Resp::Answers, Quant::None)] },
        }],
    }
}

/// method called by call k of thread t
fn call_of(case: &RaceCase, t: usize, k: usize) -> (u8, u8) {
    let arg = ((t * 3 + k) % ARGS as usize) as u8;
    match case.kind {
        Kind::Ordered => (0, arg),
        Kind::OrderedRejecting => (0, ((t * 5 + k * 3) % ARGS as usize) as u8),
        // thread 0 starts with an argument the first pattern rejects, thread 1 with one it accepts, ...
        Kind::UnorderedRejecting => (2, ((t * 5 + 4 + k * 3) % ARGS as usize) as u8),
        Kind::Mixed => (if (t + k) % 2 == 0 { 0 } else { 2 }, arg),
        // alternate between an unmatched call and a call to an unmentioned method
        Kind::AllErrors => (if (t + k) % 2 == 0 { 2 } else { 1 }, arg),
        _ => (2, arg),
    }
}

#[derive(Clone, Debug, PartialEq, Eq, PartialOrd, Ord)]
enum O {
    Value(u32),
    MockPanic,
}

pub struct Executed {
    pub decisions: Vec<(u8, u8)>,
    pub switches: usize,
    pub trace_len: usize,
}

/// One execution of the case under its schedule, checked against the sequential model.
pub fn execute(case: &RaceCase, schedule: &[u8]) -> Result<Executed, String> {
    let cl = clauses(case);
    let original = new_mock(false, &cl).map_err(|e| format!("HARNESS: construct {e}"))?;
    let mut bodies: Vec<Box<dyn FnOnce() -> Vec<Result<u32, String>> + Send>> = vec![];
    // with `creator`, thread 0 runs on this thread (the one that built the mock) through the original
    let first_spawned = case.creator as usize;
    let creator_plan: Vec<(u8, u8)> = (0..case.calls as usize).map(|k| call_of(case, 0, k)).collect();
    let shared_handle: Option<std::sync::Arc<Unimock>>;
    let (original, run) = if case.shared {
        let arc = std::sync::Arc::new(original);
        for t in first_spawned..case.threads as usize {
            let handle = arc.clone();
            let plan: Vec<(u8, u8)> = (0..case.calls as usize).map(|k| call_of(case, t, k)).collect();
            bodies.push(Box::new(move || {
                let mut out = vec![];
                for (m, a) in plan {
                    out.push(catch(|| traits::call_shared(&handle, m, a)));
                }
                let _ = traits::take_log();
                drop(handle);
                out
            }));
        }
        let run = {
            let inline: Option<Box<dyn FnOnce() -> Vec<Result<u32, String>> + '_>> = if case.creator {
                let handle: &Unimock = &arc;
                Some(Box::new(move || {
                    let mut out = vec![];
                    for (m, a) in creator_plan {
                        out.push(catch(|| traits::call_shared(handle, m, a)));
                    }
                    let _ = traits::take_log();
                    out
                }))
            } else {
                None
            };
            sched::run_with_inline(inline, bodies, schedule)
        };
        shared_handle = Some(arc);
        (None, run)
    } else {
        for t in first_spawned..case.threads as usize {
            let clone: Unimock = original.clone();
            let plan: Vec<(u8, u8)> = (0..case.calls as usize).map(|k| call_of(case, t, k)).collect();
            bodies.push(Box::new(move || {
                let clone = clone;
                let mut out = vec![];
                for (m, a) in plan {
                    out.push(catch(|| traits::call_shared(&clone, m, a)));
                }
                let _ = traits::take_log();
                drop(clone);
                out
            }));
        }
        let run = {
            let inline: Option<Box<dyn FnOnce() -> Vec<Result<u32, String>> + '_>> = if case.creator {
                let handle: &Unimock = &original;
                Some(Box::new(move || {
                    let mut out = vec![];
                    for (m, a) in creator_plan {
                        out.push(catch(|| traits::call_shared(handle, m, a)));
                    }
                    let _ = traits::take_log();
                    out
                }))
            } else {
                None
            };
            sched::run_with_inline(inline, bodies, schedule)
        };
        shared_handle = None;
        (Some(original), run)
    };
    let original = match (original, shared_handle) {
        (Some(o), _) => o,
        (None, Some(arc)) => match std::sync::Arc::try_unwrap(arc) {
            Ok(o) => o,
            Err(_) => return Err("HARNESS: a thread kept its handle to the shared mock".into()),
        },
        (None, None) => unreachable!(),
    };
    if run.hung {
        let _ = catch(move || drop(original));
        return Err("HARNESS: watchdog: a scheduled thread did not get the token within 20 s".into());
    }
    // observed multiset per method
    let mut observed: std::collections::BTreeMap<u8, Vec<O>> = Default::default();
    let mut texts = vec![];
    for (t, outs) in run.results.iter().enumerate() {
        for (k, r) in outs.iter().enumerate() {
            let (m, _) = call_of(case, t, k);
            let o = match Obs::from_result(r.clone()) {
                Obs::Value(v) => O::Value(v),
                Obs::MockPanic(text) => {
                    texts.push(text);
                    O::MockPanic
                }
                Obs::UserPanic(p) => {
                    let _ = catch(move || drop(original));
                    return Err(format!("HARNESS: unexpected user panic {p}"));
                }
            };
            observed.entry(m).or_default().push(o);
        }
    }
    // sequential model: any order gives the same multisets (all patterns accept all arguments)
    let mut model = Model::new(false, &cl, &FACTS).map_err(|e| format!("HARNESS: model {e:?}"))?;
    let mut expected: std::collections::BTreeMap<u8, Vec<O>> = Default::default();
    for k in 0..case.calls as usize {
        for t in 0..case.threads as usize {
            let (m, a) = call_of(case, t, k);
            let o = match model.call(m, a) {
                Outcome::Value(v) => O::Value(v),
                Outcome::Panic(_) => O::MockPanic,
                Outcome::Unspecified => O::MockPanic, // ordered calls after the sequence ran out
            };
            expected.entry(m).or_default().push(o);
        }
    }
    for v in observed.values_mut() {
        v.sort();
    }
    for v in expected.values_mut() {
        v.sort();
    }
    let verify = verify_original(original, VerifyMode::Drop);
    // without std a mock-induced panic raised through the ORIGINAL itself disables the original's verification
    // (documented no_std behaviour: teardown cannot ask whether the thread is panicking): verdict unspecified
    let verdict_unspecified = !cfg!(feature = "std") && {
        let through_original = |t: usize| case.shared || (case.creator && t == 0);
        run.results.iter().enumerate().any(|(t, outs)| through_original(t) && outs.iter().any(|r| r.is_err()))
    };
    if case.kind == Kind::OrderedRejecting {
        // capacity of every tag = number of ordered positions that answer with it (walk the sequence in order)
        let mut cap_model = Model::new(false, &cl, &FACTS).map_err(|e| format!("HARNESS: model {e:?}"))?;
        let mut capacity: std::collections::BTreeMap<u32, usize> = Default::default();
        for c in &cl {
            let mask = c.patterns()[0].mask;
            let arg = (0..ARGS).find(|a| (mask >> a) & 1 == 1).unwrap_or(0);
            if let Outcome::Value(v) = cap_model.call(0, arg) {
                *capacity.entry(v).or_default() += 1;
            }
        }
        let mut seen: std::collections::BTreeMap<u32, usize> = Default::default();
        for o in observed.values().flatten() {
            if let O::Value(v) = o {
                *seen.entry(*v).or_default() += 1;
            }
        }
        for (v, n) in &seen {
            let cap = capacity.get(v).copied().unwrap_or(0);
            if *n > cap {
                return Err(format!(
                    "the response of one ordered position ({v}) was handed out {n} times under this interleaving (it is configured for {cap}): {observed:?}"
                ));
            }
        }
        let any_panic = observed.values().flatten().any(|o| *o == O::MockPanic);
        if any_panic && !verdict_unspecified && matches!(verify, VerifyObs::Silent) {
            return Err("a call was rejected, yet verification after join passed".into());
        }
        return Ok(Executed { decisions: run.decisions, switches: run.switches, trace_len: run.trace.len() });
    }
    if observed != expected {
        return Err(format!(
            "responses handed out under this interleaving {observed:?} differ from positions 1..N {expected:?}"
        ));
    }
    if verdict_unspecified {
        return Ok(Executed { decisions: run.decisions, switches: run.switches, trace_len: run.trace.len() });
    }
    // verdict after join = sequential verdict
    let seq_fails = !matches!(model.verify(), crate::model::Verdict::Silent) || !texts.is_empty();
    match (&verify, seq_fails) {
        (VerifyObs::Silent, false) => {}
        (VerifyObs::Panic(msg), true) => {
            crate::exec::check_contains_all(msg, &texts)?;
            if texts.is_empty() {
                if let crate::model::Verdict::Lines(lines) = model.verify() {
                    let kinds = crate::exec::pattern_kinds(&cl);
                    let mut exp: Vec<_> = lines.iter().map(|l| crate::exec::model_line_key(&kinds, l)).collect();
                    let mut act: Vec<_> = msg.lines().map(crate::exec::parse_line).collect();
                    exp.sort();
                    act.sort();
                    if exp != act {
                        return Err(format!("verification after join names {act:?}, the sequential run names {exp:?}"));
                    }
                }
            }
        }
        (v, s) => {
            return Err(format!(
                "verification verdict after join ({v:?}) differs from the sequential verdict (fails = {s})"
            ))
        }
    }
    Ok(Executed { decisions: run.decisions, switches: run.switches, trace_len: run.trace.len() })
}

pub fn check(case: &RaceCase) -> Result<CaseInfo, String> {
    let e = execute(case, &case.schedule)?;
    Ok(CaseInfo::new(e.switches >= 2)
        .class_if(e.switches >= 4, "four-or-more-context-switches")
        .class(match case.kind {
            Kind::UnorderedChain => "unordered-chain",
            Kind::Ordered => "ordered",
            Kind::Mixed => "mixed",
            Kind::SingleUse => "single-use",
            Kind::SingleUseThen => "single-use-then",
            Kind::AllErrors => "all-errors",
            Kind::OrderedRejecting => "ordered-with-rejected-calls",
            Kind::ExactCount => "exact-count",
            Kind::UnorderedRejecting => "unordered-with-a-rejecting-first-pattern",
        })
        .class_if(case.shared, "shared-&Unimock")
        .class_if(case.creator, "creator-thread-takes-part"))
}

/// Exhaustive depth-first enumeration of all schedules of one configuration.
pub fn enumerate_config(name: &str, kinds: &[Kind], configs: &[(u8, u8)], limit: u64) -> SubReport {
    let mut rep = SubReport::new(name);
    rep.exhaustive = true;
    let mut per_config = vec![];
    'outer: for &kind in kinds {
        for &(threads, calls) in configs {
            for (slots, shared, creator) in slot_variants(kind, threads, calls)
                .into_iter()
                .flat_map(|s| [(s, false, false), (s, true, false), (s, false, true), (s, true, true)])
            {
                let base = RaceCase { kind, threads, calls, slots, schedule: vec![], shared, creator };
                let mut execs = 0u64;
                let mut with_switches = 0u64;
                let mut max_points = 0usize;
                let r = sched::enumerate(limit, |path| {
                    let e = execute(&base, path)?;
                    execs += 1;
                    if e.switches >= 2 {
                        with_switches += 1;
                    }
                    max_points = max_points.max(e.trace_len);
                    Ok(e.decisions)
                });
                rep.evaluations += execs;
                // every schedule of an exhaustive enumeration is distinct by construction
                for i in 0..with_switches {
                    rep.nontrivial.insert(vcore::stable_hash(&(kind, threads, calls, slots, shared, creator, i)));
                }
                match r {
                    Ok(Some(n)) => per_config.push(serde_json::json!({
                        "kind": format!("{kind:?}"), "threads": threads, "calls": calls, "slots": slots, "shared_handle": shared, "creator_takes_part": creator,
                        "schedules": n, "complete": true, "yield_points": max_points })),
                    Ok(None) => {
                        rep.exhaustive = false;
                        per_config.push(serde_json::json!({
                            "kind": format!("{kind:?}"), "threads": threads, "calls": calls, "slots": slots,
                            "schedules": execs, "complete": false, "yield_points": max_points }));
                    }
                    Err((path, reason)) => {
                        let mut c = base.clone();
                        c.schedule = path;
                        if reason.starts_with("HARNESS") {
                            rep.inconclusive = Some(reason);
                        } else {
                            rep.fail(&c, reason);
                        }
                        break 'outer;
                    }
                }
                if rep.samples.len() < 2 {
                    rep.samples.push(serde_json::to_value(&base).unwrap());
                }
            }
        }
    }
    rep.extra.insert("configurations".into(), serde_json::json!(per_config));
    rep
}

fn slot_variants(kind: Kind, threads: u8, calls: u8) -> Vec<u8> {
    let n = threads * calls;
    match kind {
        Kind::Ordered => vec![n, n.saturating_sub(1).max(1)],
        Kind::OrderedRejecting => vec![n],
        Kind::Mixed => vec![n.div_ceil(2)],
        // the count is exactly met (verification silent), or one call short (one line)
        Kind::ExactCount => vec![n, n + 1],
        _ => vec![0],
    }
}

pub const RULE: &str = "schedules of the real code at the granularity of every atomic operation and lock acquisition the runtime performs (yield hook): T threads x K calls through clones on (a) one unordered pattern with a 3-segment response chain, (b) an ordered sequence whose slots accept every call (as many slots as calls, and one fewer), (c) both mixed, (d)/(e) single-use values, (f) an ordered sequence whose slots reject part of the calls (oracle there: no ordered position is handed out twice, and verification fails after a rejection), (h) calls that are all rejected (no pattern accepts / method unmentioned): every one of the N errors must be named by the verification after join, none lost, (i) two unordered patterns of one method, the first with a response chain accepting half of the argument domain: calls it rejects race with calls it accepts, (g) one pattern with a single response and an exact count n_times(N) / n_times(N+1) for N calls (only the count can go wrong: verification after join must be silent / name exactly that pattern). exhaustive = depth-first enumeration of ALL schedules for (T,K) in {(2,1),(2,2),(3,1),(2,3)} (+ (3,2),(4,1) in the thorough tier); sampled = proptest-generated choice sequences for (3,2)..(4,3); stress = 16 unsynchronised real threads. lent-answers = T threads x K calls answered through make_ref on ONE shared &Unimock (value-chain cells and the delegator cell are yield points too), optionally the first call of each thread through a provided method (race for the delegation helper): all schedules of (2,1),(2,2) (+ (3,1),(2,3) thorough), sampled (3,2)..(4,3); oracle there: every call reads its own value at the call and at thread end, addresses pairwise distinct, silent teardown. Oracle: multiset of returned tags / panics per method equals that of positions 1..N of the sequential model, and the verification verdict after join equals the sequential verdict. Non-trivial = >= 2 context switches at yield points; distinct = distinct schedule";

pub fn stress(ctx: &Ctx) -> SubReport {
    // real threads, hooks idle: 16 threads hammer an unordered chain and an ordered sequence
    let mut rep = SubReport::new("stress-16-threads");
    let rounds = ctx.tier.pick(60, 1200);
    for round in 0..rounds {
        let threads = 16u8;
        let calls = 40u8;
        for kind in [Kind::UnorderedChain, Kind::Ordered, Kind::SingleUseThen] {
            let case = RaceCase { kind, threads, calls: if kind == Kind::Ordered { 12 } else { calls }, slots: 190, schedule: vec![round as u8], shared: round % 2 == 1, creator: round % 4 >= 2 };
            match stress_once(&case) {
                Ok(()) => {
                    let info = CaseInfo::new(true).class("stress");
                    rep.record(&case, &info);
                }
                Err(reason) => {
                    rep.fail(&case, reason);
                    return rep;
                }
            }
        }
    }
    rep
}

/// A method that lends its answer (`&u32` made with `make_ref` by the answer function), called by many
/// real threads through ONE shared `&Unimock`: every call must get the value made for it.
#[unimock::unimock(api=EchoMock)]
pub trait Echo {
    fn echo(&self, x: u32) -> &u32;
    /// provided: runs on the delegation helper, which the first such call through a `&Unimock` installs
    fn echo_sum(&self, x: u32) -> u32 {
        *self.echo(x) + *self.echo(x + 1000)
    }
}

fn echo_answer() -> std::sync::Arc<dyn for<'u> Fn(&'u Unimock, u32) -> &'u u32 + Send + Sync> {
    fn coerce<F>(f: F) -> std::sync::Arc<dyn for<'u> Fn(&'u Unimock, u32) -> &'u u32 + Send + Sync>
    where
        F: for<'u> Fn(&'u Unimock, u32) -> &'u u32 + Send + Sync + 'static,
    {
        std::sync::Arc::new(f)
    }
    coerce(|u: &Unimock, x: u32| u.make_ref(x))
}

pub fn lend_stress(ctx: &Ctx) -> SubReport {
    use unimock::MockFn;
    let mut rep = SubReport::new("stress-lent-answers");
    let rounds = ctx.tier.pick(40, 800);
    for round in 0..rounds {
        let threads = 16u32;
        let per = 120u32;
        let u = Unimock::new(EchoMock::echo.each_call(&|m| m.func(|_, _| true)).answers_arc(echo_answer())).no_verify_in_drop();
        let shared = &u;
        let barrier = std::sync::Barrier::new(threads as usize);
        let bad: Vec<String> = std::thread::scope(|s| {
            let hs: Vec<_> = (0..threads)
                .map(|t| {
                    let b = &barrier;
                    s.spawn(move || {
                        b.wait();
                        let mut held: Vec<(u32, &u32)> = vec![];
                        for k in 0..per {
                            let x = round as u32 * 1_000_000 + t * 1000 + k;
                            let r = shared.echo(x);
                            if *r != x {
                                return Some(format!("thread {t} call {k}: echo({x}) lent a reference to {}", *r));
                            }
                            held.push((x, r));
                        }
                        held.iter().find(|(x, r)| **r != *x).map(|(x, r)| format!("thread {t}: the reference lent for {x} now reads {}", **r))
                    })
                })
                .collect();
            hs.into_iter().filter_map(|h| h.join().unwrap_or_else(|_| Some("HARNESS: stress thread panicked".into()))).collect()
        });
        let case = serde_json::json!({"round": round, "threads": threads, "calls_per_thread": per});
        if let Some(reason) = bad.into_iter().next() {
            if reason.starts_with("HARNESS") {
                rep.inconclusive = Some(reason);
            } else {
                rep.fail(&case, format!("16 threads calling a make_ref-answered method through one shared &Unimock: {reason}"));
            }
            return rep;
        }
        rep.record(&case, &CaseInfo::new(true).class("shared-&Unimock-lent-answers"));
    }
    rep
}

/// Lent answers under a controlled schedule: T threads x K calls on ONE shared `&Unimock`, every call
/// answered by an answer function that lends its result with `make_ref` (the value-chain cells and the
/// delegator cell are yield points). With `via_delegation` the first call of every thread goes through the
/// provided method, so that the threads race for installing the delegation helper.
#[derive(Clone, Debug, PartialEq, Eq, Hash, Serialize, Deserialize)]
pub struct LendRaceCase {
    pub threads: u8,
    pub calls: u8,
    pub creator: bool,
    pub via_delegation: bool,
    pub schedule: Vec<u8>,
}

/// (requested, read at the call, read when the thread ends, address); for a delegated call the address is 0
type Lent = (u32, u32, u32, usize);

fn lend_body(handle: &Unimock, t: usize, calls: u8, via_delegation: bool) -> Result<Vec<Lent>, String> {
    let mut held: Vec<(u32, u32, &u32)> = vec![];
    let mut sums: Vec<Lent> = vec![];
    for k in 0..calls as usize {
        let x = (t * 100 + k * 2) as u32;
        if via_delegation && k == 0 {
            let s = catch(|| handle.echo_sum(x))?;
            // encode the sum check as a "read" of x
            let ok = s == 2 * x + 1000;
            sums.push((x, if ok { x } else { s }, if ok { x } else { s }, 0));
        } else {
            let r: &u32 = catch(|| handle.echo(x))?;
            held.push((x, *r, r));
        }
    }
    let mut out: Vec<Lent> = held.iter().map(|(x, at_call, r)| (*x, *at_call, **r, *r as *const u32 as usize)).collect();
    out.extend(sums);
    Ok(out)
}

pub fn execute_lent(case: &LendRaceCase, schedule: &[u8]) -> Result<Executed, String> {
    use unimock::MockFn;
    let u = Unimock::new(EchoMock::echo.each_call(&|m| m.func(|_, _| true)).answers_arc(echo_answer()));
    let arc = std::sync::Arc::new(u);
    let first_spawned = case.creator as usize;
    let mut bodies: Vec<Box<dyn FnOnce() -> Result<Vec<Lent>, String> + Send>> = vec![];
    for t in first_spawned..case.threads as usize {
        let handle = arc.clone();
        let (calls, via) = (case.calls, case.via_delegation);
        bodies.push(Box::new(move || {
            let r = lend_body(&handle, t, calls, via);
            drop(handle);
            r
        }));
    }
    let run = {
        let inline: Option<Box<dyn FnOnce() -> Result<Vec<Lent>, String> + '_>> = if case.creator {
            let handle: &Unimock = &arc;
            let (calls, via) = (case.calls, case.via_delegation);
            Some(Box::new(move || lend_body(handle, 0, calls, via)))
        } else {
            None
        };
        sched::run_with_inline(inline, bodies, schedule)
    };
    let original = match std::sync::Arc::try_unwrap(arc) {
        Ok(o) => o,
        Err(_) => return Err("HARNESS: a thread kept its handle to the shared mock".into()),
    };
    if run.hung {
        let _ = catch(move || drop(original));
        return Err("HARNESS: watchdog: a scheduled thread did not get the token within 20 s".into());
    }
    let mut addrs = std::collections::BTreeSet::new();
    let mut verdict = Ok(());
    'o: for (t, r) in run.results.iter().enumerate() {
        match r {
            Err(text) => {
                verdict = Err(format!("thread {t}: a call that the pattern accepts panicked: {text}"));
                break;
            }
            Ok(lent) => {
                for (x, at_call, at_end, addr) in lent {
                    if at_call != x {
                        verdict = Err(format!("thread {t}: the call for {x} was handed {at_call} (another call's value)"));
                        break 'o;
                    }
                    if at_end != x {
                        verdict = Err(format!("thread {t}: the reference lent for {x} later reads {at_end}"));
                        break 'o;
                    }
                    if *addr != 0 && !addrs.insert(*addr) {
                        verdict = Err(format!("thread {t}: the reference lent for {x} shares its address with another lent value"));
                        break 'o;
                    }
                }
            }
        }
    }
    let teardown = catch(move || drop(original));
    verdict?;
    if let Err(text) = teardown {
        return Err(format!("every call was accepted, yet dropping the mock after join panicked: {text}"));
    }
    Ok(Executed { decisions: run.decisions, switches: run.switches, trace_len: run.trace.len() })
}

pub fn check_lent(case: &LendRaceCase) -> Result<CaseInfo, String> {
    let e = execute_lent(case, &case.schedule)?;
    Ok(CaseInfo::new(e.switches >= 2)
        .class("lent-answers-shared-&Unimock")
        .class_if(e.switches >= 4, "four-or-more-context-switches")
        .class_if(case.via_delegation, "provided-method-on-delegation-helper")
        .class_if(case.creator, "creator-thread-takes-part"))
}

pub fn lent_exhaustive(configs: &[(u8, u8)], max_delegated_calls: u8, limit: u64) -> SubReport {
    let mut rep = SubReport::new("lent-answers-exhaustive");
    rep.exhaustive = true;
    let mut per_config = vec![];
    'outer: for &(threads, calls) in configs {
        for (creator, via_delegation) in [(false, false), (true, false), (false, true), (true, true)] {
            if via_delegation && calls > max_delegated_calls {
                continue;
            }
            let base = LendRaceCase { threads, calls, creator, via_delegation, schedule: vec![] };
            let mut execs = 0u64;
            let mut with_switches = 0u64;
            let mut max_points = 0usize;
            let r = sched::enumerate(limit, |path| {
                let e = execute_lent(&base, path)?;
                execs += 1;
                if e.switches >= 2 {
                    with_switches += 1;
                }
                max_points = max_points.max(e.trace_len);
                Ok(e.decisions)
            });
            rep.evaluations += execs;
            for i in 0..with_switches {
                rep.nontrivial.insert(vcore::stable_hash(&("lent", threads, calls, creator, via_delegation, i)));
            }
            let complete = matches!(r, Ok(Some(_)));
            match r {
                Ok(_) => {
                    if !complete {
                        rep.exhaustive = false;
                    }
                    per_config.push(serde_json::json!({"threads": threads, "calls": calls, "creator_takes_part": creator, "via_delegation": via_delegation,
                        "schedules": execs, "complete": complete, "yield_points": max_points}));
                }
                Err((path, reason)) => {
                    let mut c = base.clone();
                    c.schedule = path;
                    if reason.starts_with("HARNESS") {
                        rep.inconclusive = Some(reason);
                    } else {
                        rep.fail(&c, reason);
                    }
                    break 'outer;
                }
            }
            if rep.samples.len() < 2 {
                rep.samples.push(serde_json::to_value(&base).unwrap());
            }
        }
    }
    rep.extra.insert("configurations".into(), serde_json::json!(per_config));
    rep
}

fn lent_strategy() -> impl Strategy<Value = LendRaceCase> {
    (prop_oneof![Just((3u8, 2u8)), Just((3, 3)), Just((4, 2)), Just((2, 3)), Just((4, 3))], any::<bool>(), any::<bool>(), vec(any::<u8>(), 0..96))
        .prop_map(|((threads, calls), creator, via_delegation, schedule)| LendRaceCase { threads, calls, creator, via_delegation, schedule })
}

/// exhaustive + sampled schedules of lent answers (shared by C10 and C13)
pub fn lent_reports(ctx: &Ctx) -> Vec<SubReport> {
    let configs: &[(u8, u8)] = match ctx.tier {
        vcore::Tier::Quick => &[(2, 1), (2, 2)],
        vcore::Tier::Thorough => &[(2, 1), (2, 2), (3, 1), (2, 3)],
    };
    let mut v = vec![lent_exhaustive(configs, ctx.tier.pick(1, 3) as u8, ctx.tier.pick(200_000, 400_000) as u64)];
    let n = ctx.tier.pick(6_000, 200_000);
    v.push(vcore::run_proptest(ctx, "lent-answers-sampled-schedules", n, lent_strategy(), check_lent));
    v
}

fn stress_once(case: &RaceCase) -> Result<(), String> {
    let cl = clauses(case);
    let original = new_mock(false, &cl).map_err(|e| format!("HARNESS: construct {e}"))?;
    let barrier = std::sync::Arc::new(std::sync::Barrier::new(case.threads as usize));
    let mut hs = vec![];
    for t in 0..case.threads as usize {
        let clone = original.clone();
        let b = barrier.clone();
        let plan: Vec<(u8, u8)> = (0..case.calls as usize).map(|k| call_of(case, t, k)).collect();
        hs.push(std::thread::spawn(move || {
            b.wait();
            let mut out = vec![];
            for (m, a) in plan {
                out.push(match Obs::from_result(catch(|| traits::call_shared(&clone, m, a))) {
                    Obs::Value(v) => O::Value(v),
                    _ => O::MockPanic,
                });
            }
            out
        }));
    }
    let mut observed = vec![];
    for h in hs {
        observed.extend(h.join().map_err(|_| "HARNESS: stress thread panicked".to_string())?);
    }
    let mut model = Model::new(false, &cl, &FACTS).map_err(|e| format!("HARNESS: model {e:?}"))?;
    let mut expected = vec![];
    for k in 0..case.calls as usize {
        for t in 0..case.threads as usize {
            let (m, a) = call_of(case, t, k);
            expected.push(match model.call(m, a) {
                Outcome::Value(v) => O::Value(v),
                _ => O::MockPanic,
            });
        }
    }
    observed.sort();
    expected.sort();
    let _ = catch(move || drop(original));
    if observed != expected {
        let diff: Vec<_> = observed.iter().zip(expected.iter()).filter(|(a, b)| a != b).take(5).collect();
        return Err(format!("16-thread stress: multiset of responses differs from positions 1..N; first differences (observed, expected): {diff:?}"));
    }
    Ok(())
}

fn case_strategy() -> impl Strategy<Value = RaceCase> {
    (
        0..KINDS.len(),
        prop_oneof![Just((3u8, 2u8)), Just((3, 3)), Just((4, 2)), Just((4, 3)), Just((2, 3))],
        vec(any::<u8>(), 0..96),
        any::<bool>(),
    )
        .prop_map(|(k, (threads, calls), schedule, fewer)| {
            let kind = KINDS[k];
            let v = slot_variants(kind, threads, calls);
            let slots = if fewer { *v.last().unwrap() } else { v[0] };
            let shared = schedule.first().map(|b| b % 2 == 1).unwrap_or(false);
            let creator = schedule.first().map(|b| (b >> 1) % 2 == 1).unwrap_or(false);
            RaceCase { kind, threads, calls, slots, schedule, shared, creator }
        })
}

pub fn run_kinds(ctx: &Ctx, small: &[(u8, u8)], kinds: &[Kind]) -> Vec<SubReport> {
    let mut subs = vec![];
    subs.push(enumerate_config("exhaustive-small", kinds, small, 400_000));
    if ctx.tier == vcore::Tier::Thorough {
        subs.push(enumerate_config("exhaustive-medium", kinds, &[(3, 2), (4, 1)], 150_000));
    }
    let n = ctx.tier.pick(12_000, 400_000);
    let ks: Vec<Kind> = kinds.to_vec();
    let strat = case_strategy().prop_map(move |mut c| {
        if !ks.contains(&c.kind) {
            c.kind = ks[c.schedule.len() % ks.len()];
            c.slots = slot_variants(c.kind, c.threads, c.calls)[0];
        }
        c
    });
    subs.push(vcore::run_proptest(ctx, "sampled-schedules", n, strat, check));
    subs
}

pub fn run(ctx: &Ctx) -> Verdict {
    let mut v = Verdict::new("exploration", RULE);
    v.explanation = "The real runtime is executed on real OS threads under a token-passing scheduler driven by the yield hook; for the small configurations the schedule tree is enumerated to exhaustion (per-configuration schedule counts are in sub_checks[].extra).".into();
    v.assumptions = vec![
        "yield points exist at unimock's own atomic operations and lock acquisitions (cfg unimock_verif hook); interleavings inside std::sync::Mutex, Arc and once_cell are not controlled".into(),
        "sequentially consistent interleavings only (no weak-memory effects)".into(),
    ];
    v.subs.push(super::replay_corpus(ctx));
    v.subs.extend(run_kinds(ctx, &[(2, 1), (2, 2), (3, 1), (2, 3)], &[Kind::UnorderedChain, Kind::Ordered, Kind::Mixed, Kind::OrderedRejecting, Kind::ExactCount, Kind::AllErrors, Kind::UnorderedRejecting]));
    v.subs.push(stress(ctx));
    v.subs.push(lend_stress(ctx));
    v.subs.extend(lent_reports(ctx));
    v
}

pub fn replay(_sub: &str, case: Value) -> Result<(), String> {
    if _sub == "stress-lent-answers" {
        // real-thread stress: re-run the sub-check (a quick-tier run of it)
        let ctx = Ctx::new("C10", vcore::Tier::Quick);
        let rep = lend_stress(&ctx);
        return match rep.failure {
            Some(f) => Err(f.reason),
            None => Ok(()),
        };
    }
    if _sub.starts_with("lent-answers") {
        let c: LendRaceCase = serde_json::from_value(case).map_err(|e| format!("HARNESS: bad case: {e}"))?;
        return check_lent(&c).map(|_| ());
    }
    let c: RaceCase = serde_json::from_value(case).map_err(|e| format!("HARNESS: bad case: {e}"))?;
    if c.threads >= 16 {
        return stress_once(&c);
    }
    check(&c).map(|_| ())
}
