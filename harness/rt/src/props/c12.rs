//! C12 — single-use return values are moved out at most once and never duplicated.
//! In-process halves: (a) request histories with drop accounting, (b) racing threads under
//! the controlled scheduler (shared with C10), (c) repeat-use values are cloned per call.
//! The compile-time half (builder chains that must not type-check) lives in progen.

use std::sync::{Arc, Mutex};

use proptest::collection::vec;
use proptest::prelude::*;
use serde::{Deserialize, Serialize};
use serde_json::Value;
use unimock::verif::DynClause;
use unimock::*;
use vcore::panics::catch;
use vcore::{CaseInfo, Ctx, Verdict};

#[derive(Default)]
pub struct Reg {
    /// per id: (drops, parent id if it is a clone)
    inner: Mutex<Vec<(u32, Option<u32>)>>,
}

impl Reg {
    fn fresh(&self, parent: Option<u32>) -> u32 {
        let mut g = self.inner.lock().unwrap();
        g.push((0, parent));
        (g.len() - 1) as u32
    }
    fn drops(&self, id: u32) -> u32 {
        self.inner.lock().unwrap()[id as usize].0
    }
    fn clones_of(&self, id: u32) -> usize {
        self.inner.lock().unwrap().iter().filter(|(_, p)| *p == Some(id)).count()
    }
    fn len(&self) -> u32 {
        self.inner.lock().unwrap().len() as u32
    }
}

/// Non-Clone, drop-counting.
pub struct Token {
    pub id: u32,
    reg: Arc<Reg>,
}
impl Token {
    fn new(reg: &Arc<Reg>) -> Token {
        Token { id: reg.fresh(None), reg: reg.clone() }
    }
}
impl Drop for Token {
    fn drop(&mut self) {
        self.reg.inner.lock().unwrap()[self.id as usize].0 += 1;
    }
}

/// Clone, counting clones (each clone gets a fresh id whose parent is the cloned value).
pub struct CToken {
    pub id: u32,
    reg: Arc<Reg>,
}
impl CToken {
    fn new(reg: &Arc<Reg>) -> CToken {
        CToken { id: reg.fresh(None), reg: reg.clone() }
    }
}
impl Clone for CToken {
    fn clone(&self) -> Self {
        CToken { id: self.reg.fresh(Some(self.id)), reg: self.reg.clone() }
    }
}
impl Drop for CToken {
    fn drop(&mut self) {
        self.reg.inner.lock().unwrap()[self.id as usize].0 += 1;
    }
}

/// Real implementations (partial mocks fall through to them for UNMATCHED calls only; a matched
/// call whose single-use value is used up must still be refused).
pub fn real_take(_: &impl std::any::Any, _x: u8) -> Token {
    Token::new(&Arc::new(Reg::default()))
}
pub fn real_take_opt(_: &impl std::any::Any, _x: u8) -> Option<Token> {
    Some(Token::new(&Arc::new(Reg::default())))
}
pub fn real_dup(_: &impl std::any::Any, _x: u8) -> CToken {
    CToken::new(&Arc::new(Reg::default()))
}

#[unimock(api=TokMock, unmock_with=[real_take, real_take_opt, _, _, _, _, real_dup, _, _, _, _, _, _])]
pub trait Tok {
    fn take(&self, x: u8) -> Token;
    fn take_opt(&self, x: u8) -> Option<Token>;
    fn take_poll(&self, x: u8) -> core::task::Poll<Token>;
    fn pair(&self, x: u8) -> (Token, &u32);
    fn triple(&self, x: u8) -> (&u32, Token, Token);
    fn res(&self, x: u8) -> Result<&u32, Token>;
    fn dup(&self, x: u8) -> CToken;
    fn dup_pair(&self, x: u8) -> (CToken, &u32);
    // owned leaves two or three levels down
    fn opt_res(&self, x: u8) -> Option<Result<&u32, Token>>;
    fn poll_res(&self, x: u8) -> core::task::Poll<Result<&u32, Token>>;
    fn poll_opt_res(&self, x: u8) -> core::task::Poll<Option<Result<&u32, Token>>>;
    fn vec_res(&self, x: u8) -> Vec<Result<&u32, Token>>;
    fn opt_pair(&self, x: u8) -> (Option<Result<&u32, Token>>, &u32);
}

#[derive(Clone, Copy, Debug, PartialEq, Eq, Hash, Serialize, Deserialize)]
pub enum Shape {
    Take,
    TakeOptSome,
    TakePoll,
    Pair,
    Triple,
    ResErr,
    /// `Option<Result<&T, Token>>` configured as `Some(Err(t))`
    OptResErr,
    /// `Poll<Result<&T, Token>>` configured as `Ready(Err(t))`
    PollResErr,
    /// `Poll<Option<Result<&T, Token>>>` configured as `Ready(Some(Err(t)))`
    PollOptResErr,
    /// `Vec<Result<&T, Token>>` configured as `[Err(a), Ok(5), Err(b)]`
    VecRes,
    /// `(Option<Result<&T, Token>>, &T)` configured as `(Some(Err(t)), 80)`
    OptPair,
    /// Clone value configured through the single-use path (`some_call(..).returns(v)` / `.once()`)
    DupSingle,
    /// Clone value, `returns(v).n_times(n)`
    DupNTimes(u8),
    /// Clone value, `each_call(..).returns(v)`
    DupEach,
    /// Clone leaf inside a mixed tuple, `each_call`
    DupPairEach,
}

#[derive(Clone, Copy, Debug, PartialEq, Eq, Hash, Serialize, Deserialize)]
pub struct Item {
    pub shape: Shape,
    /// `next_call` instead of `some_call` (single-use shapes only)
    pub ordered: bool,
    /// explicit `.once()` instead of leaving the value unquantified
    pub once: bool,
    pub requests: u8,
    /// delivered values are dropped immediately (true) or kept until after teardown
    pub drop_delivered_early: bool,
}

#[derive(Clone, Debug, PartialEq, Eq, Hash, Serialize, Deserialize)]
pub struct LinearCase {
    pub items: Vec<Item>,
    /// interleaving keys for the requests of different items
    pub order: Vec<u8>,
    /// requests go through clones of the mock as well
    pub clones: u8,
    /// the mock is a partial mock (three of the methods have real implementations registered)
    #[serde(default)]
    pub partial: bool,
    /// after all items: catch-all patterns (`each_call(<accepts everything>)`) answering with a fresh value on
    /// `take` and `dup` (when those methods are used unordered): every request is matched by its item's own,
    /// earlier pattern, so a used-up single-use value must still be refused, never replaced by the catch-all's
    #[serde(default)]
    pub later_catch_all: bool,
}

struct Configured {
    /// ids of the owned leaves handed to returns()
    ids: Vec<u32>,
    single_use: bool,
}

enum Delivered {
    Tokens(Vec<Token>),
    CTokens(Vec<CToken>),
}

fn matcher_eq<F>(x: u8) -> impl Fn(&mut unimock::private::Matching<F>)
where
    F: for<'i> MockFn<Inputs<'i> = u8>,
{
    move |m| m.func(move |a: &u8, _| *a == x)
}

fn configure(dc: &mut DynClause, reg: &Arc<Reg>, idx: u8, item: &Item) -> Configured {
    macro_rules! single {
        ($f:expr, $v:expr, $ids:expr) => {{
            let m = matcher_eq(idx);
            if item.ordered {
                let q = $f.next_call(&m).returns($v);
                if item.once {
                    dc.push(q.once())
                } else {
                    dc.push(q)
                }
            } else {
                let q = $f.some_call(&m).returns($v);
                if item.once {
                    dc.push(q.once())
                } else {
                    dc.push(q)
                }
            }
            Configured { ids: $ids, single_use: true }
        }};
    }
    match item.shape {
        Shape::Take => {
            let t = Token::new(reg);
            let ids = vec![t.id];
            single!(TokMock::take, t, ids)
        }
        Shape::TakeOptSome => {
            let t = Token::new(reg);
            let ids = vec![t.id];
            single!(TokMock::take_opt, Some(t), ids)
        }
        Shape::TakePoll => {
            let t = Token::new(reg);
            let ids = vec![t.id];
            single!(TokMock::take_poll, core::task::Poll::Ready(t), ids)
        }
        Shape::Pair => {
            let t = Token::new(reg);
            let ids = vec![t.id];
            single!(TokMock::pair, (t, 77u32), ids)
        }
        Shape::Triple => {
            let (a, b) = (Token::new(reg), Token::new(reg));
            let ids = vec![a.id, b.id];
            single!(TokMock::triple, (78u32, a, b), ids)
        }
        Shape::ResErr => {
            let t = Token::new(reg);
            let ids = vec![t.id];
            single!(TokMock::res, Err::<u32, Token>(t), ids)
        }
        Shape::OptResErr => {
            let t = Token::new(reg);
            let ids = vec![t.id];
            single!(TokMock::opt_res, Some(Err::<u32, Token>(t)), ids)
        }
        Shape::PollResErr => {
            let t = Token::new(reg);
            let ids = vec![t.id];
            single!(TokMock::poll_res, core::task::Poll::Ready(Err::<u32, Token>(t)), ids)
        }
        Shape::PollOptResErr => {
            let t = Token::new(reg);
            let ids = vec![t.id];
            single!(TokMock::poll_opt_res, core::task::Poll::Ready(Some(Err::<u32, Token>(t))), ids)
        }
        Shape::VecRes => {
            let (a, b) = (Token::new(reg), Token::new(reg));
            let ids = vec![a.id, b.id];
            single!(TokMock::vec_res, vec![Err::<u32, Token>(a), Ok(5u32), Err(b)], ids)
        }
        Shape::OptPair => {
            let t = Token::new(reg);
            let ids = vec![t.id];
            single!(TokMock::opt_pair, (Some(Err::<u32, Token>(t)), 80u32), ids)
        }
        Shape::DupSingle => {
            let t = CToken::new(reg);
            let ids = vec![t.id];
            single!(TokMock::dup, t, ids)
        }
        Shape::DupNTimes(n) => {
            let t = CToken::new(reg);
            let ids = vec![t.id];
            let m = matcher_eq(idx);
            dc.push(TokMock::dup.some_call(&m).returns(t).n_times(n as usize));
            Configured { ids, single_use: false }
        }
        Shape::DupEach => {
            let t = CToken::new(reg);
            let ids = vec![t.id];
            let m = matcher_eq(idx);
            dc.push(TokMock::dup.each_call(&m).returns(t));
            Configured { ids, single_use: false }
        }
        Shape::DupPairEach => {
            let t = CToken::new(reg);
            let ids = vec![t.id];
            let m = matcher_eq(idx);
            dc.push(TokMock::dup_pair.each_call(&m).returns((t, 79u32)));
            Configured { ids, single_use: false }
        }
    }
}

/// One request for item `idx`; returns the ids of the owned leaves received.
fn request(u: &Unimock, idx: u8, shape: Shape) -> Result<Delivered, String> {
    catch(|| match shape {
        Shape::Take => Delivered::Tokens(vec![u.take(idx)]),
        Shape::TakeOptSome => Delivered::Tokens(u.take_opt(idx).into_iter().collect()),
        Shape::TakePoll => match u.take_poll(idx) {
            core::task::Poll::Ready(t) => Delivered::Tokens(vec![t]),
            core::task::Poll::Pending => Delivered::Tokens(vec![]),
        },
        Shape::Pair => {
            let (t, r) = u.pair(idx);
            assert_eq!(*r, 77, "borrowed leaf of the pair");
            Delivered::Tokens(vec![t])
        }
        Shape::Triple => {
            let (r, a, b) = u.triple(idx);
            assert_eq!(*r, 78, "borrowed leaf of the triple");
            Delivered::Tokens(vec![a, b])
        }
        Shape::ResErr => match u.res(idx) {
            Err(t) => Delivered::Tokens(vec![t]),
            Ok(_) => Delivered::Tokens(vec![]),
        },
        Shape::OptResErr => match u.opt_res(idx) {
            Some(Err(t)) => Delivered::Tokens(vec![t]),
            _ => Delivered::Tokens(vec![]),
        },
        Shape::PollResErr => match u.poll_res(idx) {
            core::task::Poll::Ready(Err(t)) => Delivered::Tokens(vec![t]),
            _ => Delivered::Tokens(vec![]),
        },
        Shape::PollOptResErr => match u.poll_opt_res(idx) {
            core::task::Poll::Ready(Some(Err(t))) => Delivered::Tokens(vec![t]),
            _ => Delivered::Tokens(vec![]),
        },
        Shape::VecRes => {
            let v = u.vec_res(idx);
            assert!(v.len() == 3 && matches!(v[1], Ok(r) if *r == 5), "borrowed leaf of the vec");
            Delivered::Tokens(v.into_iter().filter_map(|r| r.err()).collect())
        }
        Shape::OptPair => {
            let (o, r) = u.opt_pair(idx);
            assert_eq!(*r, 80, "borrowed leaf of the pair holding an option");
            match o {
                Some(Err(t)) => Delivered::Tokens(vec![t]),
                _ => Delivered::Tokens(vec![]),
            }
        }
        Shape::DupSingle | Shape::DupNTimes(_) | Shape::DupEach => Delivered::CTokens(vec![u.dup(idx)]),
        Shape::DupPairEach => {
            let (t, r) = u.dup_pair(idx);
            assert_eq!(*r, 79, "borrowed leaf of the dup pair");
            Delivered::CTokens(vec![t])
        }
    })
}

pub fn check(case: &LinearCase) -> Result<CaseInfo, String> {
    let mut insts: Vec<Unimock> = vec![];
    let r = check_inner(case, &mut insts);
    // early error: tear the instances down quietly (clones first)
    while let Some(u) = insts.pop() {
        let _ = catch(move || drop(u));
    }
    r
}

fn check_inner(case: &LinearCase, insts: &mut Vec<Unimock>) -> Result<CaseInfo, String> {
    let reg = Arc::new(Reg::default());
    let mut dc = DynClause::new();
    // ordered items must be requested in declaration order: their requests are issued
    // in item order (they are configured in item order as well)
    let mut configured = vec![];
    for (i, item) in case.items.iter().enumerate() {
        configured.push(configure(&mut dc, &reg, i as u8, item));
    }
    if case.later_catch_all {
        let unordered_on = |pred: &dyn Fn(Shape) -> bool| case.items.iter().any(|i| pred(i.shape)) && !case.items.iter().any(|i| pred(i.shape) && i.ordered);
        if unordered_on(&|s| s == Shape::Take) {
            let r = reg.clone();
            let answer: Arc<dyn Fn(&Unimock, u8) -> Token + Send + Sync> = Arc::new(move |_, _| Token::new(&r));
            dc.push(TokMock::take.each_call(&|m| m.func(|_, _| true)).answers_arc(answer));
        }
        if unordered_on(&|s| matches!(s, Shape::DupSingle | Shape::DupNTimes(_) | Shape::DupEach)) {
            let r = reg.clone();
            let answer: Arc<dyn Fn(&Unimock, u8) -> CToken + Send + Sync> = Arc::new(move |_, _| CToken::new(&r));
            dc.push(TokMock::dup.each_call(&|m| m.func(|_, _| true)).answers_arc(answer));
        }
    }
    let partial = case.partial;
    let original = catch(move || if partial { Unimock::new_partial(dc) } else { Unimock::new(dc) }).map_err(|e| format!("construction panicked: {e}"))?;
    insts.push(original);
    for _ in 0..case.clones {
        let c = insts[0].clone();
        insts.push(c);
    }
    // request plan: (item index) repeated `requests` times, interleaved by keys; ordered items first-come in order
    let mut plan: Vec<(u8, usize)> = vec![];
    for (i, item) in case.items.iter().enumerate() {
        for _ in 0..item.requests {
            plan.push((case.order.get(plan.len()).copied().unwrap_or(0), i));
        }
    }
    plan.sort();
    // ordered items: enforce ascending item index among ordered requests
    let ordered_positions: Vec<usize> = plan
        .iter()
        .enumerate()
        .filter(|(_, (_, i))| case.items[*i].ordered)
        .map(|(p, _)| p)
        .collect();
    let mut ordered_items: Vec<usize> = ordered_positions.iter().map(|p| plan[*p].1).collect();
    ordered_items.sort();
    for (p, i) in ordered_positions.iter().zip(ordered_items) {
        plan[*p].1 = i;
    }

    let mut delivered_count = vec![0usize; case.items.len()];
    let mut request_count = vec![0usize; case.items.len()];
    let mut kept: Vec<Delivered> = vec![];
    let mut ordered_broken = false;
    let mut multi_requests = false;
    // the ordered sequence: one slot per ordered item, in declaration order
    let ordered_slots: Vec<usize> = (0..case.items.len()).filter(|i| case.items[*i].ordered).collect();
    let mut next_slot = 0usize;
    for (step, (_, i)) in plan.iter().enumerate() {
        let item = &case.items[*i];
        let conf = &configured[*i];
        let u = &insts[step % insts.len()];
        request_count[*i] += 1;
        if item.ordered && ordered_broken {
            continue; // after an ordered deviation nothing is defined for ordered calls
        }
        let r = request(u, *i as u8, item.shape);
        let in_order = !item.ordered || ordered_slots.get(next_slot) == Some(i);
        if item.ordered {
            next_slot += 1;
        }
        let expect_value = if item.ordered {
            in_order
        } else if conf.single_use {
            request_count[*i] == 1
        } else {
            match item.shape {
                Shape::DupNTimes(_) => true, // beyond n: value unspecified by C02, but it can only be a clone
                _ => true,
            }
        };
        match r {
            Ok(d) => {
                if !expect_value {
                    return Err(format!(
                        "item {i} ({:?}): request #{} for a single-use value produced a value instead of panicking",
                        item.shape, request_count[*i]
                    ));
                }
                match &d {
                    Delivered::Tokens(ts) => {
                        let got: Vec<u32> = ts.iter().map(|t| t.id).collect();
                        if got != conf.ids {
                            return Err(format!("item {i}: delivered owned leaves {got:?}, configured {:?}", conf.ids));
                        }
                    }
                    Delivered::CTokens(ts) => {
                        for t in ts {
                            if conf.single_use {
                                if vec![t.id] != conf.ids {
                                    return Err(format!("item {i}: single-use path delivered id {} instead of the configured value {:?} (an extra clone?)", t.id, conf.ids));
                                }
                            } else {
                                let parent = reg.inner.lock().unwrap()[t.id as usize].1;
                                if parent != Some(conf.ids[0]) {
                                    return Err(format!("item {i}: repeat-use path delivered id {} (parent {parent:?}), expected a clone of {}", t.id, conf.ids[0]));
                                }
                            }
                        }
                    }
                }
                delivered_count[*i] += 1;
                if item.drop_delivered_early {
                    drop(d);
                } else {
                    kept.push(d);
                }
            }
            Err(msg) => {
                if msg.contains("borrowed leaf") {
                    return Err(format!("item {i}: {msg}"));
                }
                if item.ordered {
                    ordered_broken = true;
                }
                if expect_value && !(item.ordered) && !matches!(item.shape, Shape::DupNTimes(_)) {
                    return Err(format!("item {i} ({:?}): request #{} panicked: {msg}", item.shape, request_count[*i]));
                }
                if expect_value && item.ordered {
                    return Err(format!("item {i} ({:?}): in-order request panicked: {msg}", item.shape));
                }
            }
        }
        if request_count[*i] >= 2 {
            multi_requests = true;
        }
        // stored values stay intact while the mock is alive
        for (j, c) in configured.iter().enumerate() {
            for id in &c.ids {
                let d = reg.drops(*id);
                let already_delivered = c.single_use && delivered_count[j] > 0;
                if !already_delivered && d != 0 {
                    return Err(format!("item {j}: configured value {id} was dropped {d} time(s) while the mock is alive and the value undelivered"));
                }
                if d > 1 {
                    return Err(format!("item {j}: value {id} dropped {d} times"));
                }
            }
            if !c.single_use {
                let clones = reg.clones_of(c.ids[0]);
                if clones < delivered_count[j] {
                    return Err(format!("item {j}: only {clones} clones were made for {} delivered values", delivered_count[j]));
                }
            }
        }
    }
    // teardown: clones, then the original (verdict irrelevant: catch)
    while let Some(u) = insts.pop() {
        let _ = catch(move || drop(u));
    }
    drop(kept);
    for id in 0..reg.len() {
        let d = reg.drops(id);
        if d != 1 {
            return Err(format!("after teardown value {id} was dropped {d} times (expected exactly once)"));
        }
    }
    let mixed = case.items.iter().any(|i| matches!(i.shape, Shape::Pair | Shape::Triple | Shape::ResErr | Shape::DupPairEach | Shape::OptResErr | Shape::PollResErr | Shape::PollOptResErr | Shape::VecRes | Shape::OptPair));
    let nested = case.items.iter().any(|i| matches!(i.shape, Shape::OptResErr | Shape::PollResErr | Shape::PollOptResErr | Shape::VecRes | Shape::OptPair));
    Ok(CaseInfo::new(multi_requests || mixed)
        .class_if(multi_requests, "value-requested-more-than-once")
        .class_if(mixed, "owned-leaf-in-mixed-composite")
        .class_if(nested, "owned-leaf-two-or-more-levels-down")
        .class_if(case.items.iter().any(|i| i.requests == 0), "never-requested-value")
        .class_if(case.items.iter().any(|i| i.ordered), "next_call-entry")
        .class_if(case.clones > 0, "requests-through-clones")
        .class_if(case.partial, "partial-mock(real-implementations-registered)")
        .class_if(case.later_catch_all, "later-catch-all-pattern-on-take/dup"))
}

fn shape_strategy() -> impl Strategy<Value = Shape> {
    prop_oneof![
        Just(Shape::Take),
        Just(Shape::TakeOptSome),
        Just(Shape::TakePoll),
        Just(Shape::Pair),
        Just(Shape::Triple),
        Just(Shape::ResErr),
        Just(Shape::OptResErr),
        Just(Shape::PollResErr),
        Just(Shape::PollOptResErr),
        Just(Shape::VecRes),
        Just(Shape::OptPair),
        Just(Shape::DupSingle),
        (0..4u8).prop_map(Shape::DupNTimes),
        Just(Shape::DupEach),
        Just(Shape::DupPairEach),
    ]
}

fn item_strategy() -> impl Strategy<Value = Item> {
    (shape_strategy(), any::<bool>(), any::<bool>(), 0..=4u8, any::<bool>()).prop_map(
        |(shape, ordered, once, requests, drop_delivered_early)| {
            let single = !matches!(shape, Shape::DupNTimes(_) | Shape::DupEach | Shape::DupPairEach);
            Item { shape, ordered: ordered && single, once, requests, drop_delivered_early }
        },
    )
}

pub fn case_strategy() -> impl Strategy<Value = LinearCase> {
    (vec(item_strategy(), 1..=6), vec(any::<u8>(), 24), 0..=2u8, proptest::bool::weighted(0.35), proptest::bool::weighted(0.35)).prop_map(|(mut items, order, clones, partial, later_catch_all)| {
        // one mode per method: the first item of a method decides whether it is ordered
        let method = |s: Shape| match s {
            Shape::Take => 0,
            Shape::TakeOptSome => 1,
            Shape::TakePoll => 2,
            Shape::Pair => 3,
            Shape::Triple => 4,
            Shape::ResErr => 5,
            Shape::DupSingle | Shape::DupNTimes(_) | Shape::DupEach => 6,
            Shape::DupPairEach => 7,
            Shape::OptResErr => 8,
            Shape::PollResErr => 9,
            Shape::PollOptResErr => 10,
            Shape::VecRes => 11,
            Shape::OptPair => 12,
        };
        let mut mode: std::collections::BTreeMap<u8, bool> = Default::default();
        for it in items.iter_mut() {
            let single = !matches!(it.shape, Shape::DupNTimes(_) | Shape::DupEach | Shape::DupPairEach);
            let m = method(it.shape);
            match mode.get(&m) {
                None => {
                    mode.insert(m, it.ordered);
                }
                Some(ordered) => {
                    if *ordered && !single {
                        // an ordered method cannot take an unordered-only shape: fall back to the single-use dup
                        it.shape = Shape::DupSingle;
                    }
                    it.ordered = *ordered;
                }
            }
        }
        LinearCase { items, order, clones, partial, later_catch_all }
    })
}

// ------------------------------------------------------------------ racing for composite single-use values

/// Threads racing for ONE single-use value whose owned leaves sit in several cells
/// (a Vec / tuple of leaves): whatever the interleaving, exactly one request gets all
/// of them and every other request panics.
#[derive(Clone, Debug, PartialEq, Eq, Hash, Serialize, Deserialize)]
pub struct LeafRaceCase {
    pub shape: Shape,
    pub threads: u8,
    pub shared: bool,
    pub creator: bool,
    pub once: bool,
    pub schedule: Vec<u8>,
}

pub struct LeafRaceRun {
    pub decisions: Vec<(u8, u8)>,
    pub switches: usize,
}

pub fn execute_leaf_race(case: &LeafRaceCase, schedule: &[u8]) -> Result<LeafRaceRun, String> {
    let reg = Arc::new(Reg::default());
    let mut dc = DynClause::new();
    let item = Item { shape: case.shape, ordered: false, once: case.once, requests: case.threads, drop_delivered_early: false };
    let conf = configure(&mut dc, &reg, 0, &item);
    let original = catch(move || Unimock::new(dc).no_verify_in_drop()).map_err(|e| format!("HARNESS: construction panicked: {e}"))?;
    let shape = case.shape;
    let first_spawned = case.creator as usize;
    let mut bodies: Vec<Box<dyn FnOnce() -> Result<Delivered, String> + Send>> = vec![];
    let (original, run) = if case.shared {
        let arc = Arc::new(original);
        for _ in first_spawned..case.threads as usize {
            let h = arc.clone();
            bodies.push(Box::new(move || {
                let r = request(&h, 0, shape);
                drop(h);
                r
            }));
        }
        let run = {
            let inline: Option<Box<dyn FnOnce() -> Result<Delivered, String> + '_>> = if case.creator {
                let h: &Unimock = &arc;
                Some(Box::new(move || request(h, 0, shape)))
            } else {
                None
            };
            crate::sched::run_with_inline(inline, bodies, schedule)
        };
        let o = Arc::try_unwrap(arc).map_err(|_| "HARNESS: a thread kept its handle".to_string())?;
        (o, run)
    } else {
        for _ in first_spawned..case.threads as usize {
            let c = original.clone();
            bodies.push(Box::new(move || {
                let r = request(&c, 0, shape);
                drop(c);
                r
            }));
        }
        let run = {
            let inline: Option<Box<dyn FnOnce() -> Result<Delivered, String> + '_>> = if case.creator {
                let h: &Unimock = &original;
                Some(Box::new(move || request(h, 0, shape)))
            } else {
                None
            };
            crate::sched::run_with_inline(inline, bodies, schedule)
        };
        (original, run)
    };
    if run.hung {
        let _ = catch(move || drop(original));
        return Err("HARNESS: watchdog: a scheduled thread did not get the token within 20 s".into());
    }
    let mut verdict: Result<(), String> = Ok(());
    let mut winners = 0;
    for (t, r) in run.results.iter().enumerate() {
        match r {
            Ok(Delivered::Tokens(ts)) => {
                let got: Vec<u32> = ts.iter().map(|x| x.id).collect();
                if got == conf.ids {
                    winners += 1;
                } else {
                    verdict = Err(format!("thread {t}: a request returned owned leaves {got:?} instead of all of {:?} or a panic", conf.ids));
                }
            }
            Ok(Delivered::CTokens(_)) => verdict = Err("HARNESS: clone tokens in a single-use race".into()),
            Err(msg) if msg.contains("borrowed leaf") => verdict = Err(format!("thread {t}: {msg}")),
            Err(_) => {}
        }
    }
    if verdict.is_ok() && winners != 1 {
        verdict = Err(format!(
            "{winners} of {} racing requests received the single-use value {:?} (exactly one must)",
            case.threads, conf.ids
        ));
    }
    if verdict.is_ok() {
        for id in &conf.ids {
            if reg.drops(*id) != 0 {
                verdict = Err(format!("leaf {id} was dropped while its receiver still holds it / the mock is alive"));
            }
        }
    }
    let _ = catch(move || drop(original));
    drop(run.results);
    if verdict.is_ok() {
        for id in 0..reg.len() {
            let d = reg.drops(id);
            if d != 1 {
                verdict = Err(format!("after teardown value {id} was dropped {d} times (expected exactly once)"));
                break;
            }
        }
    }
    verdict.map(|()| LeafRaceRun { decisions: run.decisions, switches: run.switches })
}

pub fn check_leaf_race(case: &LeafRaceCase) -> Result<CaseInfo, String> {
    let r = execute_leaf_race(case, &case.schedule)?;
    Ok(CaseInfo::new(r.switches >= 2)
        .class(match case.shape {
            Shape::VecRes => "vec-of-two-owned-leaves",
            Shape::Triple => "tuple-of-two-owned-leaves",
            Shape::OptResErr => "leaf-two-levels-down",
            _ => "single-leaf",
        })
        .class_if(case.shared, "shared-&Unimock")
        .class_if(case.creator, "creator-thread-takes-part")
        .class_if(case.threads >= 3, "three-or-more-threads"))
}

const RACE_SHAPES: [Shape; 4] = [Shape::VecRes, Shape::Triple, Shape::OptResErr, Shape::Take];

pub fn leaf_race_exhaustive(limit: u64) -> vcore::SubReport {
    let mut rep = vcore::SubReport::new("racing-leaves-exhaustive");
    rep.exhaustive = true;
    let mut per_config = vec![];
    'outer: for shape in RACE_SHAPES {
        for (shared, creator) in [(false, false), (true, false), (false, true), (true, true)] {
            let base = LeafRaceCase { shape, threads: 2, shared, creator, once: shared ^ creator, schedule: vec![] };
            let mut execs = 0u64;
            let mut with_switches = 0u64;
            let r = crate::sched::enumerate(limit, |path| {
                let e = execute_leaf_race(&base, path)?;
                execs += 1;
                if e.switches >= 2 {
                    with_switches += 1;
                }
                Ok(e.decisions)
            });
            rep.evaluations += execs;
            for i in 0..with_switches {
                rep.nontrivial.insert(vcore::stable_hash(&(shape, shared, creator, i)));
            }
            match r {
                Ok(Some(n)) => per_config.push(serde_json::json!({"shape": format!("{shape:?}"), "threads": 2, "shared_handle": shared, "creator_takes_part": creator, "schedules": n, "complete": true})),
                Ok(None) => {
                    rep.exhaustive = false;
                    per_config.push(serde_json::json!({"shape": format!("{shape:?}"), "threads": 2, "shared_handle": shared, "creator_takes_part": creator, "schedules": execs, "complete": false}));
                }
                Err((path, reason)) => {
                    let mut c = base.clone();
                    c.schedule = path;
                    if reason.starts_with("HARNESS") {
                        rep.inconclusive = Some(reason);
                    } else {
                        rep.fail(&c, reason);
                    }
                    break 'outer;
                }
            }
            if rep.samples.len() < 2 {
                rep.samples.push(serde_json::to_value(&base).unwrap());
            }
        }
    }
    rep.extra.insert("configurations".into(), serde_json::json!(per_config));
    rep
}

fn leaf_race_strategy() -> impl Strategy<Value = LeafRaceCase> {
    (0..RACE_SHAPES.len(), 2..=4u8, any::<bool>(), any::<bool>(), any::<bool>(), vec(any::<u8>(), 0..64))
        .prop_map(|(s, threads, shared, creator, once, schedule)| LeafRaceCase { shape: RACE_SHAPES[s], threads, shared, creator, once, schedule })
}

pub fn grid() -> Vec<LinearCase> {
    let mut v = vec![];
    for shape in [
        Shape::Take,
        Shape::TakeOptSome,
        Shape::TakePoll,
        Shape::Pair,
        Shape::Triple,
        Shape::ResErr,
        Shape::OptResErr,
        Shape::PollResErr,
        Shape::PollOptResErr,
        Shape::VecRes,
        Shape::OptPair,
        Shape::DupSingle,
        Shape::DupNTimes(0),
        Shape::DupNTimes(2),
        Shape::DupEach,
        Shape::DupPairEach,
    ] {
        let single = !matches!(shape, Shape::DupNTimes(_) | Shape::DupEach | Shape::DupPairEach);
        for ordered in [false, true] {
            if ordered && !single {
                continue;
            }
            for once in [false, true] {
                for requests in 0..=3u8 {
                    for early in [false, true] {
                        for partial in [false, true] {
                            // partial mocks only differ where a real implementation is registered
                            if partial && !matches!(shape, Shape::Take | Shape::TakeOptSome | Shape::DupSingle | Shape::DupNTimes(_) | Shape::DupEach) {
                                continue;
                            }
                            v.push(LinearCase {
                                items: vec![Item { shape, ordered, once, requests, drop_delivered_early: early }],
                                order: vec![],
                                clones: requests % 2,
                                partial,
                                later_catch_all: false,
                            });
                            if !ordered && matches!(shape, Shape::Take | Shape::DupSingle | Shape::DupNTimes(_) | Shape::DupEach) {
                                v.push(LinearCase {
                                    items: vec![Item { shape, ordered, once, requests, drop_delivered_early: early }],
                                    order: vec![],
                                    clones: requests % 2,
                                    partial,
                                    later_catch_all: true,
                                });
                            }
                        }
                    }
                }
            }
        }
    }
    v
}

pub const RULE: &str = "histories = 1-6 configured return values (non-Clone drop-counting tokens alone, inside Option / Poll, as owned leaves of mixed tuples (Token,&T) / (&T,Token,Token) and as the owned Err of Result<&T,Token>, and two or three levels down in Option<Result<&T,Token>>, Poll<Result<..>>, Poll<Option<Result<..>>>, Vec<Result<&T,Token>>, (Option<Result<&T,Token>>,&T); Clone tokens through the single-use path, n_times(n), each_call, and as leaf of a mixed tuple), some_call or next_call entry, unquantified or once(), each requested 0-4 times in a generated interleaving through the original and clones, on strict and partial mocks (three of the methods have real implementations: a matched request for a used-up value must still be refused), optionally with later catch-all patterns on the same methods (which must never answer instead), delivered values dropped early or kept past teardown; grid = every shape x entry x quantifier x 0..3 requests enumerated; racing = all schedules of 2-3 threads requesting one single-use value (see C10 engine). Non-trivial = some value requested more than once or an owned leaf inside a mixed composite; distinct = distinct case";

pub fn run(ctx: &Ctx) -> Verdict {
    let mut v = Verdict::new("exploration", RULE);
    v.explanation = "Conservation oracle on an instrumented value type: the first request delivers exactly the configured owned leaves (by id), every further request for a single-use value panics, undelivered stored values are never dropped while the mock lives, repeat-use values are cloned exactly once per delivery, and after teardown every value ever constructed was dropped exactly once. The racing half enumerates every interleaving (at lock/atomic granularity) of threads competing for one single-use value. The compile-time half (chains that must not type-check) is checked by the program-generation engine and reported in the same evidence file when present.".into();
    v.assumptions = vec![
        "DynClause hook assembles clause lists of run-time length".into(),
        "interleavings inside std::sync::Mutex are not controlled".into(),
    ];
    v.subs.push(super::replay_corpus(ctx));
    let n = ctx.tier.pick(120_000, 3_000_000);
    v.subs.push(vcore::run_proptest(ctx, "histories", n, case_strategy(), check));
    v.subs.push(vcore::run_enumerated(ctx, "grid", grid(), |c| check(c).map(|i| CaseInfo { nontrivial: true, classes: i.classes })));
    let small: &[(u8, u8)] = match ctx.tier {
        vcore::Tier::Quick => &[(2, 1), (2, 2), (3, 1)],
        vcore::Tier::Thorough => &[(2, 1), (2, 2), (3, 1), (2, 3)],
    };
    // compile-time half: decided by the program-generation engine
    let tier = ctx.tier.name();
    v.subs.push(vcore::sub_report_from("progen", &["--sub-json", "C12", tier], "compile-fail"));
    for mut s in super::c10::run_kinds(ctx, small, &[super::c10::Kind::SingleUse, super::c10::Kind::SingleUseThen]) {
        let renamed = format!("racing-{}", s.name);
        s.rename(renamed);
        v.subs.push(s);
    }
    // composite single-use values (several cells) under every interleaving of two threads, sampled for 2-4
    #[cfg(feature = "std")]
    {
        v.subs.push(leaf_race_exhaustive(ctx.tier.pick(150_000, 2_000_000) as u64));
        let n = ctx.tier.pick(8_000, 300_000);
        v.subs.push(vcore::run_proptest(ctx, "racing-leaves-sampled", n, leaf_race_strategy(), check_leaf_race));
    }
    v.subs.extend(super::variant_reports(ctx, &["nostd-spin"]));
    v
}

pub fn replay(sub: &str, case: Value) -> Result<(), String> {
    if sub.starts_with("racing-leaves") {
        let c: LeafRaceCase = serde_json::from_value(case).map_err(|e| format!("HARNESS: bad case: {e}"))?;
        return check_leaf_race(&c).map(|_| ());
    }
    if sub.starts_with("racing") {
        return super::c10::replay(sub, case);
    }
    let c: LinearCase = serde_json::from_value(case).map_err(|e| format!("HARNESS: bad case: {e}"))?;
    check(&c).map(|_| ())
}
