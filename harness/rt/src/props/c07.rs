//! C07 — calls without an applicable pattern fail loudly or fall through as documented.

use serde::Serialize;
use serde_json::Value;
use vcore::{CaseInfo, Ctx, Verdict};

use crate::exec::{compare, CompareOpts, Obs};
use crate::gen::{self, Cfg};
use crate::model::{Outcome, PanicKind};
use crate::spec::*;
use crate::traits::FACTS;

/// signature of the known finding: `unmock_with` is ignored for `&mut self` receivers
pub const SIG_MUT_UNMOCK: &str = "unmock-arm-missing:receiver=&mut self";

pub fn methods(include_mut_unmock: bool) -> Vec<u8> {
    let mut m = vec![0, 2, 4, 5, 6, 7];
    if include_mut_unmock {
        m.push(12);
        // `&mut self`, default body and real function together
        m.push(13);
    }
    m
}

pub fn cfg(include_mut_unmock: bool) -> Cfg {
    let mut cfg = Cfg::base();
    cfg.methods = methods(include_mut_unmock);
    cfg.p_unordered = 95;
    cfg.p_ordered = 45;
    cfg.resps = vec![Resp::Answers, Resp::AnswersArc, Resp::Returns, Resp::ReturnsDefault];
    cfg.matchers = vec![MatcherKind::FuncDebug, MatcherKind::FuncDebug, MatcherKind::Func, MatcherKind::Macro(0), MatcherKind::FuncDebug, MatcherKind::FuncUserPanic, MatcherKind::FuncDebug, MatcherKind::NoFunc];
    cfg.max_clauses = 5;
    cfg.max_stub_pats = 3;
    cfg.max_chain = 3;
    cfg.max_n = 3;
    cfg.max_history = 20;
    cfg.guide = 90;
    cfg.prefer_match = 90;
    cfg.stop_at_deviation = true;
    cfg
}

fn is_c07_call(t: &crate::exec::CallTrace, mentioned: bool) -> Option<&'static str> {
    if !mentioned {
        return Some(match t.expected {
            Outcome::Value(v) if v >= 7_000_000 => "unmentioned->default-body",
            Outcome::Value(_) => "unmentioned->real-fn",
            Outcome::Panic(PanicKind::NoMock) => "unmentioned->panic(strict)",
            Outcome::Panic(PanicKind::CannotUnmock) => "unmentioned->panic(no real fn)",
            _ => "unmentioned->other",
        });
    }
    if t.accepting == 0 {
        return Some(match t.expected {
            Outcome::Value(_) => "unmatched->real-fn(partial)",
            Outcome::Panic(PanicKind::NoMatch) => "unmatched->panic(strict)",
            Outcome::Panic(PanicKind::CannotUnmock) => "unmatched->panic(no real fn)",
            Outcome::Panic(_) => "unmatched->panic(ordered)",
            Outcome::Unspecified => "unmatched->unspecified",
        });
    }
    None
}

pub fn check(scn: &Scenario) -> Result<CaseInfo, String> {
    match compare(scn, CompareOpts::default())? {
        None => Ok(CaseInfo::new(false).class("construct-error")),
        Some(cmp) => {
            let mentioned: std::collections::BTreeSet<u8> = scn.clauses.iter().map(|c| c.method()).collect();
            let mut classes: std::collections::BTreeSet<&'static str> = Default::default();
            let mut nt = false;
            for (i, (c, t)) in scn.history.iter().zip(cmp.calls.iter()).enumerate() {
                if let Some(class) = is_c07_call(t, mentioned.contains(&c.method)) {
                    classes.insert(class);
                    // the mock never fabricates a value: a value must be the real fn's or default body's
                    if let (Obs::Value(v), true) = (&t.observed, t.accepting == 0 || !mentioned.contains(&c.method)) {
                        if *v < 5_000_000 && !matches!(t.expected, Outcome::Unspecified) {
                            return Err(format!(
                                "call #{i} {}({}) has no applicable pattern but returned the fabricated value {v}",
                                FACTS[c.method as usize].path, c.arg
                            ));
                        }
                    }
                    let before = cmp.calls[..i].iter().any(|t| matches!(t.observed, Obs::Value(v) if v < 5_000_000));
                    let after = cmp.calls[i + 1..].iter().any(|t| matches!(t.observed, Obs::Value(v) if v < 5_000_000));
                    if before && after {
                        nt = true;
                    }
                }
            }
            let mut ci = CaseInfo::new(nt)
                .class_if(scn.partial, "partial")
                .class_if(!scn.partial, "strict")
                .class(super::verdict_class(&cmp.model_verdict))
                .class_if(scn.history.iter().any(|c| c.unwinding), "has-call-by-a-destructor-during-unwinding");
            ci.classes.extend(classes);
            Ok(ci)
        }
    }
}

/// One cell of the exhaustive decision table.
#[derive(Clone, Debug, Hash, Serialize)]
pub struct Cell {
    pub partial: bool,
    pub method: u8,
    /// "unmentioned" | "unmatched" | "matched"
    pub situation: &'static str,
    pub ordered: bool,
    pub arg: u8,
    /// position of the probed call inside the surrounding history (0..=2)
    pub position: u8,
}

pub fn table(include_mut_unmock: bool) -> Vec<Cell> {
    let mut cells = vec![];
    for partial in [false, true] {
        for method in methods(include_mut_unmock) {
            for situation in ["unmentioned", "unmatched", "matched"] {
                for ordered in [false, true] {
                    if situation == "unmentioned" && ordered {
                        continue;
                    }
                    for arg in 0..ARGS {
                        for position in 0..=2u8 {
                            cells.push(Cell {
                                partial,
                                method,
                                situation,
                                ordered,
                                arg,
                                position,
                            });
                        }
                    }
                }
            }
        }
    }
    cells
}

/// Surrounding history: two calls to A::a1 (two-segment chain, so a stray count shifts the
/// returned tag) and, when the probed method is mentioned, two matching calls to it.
pub fn cell_scenario(cell: &Cell) -> Scenario {
    let two_seg = |id: u16, mask: u8| PatternSpec {
        id,
        mask,
        matcher: MatcherKind::FuncDebug,
        chain: vec![
            Seg { resp: Resp::Answers, quant: Quant::Once },
            Seg { resp: Resp::AnswersArc, quant: Quant::Once },
        ],
    };
    let other_arg = (cell.arg + 1) % ARGS;
    let mut clauses = vec![ClauseSpec::Single {
        method: 1,
        entry: Entry::Each,
        pat: two_seg(1, 0xff),
    }];
    let mut around: Vec<Call> = vec![];
    let target_mask = match cell.situation {
        "unmatched" => 1u8 << other_arg,
        _ => (1u8 << other_arg) | (1u8 << cell.arg),
    };
    if cell.situation != "unmentioned" {
        let mut pat = two_seg(2, target_mask);
        if cell.situation == "matched" {
            pat.chain.push(Seg { resp: Resp::Answers, quant: Quant::Once });
        }
        clauses.push(ClauseSpec::Single {
            method: cell.method,
            entry: if cell.ordered { Entry::Next } else { Entry::Each },
            pat,
        });
        around.push(Call { method: cell.method, arg: other_arg, via: 0, unwinding: false });
        around.push(Call { method: 1, arg: 0, via: 1, unwinding: false });
        around.push(Call { method: cell.method, arg: other_arg, via: 1, unwinding: false });
        around.push(Call { method: 1, arg: 5, via: 0, unwinding: false });
    } else {
        around.push(Call { method: 1, arg: 0, via: 1, unwinding: false });
        around.push(Call { method: 1, arg: 5, via: 0, unwinding: false });
    }
    let probe = Call { method: cell.method, arg: cell.arg, via: cell.position % 2, unwinding: false };
    let pos = match cell.position {
        0 => 0,
        1 => around.len() / 2,
        _ => around.len(),
    };
    let mut history = around;
    history.insert(pos, probe);
    if cell.ordered && cell.situation == "unmatched" {
        // everything after an ordered deviation is undefined: stop there
        history.truncate(pos + 1);
    }
    Scenario {
        partial: cell.partial,
        clauses,
        clones: 1,
        history,
        verify: VerifyMode::Drop,
    }
}

pub const RULE: &str = "table = exhaustive enumeration of {strict, partial} x method facts {neither, real fn, default body, both; &self and &mut self receivers} x {unmentioned, mentioned-but-unmatched, matched} x {unordered, ordered} x every argument 0..8 x 3 positions of the probed call inside a surrounding history whose patterns carry two-segment chains (a stray count shifts a returned tag) and exact expectations. random = generated clause sets and histories over the same methods with ~45% of methods unmentioned. Non-trivial = a call without applicable pattern with a matched call before and after it; distinct = distinct scenario / table cell";

pub fn run(ctx: &Ctx) -> Verdict {
    let mut v = Verdict::new("exploration", RULE);
    v.explanation = "Model = documented resolution order (default body > real function in partial mocks > panic; strict unmatched panics, partial unmatched goes to the real function). The side-effect log shows that the real function / default body ran exactly once; returned tags and the verification message show that no pattern count changed.".into();
    v.assumptions = vec!["each clause is wrapped in the DynClause hook (its builder type is only known at run time); the clause list itself is a production tuple of that arity".into()];

    // known finding: `unmock_with` ignored for `&mut self` methods
    let probe = Cell { partial: true, method: 12, situation: "unmentioned", ordered: false, arg: 3, position: 1 };
    let reproduces = check(&cell_scenario(&probe)).is_err();
    let known = vcore::known_finding("C07", SIG_MUT_UNMOCK);
    let include = match (&known, reproduces) {
        (Some(f), true) => {
            v.known_findings.push((SIG_MUT_UNMOCK.to_string(), f.what_fails.clone()));
            false
        }
        _ => true,
    };

    v.subs.push(super::replay_corpus(ctx));
    let t = table(include);
    if !include {
        v.excluded_known = (table(true).len() - t.len()) as u64;
    }
    v.subs.push(vcore::run_enumerated(ctx, "table", t, |cell| {
        let info = check(&cell_scenario(cell))?;
        Ok(CaseInfo { nontrivial: cell.situation != "matched" || cell.partial, classes: info.classes })
    }));
    #[cfg(feature = "std")]
    {
        let mut rep = vcore::SubReport::new("partial-by-default");
        rep.exhaustive = true;
        for (name, r) in partial_by_default() {
            match r {
                Ok(()) => rep.record(&name, &CaseInfo::new(true).class("Termination::report")),
                Err(e) => {
                    rep.fail(&name, format!("{name}: {e}"));
                    break;
                }
            }
        }
        v.subs.push(rep);
    }
    let n = ctx.tier.pick(200_000, 5_000_000);
    v.subs
        .push(vcore::run_proptest(ctx, "random", n, gen::scenario(cfg(include)), check));
    v.subs.extend(super::variant_reports(ctx, &["nostd-spin"]));
    v
}

/// Partial-by-default method (the bundled `Termination::report` mock): unmentioned, it runs
/// the real behaviour (verification verdict as exit code) in strict and partial mocks alike;
/// mentioned, the configured value is returned and the real behaviour does not run.
#[cfg(feature = "std")]
pub fn partial_by_default() -> Vec<(String, Result<(), String>)> {
    use std::process::{ExitCode, Termination};
    use unimock::mock::std::process::TerminationMock;
    use unimock::*;
    let code = |c: ExitCode| format!("{c:?}");
    let mut out = vec![];
    for partial in [false, true] {
        for met in [false, true] {
            // unmentioned: real report() = verdict of the other expectations
            let name = format!("unmentioned partial={partial} expectations_met={met}");
            let r = vcore::panics::catch(|| {
                let clause = crate::traits::AMock::a0.each_call(&|m| m.func(|_, _| true)).returns(1u32).n_times(1);
                let u = if partial { Unimock::new_partial(clause) } else { Unimock::new(clause) };
                if met {
                    use crate::traits::A;
                    u.a0(0);
                }
                code(u.report())
            });
            let want = if met { code(ExitCode::SUCCESS) } else { code(ExitCode::FAILURE) };
            out.push((name, match r {
                Ok(got) if got == want => Ok(()),
                Ok(got) => Err(format!("report() returned {got}, the real behaviour gives {want}")),
                Err(p) => Err(format!("report() panicked instead of running the real behaviour: {p}")),
            }));
            // mentioned: the mocked value wins, nothing else is judged by this call
            let name = format!("mentioned partial={partial} expectations_met={met}");
            let r = vcore::panics::catch(|| {
                let clause = (
                    crate::traits::AMock::a0.each_call(&|m| m.func(|_, _| true)).returns(1u32).n_times(1),
                    TerminationMock::report.each_call(&|m| m.func(|_, _| true)).returns(ExitCode::from(7)),
                );
                let u = if partial { Unimock::new_partial(clause) } else { Unimock::new(clause) }.no_verify_in_drop();
                if met {
                    use crate::traits::A;
                    u.a0(0);
                }
                code(u.report())
            });
            let want = code(ExitCode::from(7));
            out.push((name, match r {
                Ok(got) if got == want => Ok(()),
                Ok(got) => Err(format!("report() returned {got}, the clause configured {want}")),
                Err(p) => Err(format!("mocked report() panicked: {p}")),
            }));
        }
    }
    out
}

pub fn replay(sub: &str, case: Value) -> Result<(), String> {
    #[cfg(feature = "std")]
    if sub == "partial-by-default" {
        let name = case.as_str().unwrap_or("").to_string();
        for (n, r) in partial_by_default() {
            if n == name {
                return r;
            }
        }
        return Err("HARNESS: cell not found".into());
    }
    if sub == "table" {
        for cell in table(true) {
            if serde_json::to_value(&cell).unwrap() == case {
                return check(&cell_scenario(&cell)).map(|_| ());
            }
        }
        return Err("HARNESS: table cell not found".into());
    }
    let scn: Scenario = serde_json::from_value(case).map_err(|e| format!("HARNESS: bad case: {e}"))?;
    check(&scn).map(|_| ())
}
