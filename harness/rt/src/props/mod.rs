//! One module per property. `run` = generated search; `replay` = one saved case,
//! bypassing proptest.

use serde_json::Value;
use vcore::{Ctx, Verdict, EXIT_INCONCLUSIVE, EXIT_OK, EXIT_VIOLATION};

pub mod c01;
pub mod c02;
pub mod c03;
pub mod c04;
pub mod c07;
#[cfg(feature = "std")]
pub mod c08;
#[cfg(feature = "std")]
pub mod c09;
#[cfg(any(feature = "std", feature = "nostd-spin"))]
pub mod c10;
#[cfg(feature = "std")]
pub mod c11;
#[cfg(any(feature = "std", feature = "nostd-spin"))]
pub mod c12;
#[cfg(feature = "std")]
pub mod c13;
pub mod c14;
#[cfg(feature = "std")]
pub mod c17;
pub mod c18;
#[cfg(feature = "std")]
pub mod c20;
#[cfg(feature = "std")]
pub mod text;

pub fn run(ctx: &Ctx) -> i32 {
    let verdict: Verdict = match ctx.prop.as_str() {
        "C01" => c01::run(ctx),
        "C02" => c02::run(ctx),
        "C03" => c03::run(ctx),
        "C04" => c04::run(ctx),
        "C07" => c07::run(ctx),
        #[cfg(feature = "std")]
        "C08" => c08::run(ctx),
        #[cfg(feature = "std")]
        "C09" => c09::run(ctx),
        #[cfg(any(feature = "std", feature = "nostd-spin"))]
        "C10" => c10::run(ctx),
        #[cfg(feature = "std")]
        "C11" => c11::run(ctx),
        #[cfg(any(feature = "std", feature = "nostd-spin"))]
        "C12" => c12::run(ctx),
        #[cfg(feature = "std")]
        "C13" => c13::run(ctx),
        "C14" => c14::run(ctx),
        "C18" => c18::run(ctx),
        #[cfg(feature = "std")]
        "C20" => c20::run(ctx),
        other => {
            eprintln!("rt: property {other} is not served by this engine");
            return EXIT_INCONCLUSIVE;
        }
    };
    vcore::finish(ctx, verdict)
}

/// Replays saved regression inputs of a property; returns failures as (path, reason).
pub fn replay_case(prop: &str, sub: &str, case: Value) -> Result<(), String> {
    match prop {
        "C01" => c01::replay(sub, case),
        "C02" => c02::replay(sub, case),
        "C03" => c03::replay(sub, case),
        "C04" => c04::replay(sub, case),
        "C07" => c07::replay(sub, case),
        #[cfg(feature = "std")]
        "C08" => c08::replay(sub, case),
        #[cfg(feature = "std")]
        "C09" => c09::replay(sub, case),
        #[cfg(any(feature = "std", feature = "nostd-spin"))]
        "C10" => c10::replay(sub, case),
        #[cfg(feature = "std")]
        "C11" => c11::replay(sub, case),
        #[cfg(any(feature = "std", feature = "nostd-spin"))]
        "C12" => c12::replay(sub, case),
        #[cfg(feature = "std")]
        "C13" => c13::replay(sub, case),
        "C14" => c14::replay(sub, case),
        "C18" => c18::replay(sub, case),
        #[cfg(feature = "std")]
        "C20" => c20::replay(sub, case),
        // C17 is decided by the program-generation engine; its racing sub-check lives here
        #[cfg(feature = "std")]
        "C17" if sub == "racing-repeat-use-returns" => c17::replay(sub, case),
        #[cfg(feature = "std")]
        "C17" if sub == "racing-single-use-leaves" => c12::replay("racing-leaves-exhaustive", case),
        // C19 is decided by the program-generation engine; its text-arguments sub-check lives here
        #[cfg(feature = "std")]
        "C19" if sub == "text-arguments" => text::replay(case, text::Oracle::Rendering),
        other => Err(format!("HARNESS: no replay for property {other}")),
    }
}

pub fn replay_file(path: &std::path::Path) -> i32 {
    let rf = match vcore::load_replay(path) {
        Ok(r) => r,
        Err(e) => {
            eprintln!("{e}");
            return EXIT_INCONCLUSIVE;
        }
    };
    match vcore::panics::catch(|| replay_case(&rf.property, &rf.sub, rf.case.clone())) {
        Ok(Ok(())) => {
            println!("replay {}: property {} holds on this input", path.display(), rf.property);
            EXIT_OK
        }
        Ok(Err(reason)) if reason.starts_with("HARNESS") => {
            println!("INCONCLUSIVE {reason}");
            EXIT_INCONCLUSIVE
        }
        Ok(Err(reason)) => {
            println!("  {reason}");
            println!("VIOLATION property={} replay={}", rf.property, path.display());
            EXIT_VIOLATION
        }
        Err(panic) => {
            println!("INCONCLUSIVE harness panic during replay: {panic}");
            EXIT_INCONCLUSIVE
        }
    }
}

/// Replay every saved input of the property as an enumerated sub-check.
pub fn replay_corpus(ctx: &Ctx) -> vcore::SubReport {
    let mut rep = vcore::SubReport::new("replay-corpus");
    for path in vcore::replay_files(&ctx.prop) {
        let Ok(rf) = vcore::load_replay(&path) else { continue };
        if rf.property != ctx.prop {
            continue;
        }
        rep.evaluations += 1;
        match vcore::panics::catch(|| replay_case(&rf.property, &rf.sub, rf.case.clone())) {
            Ok(Ok(())) => {}
            Ok(Err(reason)) if reason.starts_with("HARNESS") => {
                rep.inconclusive = Some(format!("{}: {reason}", path.display()));
            }
            Ok(Err(reason)) => {
                if rep.failure.is_none() {
                    rep.failure = Some(vcore::Failure {
                        sub: rf.sub.clone(),
                        case: rf.case.clone(),
                        reason: format!("saved input {} fails again: {reason}", path.display()),
                    });
                }
            }
            Err(p) => rep.inconclusive = Some(format!("{}: harness panic {p}", path.display())),
        }
    }
    rep
}

pub fn verdict_class(v: &crate::model::Verdict) -> &'static str {
    match v {
        crate::model::Verdict::Silent => "verdict-silent",
        crate::model::Verdict::Lines(_) => "verdict-count-lines",
        crate::model::Verdict::RecordedErrors(_) => "verdict-recorded-errors",
        crate::model::Verdict::Unspecified => "verdict-unspecified",
    }
}

/// Entry point of crash-isolated worker processes (`rt --worker <mode>`).
pub fn worker(mode: &str) {
    match mode {
        #[cfg(feature = "std")]
        "c09" => c09::worker_main(),
        #[cfg(feature = "std")]
        "c11" => c11::worker_main(),
        #[cfg(feature = "std")]
        "c13" => c13::worker_main(),
        #[cfg(feature = "std")]
        "text" => text::worker_main(),
        other => {
            eprintln!("rt: unknown worker mode {other}");
            std::process::exit(EXIT_INCONCLUSIVE);
        }
    }
}

pub fn leak_class(s: &str) -> &'static str {
    use std::collections::HashMap;
    use std::sync::Mutex;
    static M: Mutex<Option<HashMap<String, &'static str>>> = Mutex::new(None);
    let mut g = M.lock().unwrap();
    let m = g.get_or_insert_with(HashMap::new);
    if let Some(v) = m.get(s) {
        return v;
    }
    let l: &'static str = Box::leak(s.to_string().into_boxed_str());
    m.insert(s.to_string(), l);
    l
}


/// E5: a libFuzzer campaign (cargo-fuzz target harness/fuzz, oracle inside the target) over
/// the E1 scenario space. Thorough tiers only. A crash input is converted into a scenario
/// replay file by the target itself.
pub fn fuzz_campaign(ctx: &Ctx, runs: u64) -> vcore::SubReport {
    let mut rep = vcore::SubReport::new("fuzz-campaign(E5)");
    let root = vcore::verif_root();
    let fuzz_dir = root.join("harness").join("fuzz");
    let corpus = root.join("harness").join("work").join(format!("fuzz-corpus-{}", ctx.prop));
    let _ = std::fs::remove_dir_all(&corpus);
    let _ = std::fs::create_dir_all(&corpus);
    let failure_file = root.join("harness").join("work").join(format!("fuzz-failure-{}.json", ctx.prop));
    let _ = std::fs::remove_file(&failure_file);
    let out = std::process::Command::new("cargo")
        .current_dir(&fuzz_dir)
        .args(["+nightly", "fuzz", "run", "-s", "none", "scenario"])
        .arg(&corpus)
        .arg("--")
        .arg(format!("-runs={runs}"))
        .arg(format!("-seed={}", (ctx.sub_seed("fuzz") % 0x7fff_fffe) + 1))
        .args(["-len_control=0", "-max_len=600", "-print_final_stats=1"])
        .env("RUSTFLAGS", "--cfg unimock_verif")
        .env("CARGO_NET_OFFLINE", "true")
        .env("VERIF_FUZZ_OUT", &failure_file)
        .env("VERIF_FUZZ_PROP", &ctx.prop)
        .output();
    let out = match out {
        Ok(o) => o,
        Err(e) => {
            rep.inconclusive = Some(format!("HARNESS: cannot run cargo fuzz: {e}"));
            return rep;
        }
    };
    let stderr = String::from_utf8_lossy(&out.stderr);
    let stat = |key: &str| -> u64 {
        stderr
            .lines()
            .find_map(|l| l.strip_prefix(&format!("stat::{key}:")).map(|v| v.trim().parse::<u64>().unwrap_or(0)))
            .unwrap_or(0)
    };
    rep.evaluations = stat("number_of_executed_units");
    let corpus_units = std::fs::read_dir(&corpus).map(|d| d.count()).unwrap_or(0) as u64;
    // distinct, coverage-increasing inputs kept by libFuzzer
    for i in 0..corpus_units {
        rep.nontrivial.insert(vcore::stable_hash(&("fuzz-corpus-unit", i)));
    }
    rep.extra.insert("corpus_units".into(), serde_json::json!(corpus_units));
    rep.extra.insert("note".into(), serde_json::json!("libFuzzer -seed pins a campaign only approximately; a failing input is saved as a scenario replay file and replayed through E1"));
    if failure_file.exists() {
        if let Ok(text) = std::fs::read_to_string(&failure_file) {
            if let Ok(v) = serde_json::from_str::<serde_json::Value>(&text) {
                let reason = v["reason"].as_str().unwrap_or("").to_string();
                if reason.starts_with("HARNESS") {
                    rep.inconclusive = Some(reason);
                } else {
                    rep.failure = Some(vcore::Failure { sub: "fuzz".into(), case: v["case"].clone(), reason });
                }
                return rep;
            }
        }
    }
    if !out.status.success() || rep.evaluations == 0 {
        rep.inconclusive = Some(format!(
            "HARNESS: cargo fuzz did not complete ({}): {}",
            out.status,
            stderr.lines().rev().take(6).collect::<Vec<_>>().join(" | ")
        ));
    }
    if let Some(first) = std::fs::read_dir(&corpus).ok().and_then(|mut d| d.next()).and_then(|e| e.ok()) {
        if let Ok(bytes) = std::fs::read(first.path()) {
            rep.samples.push(serde_json::json!({"corpus_unit_bytes_hex": bytes.iter().take(64).map(|b| format!("{b:02x}")).collect::<String>()}));
        }
    }
    let _ = std::fs::remove_dir_all(&corpus);
    rep
}

/// Sub-reports of the same property from binaries of this harness built against other
/// feature sets of the library (no_std + spin-lock, no_std without a mutex API). The check
/// driver builds them into harness/target-<variant>/ for the thorough tier.
pub fn variant_reports(ctx: &Ctx, variants: &[&str]) -> Vec<vcore::SubReport> {
    let mut out = vec![];
    if ctx.tier != vcore::Tier::Thorough || crate::variant() != "std" {
        return out;
    }
    for v in variants {
        let exe = vcore::verif_root().join("harness").join(format!("target-{v}")).join("release").join("rt");
        let name = format!("variant:{v}");
        if !exe.exists() {
            let mut r = vcore::SubReport::new(&name);
            r.inconclusive = Some(format!("HARNESS: {} was not built", exe.display()));
            out.push(r);
            continue;
        }
        let res = std::process::Command::new(&exe)
            .args(["--sub-json", &ctx.prop, ctx.tier.name()])
            .env("VERIF_SEED", ctx.seed.to_string())
            .output();
        match res {
            Ok(o) => {
                let stdout = String::from_utf8_lossy(&o.stdout);
                let mut found = false;
                for line in stdout.lines() {
                    if let Ok(val) = serde_json::from_str::<Value>(line) {
                        if let Some(mut r) = vcore::SubReport::from_json(&val) {
                            let renamed = format!("{name}:{}", r.name);
                            r.rename(renamed);
                            out.push(r);
                            found = true;
                        }
                    }
                }
                if !found {
                    let mut r = vcore::SubReport::new(&name);
                    r.inconclusive = Some(format!("HARNESS: no sub-report from {}: {}", exe.display(), String::from_utf8_lossy(&o.stderr).chars().take(600).collect::<String>()));
                    out.push(r);
                }
            }
            Err(e) => {
                let mut r = vcore::SubReport::new(&name);
                r.inconclusive = Some(format!("HARNESS: cannot run {}: {e}", exe.display()));
                out.push(r);
            }
        }
    }
    out
}

/// `rt --sub-json <PROP> <tier>` (variant binaries): the property's sub-checks, one JSON line each.
pub fn print_sub_reports(ctx: &Ctx) {
    if crate::variant() == "nostd-nomutex" {
        crate::model::NO_MUTEX.store(true, std::sync::atomic::Ordering::Relaxed);
    }
    #[cfg(feature = "std")]
    if ctx.prop == "C17-leaves" {
        // pulled by `progen C17`: single-use composites whose owned leaves sit in several cells, two racing requests
        let mut s = c12::leaf_race_exhaustive(ctx.tier.pick(150_000, 2_000_000) as u64);
        s.rename("racing-single-use-leaves".to_string());
        println!("{}", serde_json::to_string(&s.to_json()).unwrap());
        return;
    }
    #[cfg(feature = "std")]
    if ctx.prop == "C17" {
        // pulled by `progen C17` (vcore::sub_report_from)
        let s = c17::sub_report(ctx);
        println!("{}", serde_json::to_string(&s.to_json()).unwrap());
        return;
    }
    #[cfg(feature = "std")]
    if ctx.prop == "C19" {
        // pulled by `progen C19` (vcore::sub_report_from)
        let s = text::sub_report(ctx, text::Oracle::Rendering);
        println!("{}", serde_json::to_string(&s.to_json()).unwrap());
        return;
    }
    let verdict: Verdict = match ctx.prop.as_str() {
        "C01" => c01::run(ctx),
        "C02" => c02::run(ctx),
        "C03" => c03::run(ctx),
        "C04" => c04::run(ctx),
        "C07" => c07::run(ctx),
        "C14" => c14::run(ctx),
        "C18" => c18::run(ctx),
        #[cfg(any(feature = "std", feature = "nostd-spin"))]
        "C12" => c12::run(ctx),
        _ => return,
    };
    for s in verdict.subs {
        if s.name == "replay-corpus" || s.name == "compile-fail" || s.name.starts_with("fuzz") {
            continue;
        }
        println!("{}", serde_json::to_string(&s.to_json()).unwrap());
    }
}
