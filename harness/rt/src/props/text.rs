//! Text arguments: mock-induced errors about calls whose arguments are arbitrary Unicode
//! strings (long, multi-byte, control characters, quotes). Shared by C08 (the error must be
//! recorded and make verification fail with its text) and C19 (the message renders the call
//! as `Trait::method(args)` with the arguments' Debug renderings).

use proptest::collection::vec;
use proptest::prelude::*;
use serde::{Deserialize, Serialize};
use serde_json::Value;
use unimock::*;
use vcore::panics::{catch, payload_to_string};
use vcore::{CaseInfo, Ctx, SubReport};

#[unimock(api=TextMock)]
pub trait Text {
    fn t(&self, s: &str, n: u8) -> u32;
    fn tv(&self, v: Vec<String>, c: char) -> u32;
    fn t_un(&self, s: String) -> u32;
    fn t_opt(&self, s: Option<&str>, b: &[String]) -> u32;
}

#[derive(Clone, Copy, Debug, PartialEq, Eq, Hash, Serialize, Deserialize)]
pub enum Kind {
    /// no pattern of `t` accepts the call
    NoMatchT,
    /// no pattern of `tv` accepts the call
    NoMatchTv,
    /// no pattern of `t_opt` accepts the call
    NoMatchOpt,
    /// strict mock, `t_un` not mentioned
    Unmentioned,
    /// `.panics("boom")`
    Explicit,
    /// ordered pattern in line rejects the inputs
    OrderedInputs,
    /// second call to an exhausted ordered sequence
    OutOfRange,
    /// second request for a single-use value
    ReturnTwice,
}

pub const KINDS: [Kind; 8] = [
    Kind::NoMatchT,
    Kind::NoMatchTv,
    Kind::NoMatchOpt,
    Kind::Unmentioned,
    Kind::Explicit,
    Kind::OrderedInputs,
    Kind::OutOfRange,
    Kind::ReturnTwice,
];

#[derive(Clone, Copy, Debug, PartialEq, Eq, Hash, Serialize, Deserialize)]
pub enum Via {
    Original,
    Clone,
    CloneOnJoinedThread,
    /// the failing call is made by a destructor while a USER panic unwinds the thread; the destructor
    /// swallows the mock's panic, the outer panic is caught as well
    DestructorDuringUnwinding,
}

struct CallsWhenDropped<'a> {
    case: &'a TextCase,
    u: &'a Unimock,
    out: &'a std::cell::RefCell<Option<Result<(), String>>>,
}

impl Drop for CallsWhenDropped<'_> {
    fn drop(&mut self) {
        let r = catch(|| trigger(self.case, self.u));
        *self.out.borrow_mut() = Some(r);
    }
}

#[derive(Clone, Debug, PartialEq, Eq, Hash, Serialize, Deserialize)]
pub struct TextCase {
    pub kind: Kind,
    pub via: Via,
    pub s: String,
    pub n: u8,
    pub v: Vec<String>,
    pub c: char,
    /// an earlier mock-induced panic about ANOTHER call was raised and caught on the same mock
    #[serde(default)]
    pub prior_error: bool,
}

#[derive(Clone, Copy, Debug, PartialEq, Eq, Serialize, Deserialize)]
pub enum Oracle {
    /// C08: the call panics and verification of the original fails with that text
    Recorded,
    /// C19: the message starts with `Text::method(<Debug of the arguments>)`
    Rendering,
    /// C11: the mock-induced panic can be caught (the process does not abort)
    NoAbort,
}

fn setup(kind: Kind) -> impl Clause {
    let mut dc = unimock::verif::DynClause::new();
    match kind {
        Kind::NoMatchT => dc.push(TextMock::t.each_call(&|m| m.func(|_, _| false)).returns(1u32)),
        Kind::NoMatchTv => dc.push(TextMock::tv.each_call(&|m| m.func(|_, _| false)).returns(1u32)),
        Kind::NoMatchOpt => dc.push(TextMock::t_opt.each_call(&|m| m.func(|_, _| false)).returns(1u32)),
        Kind::Unmentioned => {}
        Kind::Explicit => dc.push(TextMock::t.each_call(&|m| m.func(|_, _| true)).panics("boom")),
        Kind::OrderedInputs => dc.push(TextMock::t.next_call(&|m| m.func(|_, _| false)).returns(1u32)),
        Kind::OutOfRange => dc.push(TextMock::t.next_call(&|m| m.func(|_, _| true)).returns(1u32)),
        Kind::ReturnTwice => dc.push(TextMock::t.some_call(&|m| m.func(|_, _| true)).returns(1u32)),
    }
    dc
}

fn trigger(case: &TextCase, u: &Unimock) {
    match case.kind {
        Kind::NoMatchT | Kind::Explicit | Kind::OrderedInputs => {
            u.t(&case.s, case.n);
        }
        Kind::OutOfRange | Kind::ReturnTwice => {
            u.t(&case.s, case.n);
            u.t(&case.s, case.n);
        }
        Kind::NoMatchTv => {
            u.tv(case.v.clone(), case.c);
        }
        Kind::NoMatchOpt => {
            let o = if case.n % 2 == 0 { Some(case.s.as_str()) } else { None };
            u.t_opt(o, &case.v);
        }
        Kind::Unmentioned => {
            u.t_un(case.s.clone());
        }
    }
}

pub fn expected_call(case: &TextCase) -> String {
    match case.kind {
        Kind::NoMatchTv => format!("Text::tv({:?}, {:?})", case.v, case.c),
        Kind::NoMatchOpt => {
            let o = if case.n % 2 == 0 { Some(case.s.as_str()) } else { None };
            format!("Text::t_opt({:?}, {:?})", o, case.v)
        }
        Kind::Unmentioned => format!("Text::t_un({:?})", case.s),
        _ => format!("Text::t({:?}, {:?})", case.s, case.n),
    }
}

pub fn check(case: &TextCase, oracle: Oracle) -> Result<CaseInfo, String> {
    let original = Unimock::new(setup(case.kind)).no_verify_in_drop();
    if case.prior_error {
        // a different call fails first (unmentioned or unmatched method); its error must not leak into the next one
        let r = if case.kind == Kind::NoMatchOpt {
            catch(|| {
                original.t_un(String::from("prior"));
            })
        } else {
            catch(|| {
                original.t_opt(None, &[]);
            })
        };
        if r.is_ok() {
            return Err("HARNESS: the prior failing call did not panic".into());
        }
    }
    let r: Result<(), String> = match case.via {
        Via::Original => catch(|| trigger(case, &original)),
        Via::Clone => {
            let c = original.clone();
            let r = catch(|| trigger(case, &c));
            drop(c);
            r
        }
        Via::CloneOnJoinedThread => {
            let c = original.clone();
            let case2 = case.clone();
            std::thread::spawn(move || trigger(&case2, &c)).join().map_err(payload_to_string)
        }
        Via::DestructorDuringUnwinding => {
            let out = std::cell::RefCell::new(None);
            let outer = catch(|| {
                let _guard = CallsWhenDropped { case, u: &original, out: &out };
                panic!("outer user panic");
            });
            if outer.is_ok() {
                return Err("HARNESS: the outer user panic did not happen".into());
            }
            match out.into_inner() {
                Some(r) => r,
                None => return Err("HARNESS: the destructor did not run".into()),
            }
        }
    };
    let msg = match r {
        Ok(()) => {
            let _ = catch(move || drop(original));
            return Err(format!("HARNESS: {:?} did not panic", case.kind));
        }
        Err(m) => m,
    };
    let call = expected_call(case);
    let verdict = catch(move || original.verify());
    match oracle {
        Oracle::Rendering => {
            if !msg.starts_with(&call) {
                return Err(format!("the mock-induced panic does not render the call as {call:?}: {msg:?}"));
            }
        }
        Oracle::NoAbort => {}
        Oracle::Recorded => match verdict {
            Ok(()) => return Err(format!("verification passed although a call was rejected; the call's panic message was {msg:?}")),
            Err(vmsg) => {
                if !vmsg.contains(&msg) {
                    return Err(format!("verification fails, but not with the text of the error raised at the call: call said {msg:?}, verification said {vmsg:?}"));
                }
            }
        },
    }
    let longest = case.s.len().max(case.v.iter().map(|x| x.len()).max().unwrap_or(0));
    let non_ascii = !case.s.is_ascii() || case.v.iter().any(|x| !x.is_ascii()) || !case.c.is_ascii();
    Ok(CaseInfo::new(non_ascii || longest >= 32)
        .class_if(non_ascii, "non-ASCII-argument")
        .class_if(longest >= 64, "argument>=64-bytes")
        .class_if(longest >= 200, "argument>=200-bytes")
        .class_if(matches!(case.via, Via::Clone | Via::CloneOnJoinedThread), "through-a-clone")
        .class_if(case.via == Via::DestructorDuringUnwinding, "raised-by-a-destructor-during-unwinding")
        .class_if(case.prior_error, "after-an-earlier-caught-mock-error")
        .class(match case.kind {
            Kind::NoMatchT | Kind::NoMatchTv | Kind::NoMatchOpt => "kind:no-matching-call-patterns",
            Kind::Unmentioned => "kind:no-mock-implementation",
            Kind::Explicit => "kind:explicit-panic",
            Kind::OrderedInputs => "kind:inputs-not-matched-in-call-order",
            Kind::OutOfRange => "kind:out-of-range",
            Kind::ReturnTwice => "kind:cannot-return-twice",
        }))
}

fn string_strategy() -> impl Strategy<Value = String> {
    prop_oneof![
        2 => "[ -~]{0,90}",
        2 => "(é|ß|✓|😀|a|\\\\|\"|\u{301}|字){0,120}",
        2 => "\\PC{0,80}",
        1 => any::<String>(),
        // a long ASCII prefix of every length around powers of two, then multi-byte characters
        2 => (prop_oneof![3 => 0..140usize, 1 => 240..270usize, 1 => 500..530usize, 1 => 1000..1040usize, 1 => 4080..4110usize], "(é|✓|😀|字){1,8}")
            .prop_map(|(n, tail)| format!("{}{tail}", "x".repeat(n))),
        1 => (1..700usize).prop_map(|n| "é".repeat(n)),
        1 => "[\u{0}-\u{1f}]{0,12}",
    ]
}

pub fn case_strategy() -> impl Strategy<Value = TextCase> {
    (
        0..KINDS.len(),
        prop_oneof![Just(Via::Original), Just(Via::Clone), Just(Via::CloneOnJoinedThread), Just(Via::DestructorDuringUnwinding)],
        string_strategy(),
        any::<u8>(),
        vec(string_strategy(), 0..4),
        any::<char>(),
        proptest::bool::weighted(0.3),
    )
        .prop_map(|(k, via, s, n, v, c, prior_error)| TextCase { kind: KINDS[k], via, s, n, v, c, prior_error })
}

pub const RULE: &str = "text-arguments = every mock-induced error kind about a call whose arguments are generated Unicode strings (printable ASCII, multi-byte and combining characters, quotes and backslashes, control characters, an ASCII prefix of every length 0..140 and around 256 / 512 / 1024 / 4096 followed by multi-byte characters, runs of up to 700 two-byte characters, proptest's arbitrary strings), as &str, String, Vec<String>, Option<&str>, &[String] and char parameters, raised on the original, on a clone, on a clone in a thread that is joined, or by a destructor while a user panic unwinds (swallowed there); non-trivial = a non-ASCII argument or an argument of >= 32 bytes";

#[derive(Serialize, Deserialize)]
struct WorkerRequest {
    text_oracle: Oracle,
    case: TextCase,
}

#[derive(Serialize, Deserialize)]
struct WorkerReply {
    ok: bool,
    reason: String,
    nontrivial: bool,
    classes: Vec<String>,
}

/// Worker side (`rt --worker text`): a panic raised while another one is being processed aborts
/// the process, so every case runs in a crash-isolated worker.
pub fn worker_main() {
    vcore::worker::serve(|line| {
        let reply = match serde_json::from_str::<WorkerRequest>(line) {
            Err(e) => WorkerReply { ok: false, reason: format!("HARNESS: bad request {e}"), nontrivial: false, classes: vec![] },
            Ok(req) => match catch(|| check(&req.case, req.text_oracle)) {
                Ok(Ok(info)) => WorkerReply { ok: true, reason: String::new(), nontrivial: info.nontrivial, classes: info.classes.iter().map(|c| c.to_string()).collect() },
                Ok(Err(reason)) => WorkerReply { ok: false, reason, nontrivial: false, classes: vec![] },
                Err(p) => WorkerReply { ok: false, reason: format!("HARNESS: panic in worker: {p}"), nontrivial: false, classes: vec![] },
            },
        };
        serde_json::to_string(&reply).unwrap()
    });
}

pub fn check_via(worker: &std::cell::RefCell<vcore::worker::Worker>, case: &TextCase, oracle: Oracle) -> Result<CaseInfo, String> {
    let json = serde_json::to_string(&WorkerRequest { text_oracle: oracle, case: case.clone() }).unwrap();
    match worker.borrow_mut().run(&json) {
        vcore::worker::Reply::Crash(status) => Err(format!(
            "the process aborted ({status}) while a mock-induced panic about this call was raised: a second panic while the first was being processed"
        )),
        vcore::worker::Reply::Line(l) => {
            let r: WorkerReply = serde_json::from_str(&l).map_err(|e| format!("HARNESS: bad worker reply {e}: {l}"))?;
            if r.ok {
                let mut ci = CaseInfo::new(r.nontrivial);
                ci.classes = r.classes.iter().map(|c| super::leak_class(c)).collect();
                Ok(ci)
            } else {
                Err(r.reason)
            }
        }
    }
}

pub fn sub_report(ctx: &Ctx, oracle: Oracle) -> SubReport {
    let n = ctx.tier.pick(30_000, 600_000);
    let worker = std::cell::RefCell::new(vcore::worker::Worker::new("text"));
    vcore::run_proptest(ctx, "text-arguments", n, case_strategy(), move |c| check_via(&worker, c, oracle))
}

pub fn replay(case: Value, oracle: Oracle) -> Result<(), String> {
    let c: TextCase = serde_json::from_value(case).map_err(|e| format!("HARNESS: bad case: {e}"))?;
    let worker = std::cell::RefCell::new(vcore::worker::Worker::new("text"));
    check_via(&worker, &c, oracle).map(|_| ())
}
