//! C03 — verification fails exactly when an expectation is unmet, and names each one.

use proptest::collection::vec;
use proptest::prelude::*;
use serde::Serialize;
use serde_json::Value;
use vcore::{CaseInfo, Ctx, Verdict};

use crate::exec::{compare, CompareOpts};
use crate::gen::{self, Cfg};
use crate::model::{Expect, Model};
use crate::spec::*;
use crate::traits::FACTS;

pub fn cfg() -> Cfg {
    let mut cfg = Cfg::base();
    cfg.methods = vec![0, 1, 2, 4, 6, 8, 9];
    cfg.p_unordered = 110;
    cfg.p_ordered = 70;
    // no responses that can induce a mock panic on their own
    cfg.resps = vec![Resp::Returns, Resp::Answers, Resp::AnswersArc, Resp::ReturnsDefault];
    cfg.matchers = vec![
        MatcherKind::FuncDebug,
        MatcherKind::FuncDebug,
        MatcherKind::FuncDebug,
        MatcherKind::Func,
        MatcherKind::Macro(0),
        MatcherKind::MacroEq(0),
    ];
    cfg.max_clauses = 6;
    cfg.max_stub_pats = 3;
    cfg.max_chain = 3;
    cfg.max_n = 3;
    cfg.max_history = 0;
    cfg.verify_modes = vec![VerifyMode::Drop, VerifyMode::Verify, VerifyMode::Report, VerifyMode::ExplicitVerify, VerifyMode::ExplicitReport];
    cfg
}

/// Synthesise a history in which every pattern is matched a *target* number of
/// times (one below / at / one above its bound, zero, or random), without any
/// mock-induced panic: unordered patterns are reached through an argument that no
/// earlier pattern of the method accepts, ordered patterns by following the
/// sequence up to a cut point.
pub fn steer(mut scn: Scenario, targets: &[u8], order: &[u8]) -> Scenario {
    let model = match Model::new(scn.partial, &scn.clauses, &FACTS) {
        Ok(m) => m,
        Err(_) => return scn,
    };
    let mut unordered_calls: Vec<Call> = vec![];
    let mut ti = 0;
    let mut next_target = || {
        let t = targets.get(ti).copied().unwrap_or(0);
        ti += 1;
        t
    };
    for (method, m) in &model.methods {
        if m.ordered {
            continue;
        }
        let mut seen: u8 = 0;
        for p in &m.pats {
            let exclusive = p.mask & !seen;
            seen |= p.mask;
            let t = next_target();
            if exclusive == 0 {
                continue;
            }
            let args: Vec<u8> = (0..ARGS).filter(|a| (exclusive >> a) & 1 == 1).collect();
            let bound = match p.expect {
                Expect::Exactly(n) | Expect::AtLeast(n) => n as i64,
                Expect::None => 1,
            };
            let mut count = match t % 6 {
                0 => bound - 1,
                1 | 2 => bound,
                3 => bound + 1,
                4 => 0,
                _ => (t / 6) as i64 % 6,
            }
            .max(0) as usize;
            // a single-use value may be requested once only
            if p.single_use_first && p.segs.len() == 1 {
                count = count.min(1);
            }
            // stay inside what the chain defines to avoid relying on unspecified responses with effects
            for k in 0..count {
                unordered_calls.push(Call {
                    method: *method,
                    arg: args[k % args.len()],
                    via: (t as usize + k) as u8,
                    unwinding: false,
                });
            }
        }
    }
    // ordered: follow the sequence up to a cut
    let total = model.slots.len();
    let cut_sel = next_target();
    let cut = match cut_sel % 4 {
        0 => total,
        1 => total.saturating_sub(1),
        2 => 0,
        _ => (cut_sel as usize / 4) % (total + 1),
    };
    let mut ordered_calls = vec![];
    for (i, (m, pi)) in model.slots.iter().take(cut).enumerate() {
        let mask = model.methods[m].pats[*pi].mask;
        let args: Vec<u8> = (0..ARGS).filter(|a| (mask >> a) & 1 == 1).collect();
        if args.is_empty() {
            break; // slot that accepts nothing: sequence cannot proceed
        }
        ordered_calls.push(Call {
            method: *m,
            arg: args[(i + cut_sel as usize) % args.len()],
            via: i as u8,
            unwinding: false,
        });
    }
    // interleave: give every call a key, keep ordered calls in sequence order
    let n = unordered_calls.len() + ordered_calls.len();
    let mut keyed: Vec<(u8, usize, bool)> = (0..n)
        .map(|i| (order.get(i).copied().unwrap_or(0), i, i >= unordered_calls.len()))
        .collect();
    keyed.sort();
    let mut history = vec![];
    let mut oi = 0;
    for (_, idx, is_ordered) in keyed {
        if is_ordered {
            history.push(ordered_calls[oi]);
            oi += 1;
        } else {
            history.push(unordered_calls[idx]);
        }
    }
    for c in history.iter_mut() {
        c.via %= scn.clones + 1;
    }
    scn.history = history;
    scn
}

pub fn check(scn: &Scenario) -> Result<CaseInfo, String> {
    match compare(scn, CompareOpts::default())? {
        None => Ok(CaseInfo::new(false).class("construct-error")),
        Some(cmp) => {
            let mut on_boundary = false;
            let mut npat = 0;
            let mut violated = 0;
            for m in cmp.final_model.methods.values() {
                for p in &m.pats {
                    npat += 1;
                    if let Expect::Exactly(b) | Expect::AtLeast(b) = p.expect {
                        if p.matched + 1 == b || p.matched == b || p.matched == b + 1 {
                            on_boundary = true;
                        }
                    }
                }
            }
            if let crate::model::Verdict::Lines(l) = &cmp.model_verdict {
                violated = l.len();
            }
            let discarded = matches!(cmp.model_verdict, crate::model::Verdict::RecordedErrors(_));
            Ok(CaseInfo::new(on_boundary && npat >= 2 && !discarded)
                .class(super::verdict_class(&cmp.model_verdict))
                .class_if(scn.history.iter().any(|c| c.unwinding), "has-call-by-a-destructor-during-unwinding")
                .class_if(violated >= 2, "two-or-more-violated-expectations")
                .class_if(violated == 1, "one-violated-expectation")
                .class_if(scn.verify == VerifyMode::Report, "via-report")
                .class_if(scn.verify == VerifyMode::Verify, "via-verify")
                .class_if(scn.verify == VerifyMode::Drop, "via-drop")
                .class_if(scn.verify == VerifyMode::ExplicitVerify, "via-no_verify_in_drop+verify")
                .class_if(scn.verify == VerifyMode::ExplicitReport, "via-no_verify_in_drop+report")
                .class_if(discarded, "history-has-mock-panic(not C03)"))
        }
    }
}

/// One cell of the exhaustive boundary grid.
#[derive(Clone, Debug, Hash, Serialize)]
pub struct GridCell {
    pub entry: &'static str,
    pub quant: &'static str,
    pub bound: u8,
    pub count: u8,
    pub verify: VerifyMode,
    pub partial: bool,
}

pub fn grid() -> Vec<GridCell> {
    let mut cells = vec![];
    for entry in ["each", "some", "stub", "next"] {
        for quant in ["exactly", "at_least", "then_open", "then_at_least"] {
            if entry == "next" && (quant == "at_least" || quant == "then_at_least") {
                continue; // does not type-check
            }
            for bound in 0..=3u8 {
                let eff = match quant {
                    "then_open" => bound + 1,
                    "then_at_least" => bound + 1, // n_times(bound).then().at_least_times(1)
                    _ => bound,
                };
                let mut counts = vec![eff.saturating_sub(1), eff, eff + 1, 0];
                counts.sort();
                counts.dedup();
                for count in counts {
                    if entry == "next" && count > eff {
                        continue; // would be an order violation (a mock panic), not C03
                    }
                    for verify in [VerifyMode::Drop, VerifyMode::Verify, VerifyMode::Report, VerifyMode::ExplicitVerify, VerifyMode::ExplicitReport] {
                        for partial in [false, true] {
                            cells.push(GridCell {
                                entry,
                                quant,
                                bound,
                                count,
                                verify,
                                partial,
                            });
                        }
                    }
                }
            }
        }
    }
    cells
}

pub fn grid_scenario(cell: &GridCell) -> Scenario {
    let a = Seg {
        resp: Resp::Answers,
        quant: Quant::NTimes(cell.bound),
    };
    let chain = match cell.quant {
        "exactly" => vec![a],
        "at_least" => vec![Seg {
            resp: Resp::Answers,
            quant: Quant::AtLeast(cell.bound),
        }],
        "then_open" => vec![
            a,
            Seg {
                resp: Resp::AnswersArc,
                quant: Quant::None,
            },
        ],
        _ => vec![
            a,
            Seg {
                resp: Resp::AnswersArc,
                quant: Quant::AtLeast(1),
            },
        ],
    };
    let pat = PatternSpec {
        id: 7,
        mask: 0xff,
        matcher: MatcherKind::FuncDebug,
        chain,
    };
    // a second, always satisfied method so that "no line for satisfied ones" is exercised
    let other = ClauseSpec::Single {
        method: 1,
        entry: Entry::Each,
        pat: PatternSpec {
            id: 9,
            mask: 0xff,
            matcher: MatcherKind::FuncDebug,
            chain: vec![Seg {
                resp: Resp::Answers,
                quant: Quant::AtLeast(1),
            }],
        },
    };
    let clause = match cell.entry {
        "each" => ClauseSpec::Single {
            method: 0,
            entry: Entry::Each,
            pat,
        },
        "some" => ClauseSpec::Single {
            method: 0,
            entry: Entry::Some,
            pat,
        },
        "next" => ClauseSpec::Single {
            method: 0,
            entry: Entry::Next,
            pat,
        },
        _ => ClauseSpec::Stub {
            method: 0,
            pats: vec![pat],
        },
    };
    let mut history = vec![Call {
        method: 1,
        arg: 3,
        via: 0,
        unwinding: false,
    }];
    for k in 0..cell.count {
        history.push(Call {
            method: 0,
            arg: k % ARGS,
            via: k % 2,
            unwinding: false,
        });
    }
    Scenario {
        partial: cell.partial,
        clauses: vec![other, clause],
        clones: 1,
        history,
        verify: cell.verify,
    }
}

pub const RULE: &str = "steered = generated clause sets (unordered and ordered, chains of 1-3 segments) with a synthesised panic-free history in which every pattern is matched a target number of times drawn from {bound-1, bound, bound+1, 0, random}, ordered sequences cut at {end, end-1, 0, random}; verification through drop, verify(), report(), no_verify_in_drop()+verify() and no_verify_in_drop()+report(); non-trivial = >= 2 patterns and >= 1 pattern with count in {bound-1, bound, bound+1}; distinct = distinct scenario. grid = exhaustive enumeration of entry form x quantifier kind x bound 0..3 x count {b-1,b,b+1,0} x verification route x strict/partial on a one-pattern mock next to an always-satisfied second method. racing-* = every schedule of 2-3 threads x 1-2 calls (sampled up to 4x3) on one pattern quantified n_times(N) / n_times(N+1) for N calls through clones or a shared &Unimock: verification after join must be silent / name exactly that pattern (C10's scheduler)";

pub fn run(ctx: &Ctx) -> Verdict {
    let mut v = Verdict::new("exploration", RULE);
    v.explanation = "Model verdict vs real verdict in both directions, and the set of violated expectations named by the failure text vs the model's set (multiset of pattern / method identities; wording and numbers are not compared).".into();
    v.assumptions = vec![
        "each clause is wrapped in the DynClause hook (its builder type is only known at run time); the clause list itself is a production tuple of that arity".into(),
        "report() is judged by its ExitCode only (its text goes to stderr)".into(),
        "build variant: std".into(),
    ];
    v.subs.push(super::replay_corpus(ctx));
    let n = ctx.tier.pick(250_000, 6_000_000);
    let strat = (
        gen::scenario(cfg()),
        vec(any::<u8>(), 48),
        vec(any::<u8>(), 96),
    )
        .prop_map(|(s, t, o)| steer(s, &t, &o));
    v.subs.push(vcore::run_proptest(ctx, "steered", n, strat, check));
    // long clause lists (real tuples of up to 16 clauses): an expectation is lost if its clause is
    let mut cw = cfg();
    cw.max_clauses = 16;
    cw.max_stub_pats = 2;
    cw.methods = vec![0, 1, 2, 4];
    let wide = (gen::scenario(cw), vec(any::<u8>(), 64), vec(any::<u8>(), 128)).prop_map(|(s, t, o)| steer(s, &t, &o));
    v.subs.push(vcore::run_proptest(ctx, "wide-clause-lists", n / 4, wide, |scn| {
        check(scn).map(|i| {
            let k = scn.clauses.len();
            i.class_if(k >= 9, "clause-tuple-arity>=9").class_if(k >= 13, "clause-tuple-arity>=13")
        })
    }));
    v.subs.push(vcore::run_enumerated(ctx, "boundary-grid", grid(), |cell| {
        check(&grid_scenario(cell)).map(|i| CaseInfo::new(true).class_if(!i.classes.is_empty(), i.classes[0]))
    }));
    // counts under every interleaving: N racing calls on one pattern quantified n_times(N) (must verify silently)
    // and n_times(N+1) (exactly that pattern's line): C10's scheduler, only the count can go wrong
    #[cfg(feature = "std")]
    for mut s in super::c10::run_kinds(ctx, &[(2, 1), (2, 2), (3, 1)], &[super::c10::Kind::ExactCount]) {
        let renamed = format!("racing-{}", s.name);
        s.rename(renamed);
        v.subs.push(s);
    }
    v.subs.extend(super::variant_reports(ctx, &["nostd-spin", "nostd-nomutex"]));
    v
}

pub fn replay(sub: &str, case: Value) -> Result<(), String> {
    #[cfg(any(feature = "std", feature = "nostd-spin"))]
    if sub.starts_with("racing") {
        return super::c10::replay(sub, case);
    }
    if sub == "boundary-grid" {
        // grid cells are regenerated: find the cell with the same JSON
        for cell in grid() {
            if serde_json::to_value(&cell).unwrap() == case {
                return check(&grid_scenario(&cell)).map(|_| ());
            }
        }
        return Err("HARNESS: grid cell not found".into());
    }
    let scn: Scenario = serde_json::from_value(case).map_err(|e| format!("HARNESS: bad case: {e}"))?;
    check(&scn).map(|_| ())
}
