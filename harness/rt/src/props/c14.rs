//! C14 — clause composition preserves order and rejects inconsistent setups up front.

use proptest::collection::vec;
use proptest::prelude::*;
use serde::{Deserialize, Serialize};
use serde_json::Value;
use unimock::verif::DynClause;
use unimock::Unimock;
use vcore::panics::catch;
use vcore::{CaseInfo, Ctx, Verdict};

use crate::build::push_clause;
use crate::exec::{compare_run, verify_original, CompareOpts, Obs, RealRun};
use crate::gen::{self, Cfg};
use crate::model::{ConstructError, Model};
use crate::spec::*;
use crate::traits::{self, FACTS};

/// Shape of the clause tuple: leaves take the scenario's clauses in order (left to right).
#[derive(Clone, Debug, PartialEq, Eq, Hash, Serialize, Deserialize)]
pub enum Tree {
    Leaf,
    /// a real tuple of this arity (0 = `()`, 2..=16); arity 1 is written as the bare clause
    Node(Vec<Tree>),
}

impl Tree {
    pub fn leaves(&self) -> usize {
        match self {
            Tree::Leaf => 1,
            Tree::Node(c) => c.iter().map(|t| t.leaves()).sum(),
        }
    }
    pub fn depth(&self) -> usize {
        match self {
            Tree::Leaf => 0,
            Tree::Node(c) => 1 + c.iter().map(|t| t.depth()).max().unwrap_or(0),
        }
    }
    pub fn max_arity(&self) -> usize {
        match self {
            Tree::Leaf => 0,
            Tree::Node(c) => c.len().max(c.iter().map(|t| t.max_arity()).max().unwrap_or(0)),
        }
    }
}

/// Build the clause for a tree node: children are wrapped in DynClause (a clause of unknown
/// size), the node itself is a REAL tuple of the node's arity, so the tuple impl under test runs.
pub fn build_tree(tree: &Tree, clauses: &[ClauseSpec], next: &mut usize) -> DynClause {
    match tree {
        Tree::Leaf => {
            let mut dc = DynClause::new();
            if let Some(c) = clauses.get(*next) {
                push_clause(&mut dc, c);
            }
            *next += 1;
            dc
        }
        Tree::Node(children) => {
            let v: Vec<DynClause> = children.iter().map(|c| build_tree(c, clauses, next)).collect();
            crate::build::real_tuple(v)
        }
    }
}

#[derive(Clone, Debug, PartialEq, Eq, Hash, Serialize, Deserialize)]
pub struct TreeCase {
    pub scn: Scenario,
    pub tree: Tree,
    /// the mock is constructed by a destructor that runs while the thread unwinds from a (caught) user panic, e.g.
    /// a fixture's cleanup: an inconsistent setup must be rejected there as well
    #[serde(default)]
    pub construct_while_unwinding: bool,
}

/// Distinct ordered leaves: leaf i is `next_call` of method (i % 3) accepting only arg (i % 8),
/// so the order in which the mock accepts calls reveals the flattening order.
pub fn ordered_leaves(n: usize, swap: Option<usize>, partial: bool) -> Scenario {
    ordered_leaves_with_zeros(n, swap, partial, 0)
}

/// As `ordered_leaves`; bit (i % 64) of `zeros` set = leaf i is quantified `n_times(0)`: it reserves no
/// position in the sequence and is never called, the leaves around it keep their order.
pub fn ordered_leaves_with_zeros(n: usize, swap: Option<usize>, partial: bool, zeros: u64) -> Scenario {
    ordered_leaves_mixed(n, swap, partial, zeros, 0)
}

/// As above; bit (i % 64) of `unordered` set = leaf i is an UNORDERED clause of another method with an exact
/// count (`some_call(..)..n_times(1)` on method 4): it takes no position of the ordered sequence, wherever it sits.
pub fn ordered_leaves_mixed(n: usize, swap: Option<usize>, partial: bool, zeros: u64, unordered: u64) -> Scenario {
    let unord = |i: usize| (unordered >> (i % 64)) & 1 == 1;
    let zero = |i: usize| !unord(i) && (zeros >> (i % 64)) & 1 == 1;
    let mut clauses = vec![];
    for i in 0..n {
        if unord(i) {
            clauses.push(ClauseSpec::Single {
                method: 4,
                entry: Entry::Some,
                pat: PatternSpec {
                    id: i as u16,
                    mask: 1 << (i % 8),
                    matcher: MatcherKind::FuncDebug,
                    chain: vec![Seg { resp: Resp::Answers, quant: Quant::NTimes(1) }],
                },
            });
            continue;
        }
        clauses.push(ClauseSpec::Single {
            method: (i % 3) as u8,
            entry: Entry::Next,
            pat: PatternSpec {
                id: i as u16,
                mask: 1 << (i % 8),
                matcher: MatcherKind::FuncDebug,
                chain: vec![Seg { resp: Resp::Answers, quant: if zero(i) { Quant::NTimes(0) } else { Quant::None } }],
            },
        });
    }
    let mut history: Vec<Call> = (0..n)
        .filter(|i| !zero(*i) && !unord(*i))
        .map(|i| Call { method: (i % 3) as u8, arg: (i % 8) as u8, via: 0, unwinding: false })
        .collect();
    if let Some(k) = swap {
        if k + 1 < history.len() {
            history.swap(k, k + 1);
            history.truncate(k + 1); // stop at the deviation
        }
    }
    // the unordered exact-count clauses are satisfied after the ordered walk (first pattern per argument answers;
    // patterns with the same accept bit would shadow each other, so each argument is called once per clause with it)
    for i in (0..n).filter(|i| unord(*i)) {
        history.push(Call { method: 4, arg: (i % 8) as u8, via: 0, unwinding: false });
    }
    Scenario { partial, clauses, clones: 0, history, verify: VerifyMode::Drop }
}

pub fn run_real_tree(case: &TreeCase) -> RealRun {
    let scn = &case.scn;
    let _ = traits::take_log();
    let mut next = 0;
    let dc = build_tree(&case.tree, &scn.clauses, &mut next);
    let partial = scn.partial;
    let construct = move || catch(move || if partial { Unimock::new_partial(dc) } else { Unimock::new(dc) });
    let constructed = if case.construct_while_unwinding {
        match crate::exec::while_unwinding(construct) {
            Ok(r) => r,
            Err(harness) => Err(harness),
        }
    } else {
        construct()
    };
    let original = match constructed {
        Ok(u) => u,
        Err(msg) => return RealRun { construct_error: Some(msg), calls: vec![], clone_drop_panics: vec![], verify: None },
    };
    let mut u = original;
    let mut calls = vec![];
    for call in &scn.history {
        let r = catch(|| traits::call(&mut u, call.method, call.arg));
        calls.push((Obs::from_result(r), traits::take_log()));
    }
    let verify = verify_original(u, scn.verify);
    RealRun { construct_error: None, calls, clone_drop_panics: vec![], verify: Some(verify) }
}

pub fn check(case: &TreeCase) -> Result<CaseInfo, String> {
    if case.tree.leaves() != case.scn.clauses.len() {
        return Err(format!("HARNESS: tree has {} leaves for {} clauses", case.tree.leaves(), case.scn.clauses.len()));
    }
    let model_err = Model::new(case.scn.partial, &case.scn.clauses, &FACTS).err();
    let real = run_real_tree(case);
    let construct_msg = real.construct_error.clone();
    let r = compare_run(&case.scn, real, CompareOpts::default()).map_err(|e| {
        format!("{e} [clause tuple shape: arity<= {}, depth {}]", case.tree.max_arity(), case.tree.depth())
    })?;
    let mut info = CaseInfo::new(case.tree.max_arity() >= 6 || case.tree.depth() >= 2)
        .class_if(case.tree.max_arity() >= 12, "arity>=12")
        .class_if(case.tree.depth() >= 3, "depth>=3")
        .class_if(case.construct_while_unwinding, "constructed-by-a-destructor-during-unwinding");
    match (r, model_err) {
        (None, Some(err)) => {
            // inconsistent setup: construction must have panicked (compare_run checked that);
            // the text names the problem
            let msg = construct_msg.unwrap_or_default();
            // the property demands an immediate failure; its wording is not compared
            if msg.is_empty() {
                return Err(format!("construction of an inconsistent setup ({err:?}) panicked without any message"));
            }
            info = info.class(match err {
                ConstructError::ModeConflict { .. } => "rejected-up-front:mode-conflict",
                ConstructError::EmptyStub { .. } => "rejected-up-front:empty-stub",
                ConstructError::NoMutexApi { .. } => "rejected-up-front:return-not-producible(no mutex api)",
            });
            info.nontrivial = true;
        }
        (Some(_), None) => {
            info = info.class("consistent-setup");
        }
        _ => return Err("HARNESS: inconsistent comparison state".into()),
    }
    Ok(info)
}

pub fn tree_strategy(leaves: usize) -> BoxedStrategy<Tree> {
    // random partition of `leaves` leaves into a tree with arities 0, 2..=16
    (vec(any::<u8>(), 64)).prop_map(move |bytes| {
        let mut it = bytes.into_iter();
        fn build(n: usize, depth: usize, it: &mut dyn Iterator<Item = u8>) -> Tree {
            if n == 1 {
                let b = it.next().unwrap_or(0);
                // occasionally wrap a single clause in a node with unit clauses around it
                if depth < 3 && b % 7 == 0 {
                    let mut children = vec![Tree::Node(vec![]), Tree::Leaf];
                    if b % 2 == 0 {
                        children.reverse();
                    }
                    return Tree::Node(children);
                }
                return Tree::Leaf;
            }
            let b = it.next().unwrap_or(0) as usize;
            if depth >= 4 && n <= 16 {
                return Tree::Node((0..n).map(|_| Tree::Leaf).collect());
            }
            // number of children: 2..=min(16, n)
            let max_children = n.min(16);
            let k = 2 + b % (max_children - 1);
            // split n leaves into k non-empty parts
            let mut parts = vec![1usize; k];
            let mut rest = n - k;
            let mut j = 0;
            while rest > 0 {
                let take = 1 + (it.next().unwrap_or(1) as usize % rest.max(1)).min(rest - 1);
                let take = take.min(rest);
                parts[j % k] += take;
                rest -= take;
                j += 1 + it.next().unwrap_or(0) as usize % k;
            }
            Tree::Node(parts.into_iter().map(|p| build(p, depth + 1, it)).collect())
        }
        if leaves == 0 {
            Tree::Node(vec![])
        } else {
            build(leaves, 0, &mut it)
        }
    })
    .boxed()
}

fn order_case() -> impl Strategy<Value = TreeCase> {
    (
        1..=40usize,
        any::<bool>(),
        proptest::option::weighted(0.4, 0..40usize),
        // zero-count leaves: none, sparse, or arbitrary
        prop_oneof![2 => Just(0u64), 1 => (any::<u64>(), any::<u64>()).prop_map(|(a, b)| a & b), 1 => any::<u64>()],
        // unordered exact-count clauses of another method between the ordered leaves: none or sparse
        prop_oneof![2 => Just(0u64), 2 => (any::<u64>(), any::<u64>(), any::<u64>()).prop_map(|(a, b, c)| a & b & c)],
    )
        .prop_flat_map(|(n, partial, swap, zeros, unordered)| {
            // a transposed call only makes sense in the purely ordered walk
            let unordered = if swap.is_some() { 0 } else { unordered };
            let swap = swap.map(|k| k % n.max(1));
            (tree_strategy(n), proptest::bool::weighted(0.25)).prop_map(move |(tree, construct_while_unwinding)| TreeCase { scn: ordered_leaves_mixed(n, swap, partial, zeros, unordered), tree, construct_while_unwinding })
        })
}

/// consistent setups (stubs may contain response-less `each.call(m);` patterns in front of further patterns)
/// spread over a random tuple tree: nothing may be dropped or reordered on the way into the mock
pub fn consistent_cfg() -> Cfg {
    let mut cfg = offender_cfg();
    cfg.allow_empty_stub_chain = true;
    cfg.max_stub_pats = 4;
    cfg.max_history = 10;
    cfg.prefer_match = 200;
    cfg
}

fn consistent_case() -> impl Strategy<Value = TreeCase> {
    gen::scenario(consistent_cfg()).prop_flat_map(|mut scn| {
        // the tree runner makes every call through the original: say so in the scenario (the comparison derives
        // "a mock-induced panic through the original disables its verification without std" from `via`)
        scn.clones = 0;
        for c in scn.history.iter_mut() {
            c.via = 0;
        }
        let n = scn.clauses.len();
        (tree_strategy(n), proptest::bool::weighted(0.25)).prop_map(move |(tree, construct_while_unwinding)| TreeCase { scn: scn.clone(), tree, construct_while_unwinding })
    })
}

pub fn offender_cfg() -> Cfg {
    let mut cfg = Cfg::base();
    cfg.methods = vec![0, 1, 2, 4, 6];
    cfg.p_unordered = 110;
    cfg.p_ordered = 90;
    cfg.resps = vec![Resp::Answers, Resp::Returns, Resp::AnswersArc];
    cfg.max_clauses = 9;
    cfg.max_stub_pats = 2;
    cfg.max_chain = 2;
    cfg.max_history = 6;
    cfg.guide = 200;
    cfg.prefer_match = 40;
    cfg
}

/// A consistent generated scenario with one offending clause injected at a generated position.
fn offender_case() -> impl Strategy<Value = TreeCase> {
    (gen::scenario(offender_cfg()), any::<u8>(), any::<u8>(), any::<u8>()).prop_flat_map(|(mut scn, pos, kind, msel)| {
        let mentioned: Vec<(u8, bool)> = {
            let mut v: Vec<(u8, bool)> = scn.clauses.iter().map(|c| (c.method(), c.ordered())).collect();
            v.sort();
            v.dedup();
            v
        };
        let at = if scn.clauses.is_empty() { 0 } else { pos as usize % (scn.clauses.len() + 1) };
        let offender = if kind % 3 == 0 || mentioned.is_empty() {
            // a stub that declares no pattern
            ClauseSpec::Stub { method: [0u8, 1, 2, 4, 6][msel as usize % 5], pats: vec![] }
        } else {
            // the opposite mode for a method that is already mentioned
            let (m, ordered) = mentioned[msel as usize % mentioned.len()];
            ClauseSpec::Single {
                method: m,
                entry: if ordered { Entry::Each } else { Entry::Next },
                // (an offending ORDERED clause may also be quantified n_times(0): it is still a mention in the other mode)
                pat: PatternSpec {
                    id: 400,
                    mask: 0xff,
                    matcher: MatcherKind::FuncDebug,
                    chain: vec![Seg { resp: Resp::Answers, quant: if !ordered && kind % 2 == 1 { Quant::NTimes(0) } else { Quant::None } }],
                },
            }
        };
        scn.clauses.insert(at, offender);
        let n = scn.clauses.len();
        (tree_strategy(n), proptest::bool::weighted(0.4)).prop_map(move |(tree, construct_while_unwinding)| TreeCase { scn: scn.clone(), tree, construct_while_unwinding })
    })
}

/// every arity 0, 2..=16 as a flat tuple, and as the inner node of a two-level tree
pub fn arity_sweep() -> Vec<TreeCase> {
    let mut v = vec![];
    for partial in [false, true] {
        v.push(TreeCase { scn: ordered_leaves(0, None, partial), tree: Tree::Node(vec![]), construct_while_unwinding: false });
        for arity in 2..=16usize {
            v.push(TreeCase { scn: ordered_leaves(arity, None, partial), tree: Tree::Node(vec![Tree::Leaf; arity]), construct_while_unwinding: false });
            // every adjacent transposition of the call order must be refused
            for k in 0..arity - 1 {
                v.push(TreeCase { scn: ordered_leaves(arity, Some(k), partial), tree: Tree::Node(vec![Tree::Leaf; arity]), construct_while_unwinding: false });
            }
            // a zero-count leaf at every position (it reserves nothing; its neighbours keep their order)
            for z in 0..arity {
                v.push(TreeCase { scn: ordered_leaves_with_zeros(arity, None, partial, 1 << z), tree: Tree::Node(vec![Tree::Leaf; arity]), construct_while_unwinding: false });
            }
            // nested: (leaf, (arity leaves), leaf)
            v.push(TreeCase {
                scn: ordered_leaves(arity + 2, None, partial),
                tree: Tree::Node(vec![Tree::Leaf, Tree::Node(vec![Tree::Leaf; arity]), Tree::Leaf]),
                construct_while_unwinding: arity % 2 == 1,
            });
        }
    }
    v
}

pub const RULE: &str = "arity-sweep = every tuple arity 0, 2..16 as a flat tuple of distinct ordered leaf clauses (accepted only in declaration order) with the in-order history, every adjacent transposition of it, one n_times(0) leaf at every position, and the same tuple nested between two further leaves, strict and partial: enumerated exhaustively. trees = random tuple trees (arity 0, 2..16, depth <= 4, up to 40 leaves) over the same leaves, with and without a transposed call, with and without n_times(0) leaves, with and without unordered exact-count clauses of another method between the ordered leaves. offenders = generated consistent setups (C01-C04 style) with one offending clause (the opposite mode for an already mentioned method, or an empty stub) injected at a generated position of a random tree; a share of all mocks is constructed by a destructor that runs during the unwinding of a caught user panic. consistent-setups-on-trees = generated consistent C01-C04 style setups (stubs with up to 4 patterns, response-less `each.call(m);` patterns allowed in front of further ones) spread over a random tree, histories of up to 10 calls compared with the reference model. compile-fail = builder chains about ordering/exactness that must not type-check (program-generation engine). Non-trivial = arity >= 6 or depth >= 2, or an offending clause; distinct = distinct case";

pub fn run(ctx: &Ctx) -> Verdict {
    let mut v = Verdict::new("exploration", RULE);
    v.explanation = "Leaves are distinct ordered clauses, so the order in which the real mock accepts calls is the flattening order: the in-order history must be accepted leaf by leaf (nothing dropped, duplicated, reordered) and verify silently, any transposition must be refused. Inner nodes are REAL tuples of the arity under test (children wrapped in the DynClause hook). An inconsistent setup must panic inside Unimock::new / new_partial, never later.".into();
    v.assumptions = vec![
        "DynClause wraps sub-trees; the tuple impl of every node arity is the production impl".into(),
        "'a configured return cannot be produced in the current feature set' needs a no-mutex build and is not exercised in the std variant".into(),
    ];
    v.subs.push(super::replay_corpus(ctx));
    v.subs.push(vcore::run_enumerated(ctx, "arity-sweep", arity_sweep(), |c| check(c).map(|i| CaseInfo { nontrivial: true, classes: i.classes })));
    let n = ctx.tier.pick(40_000, 1_000_000);
    v.subs.push(vcore::run_proptest(ctx, "trees", n, order_case(), check));
    v.subs.push(vcore::run_proptest(ctx, "offenders", n, offender_case(), check));
    v.subs.push(vcore::run_proptest(ctx, "consistent-setups-on-trees", n, consistent_case(), check));
    v.subs.push(vcore::sub_report_from("progen", &["--sub-json", "C14", ctx.tier.name()], "compile-fail"));
    v.subs.extend(super::variant_reports(ctx, &["nostd-spin", "nostd-nomutex"]));
    v
}

pub fn replay(_sub: &str, case: Value) -> Result<(), String> {
    let c: TreeCase = serde_json::from_value(case).map_err(|e| format!("HARNESS: bad case: {e}"))?;
    check(&c).map(|_| ())
}
