//! C13 — references lent by the mock stay valid, distinct and unmodified while borrowed.

use std::sync::{Arc, Mutex};

use proptest::collection::vec;
use proptest::prelude::*;
use serde::{Deserialize, Serialize};
use serde_json::Value;
use unimock::*;
use vcore::panics::catch;
use vcore::worker::{Reply, Worker};
use vcore::{CaseInfo, Ctx, Verdict};

/// Drop registry: drops[id] = number of times value `id` was dropped.
#[derive(Default)]
pub struct Registry {
    drops: Mutex<Vec<u32>>,
}

impl Registry {
    fn fresh_id(&self) -> u32 {
        let mut d = self.drops.lock().unwrap();
        d.push(0);
        (d.len() - 1) as u32
    }
    fn dropped(&self, id: u32) -> u32 {
        self.drops.lock().unwrap()[id as usize]
    }
    fn len(&self) -> usize {
        self.drops.lock().unwrap().len()
    }
}

pub struct Tracked {
    pub id: u32,
    pub payload: String,
    reg: Arc<Registry>,
}

impl Tracked {
    fn new(reg: &Arc<Registry>, salt: u32) -> Tracked {
        let id = reg.fresh_id();
        Tracked { id, payload: format!("payload-{id}-{salt}"), reg: reg.clone() }
    }
}

impl Drop for Tracked {
    fn drop(&mut self) {
        self.reg.drops.lock().unwrap()[self.id as usize] += 1;
    }
}

/// Zero-sized lent value with a destructor (drop guard / marker type): counted globally, the
/// worker executes one case at a time.
pub static ZST_MADE: std::sync::atomic::AtomicUsize = std::sync::atomic::AtomicUsize::new(0);
pub static ZST_DROPPED: std::sync::atomic::AtomicUsize = std::sync::atomic::AtomicUsize::new(0);
pub struct ZstGuard;
impl ZstGuard {
    fn new() -> ZstGuard {
        ZST_MADE.fetch_add(1, std::sync::atomic::Ordering::SeqCst);
        ZstGuard
    }
}
impl Drop for ZstGuard {
    fn drop(&mut self) {
        ZST_DROPPED.fetch_add(1, std::sync::atomic::Ordering::SeqCst);
    }
}

/// A second tracked type (different TypeId, same layout) so that neighbouring chain
/// nodes of different types are exercised as well as neighbours of the same type.
pub struct Tracked2(pub Tracked);

#[unimock(api=LendMock)]
pub trait Lend {
    fn lend(&self, x: u8) -> &Tracked;
    fn lend_default(&self, x: u8) -> &Tracked {
        self.lend(x)
    }
    fn lend_mut(&mut self, x: u8) -> &mut Tracked;
    /// provided `&mut self` method that lends nothing (runs on the delegation helper)
    fn poke_default(&mut self, x: u8) -> u32 {
        x as u32 + 1
    }
    /// provided `&mut self` method whose default body calls `lend_mut` on the delegation helper
    fn lend_mut_default(&mut self, x: u8) -> &mut Tracked {
        self.lend_mut(x)
    }
    /// provided pinned-receiver method that lends nothing
    fn poke_pin_default(self: std::pin::Pin<&mut Self>, x: u8) -> u32 {
        x as u32 + 2
    }
}

/// by-value receivers: the instance itself travels through the delegation machinery
#[unimock(api=EndMock)]
pub trait End: Sized {
    fn end_req(self, x: u8) -> u32;
    fn end_default(self, x: u8) -> u32 {
        self.end_req(x) + 1
    }
}

/// registry of the running case and the drop counts seen by the answer of `end_req` (i.e. while the instance
/// is alive inside the by-value provided method)
static END_REG: Mutex<Option<Arc<Registry>>> = Mutex::new(None);
static END_SNAPSHOT: Mutex<Option<Vec<u32>>> = Mutex::new(None);

#[derive(Clone, Copy, Debug, PartialEq, Eq, Hash, Serialize, Deserialize)]
pub enum RefOp {
    /// make_ref of a Tracked / Tracked2 / u32 / String on instance .0
    MakeTracked(u8),
    MakeTracked2(u8),
    MakeU32(u8),
    MakeString(u8),
    /// `lend(x)` answered by an answer function that calls make_ref (args 0..4)
    LendAnswered(u8),
    /// `lend(x)` answered by a value configured with returns() (args 4..8)
    LendReturned(u8, u8),
    /// provided method whose default body calls `lend` on the delegation helper
    LendViaHelper(u8),
    /// a burst of `n * 64` make_ref calls of the same type on instance .0
    Burst(u8, u8),
    /// instance .0 lends a value that owns a clone of that instance (`u.make_ref(u.clone())`)
    LendClone(u8),
    /// instance .0 lends a zero-sized value that has a destructor
    MakeZst(u8),
}

#[derive(Clone, Copy, Debug, PartialEq, Eq, Hash, Serialize, Deserialize)]
pub enum PhaseEnd {
    Nothing,
    /// make_mut on instance .0, mutate through the reference
    MakeMut(u8),
    /// `lend_mut` answered with make_mut
    LendMut(u8),
    /// provided `&mut self` method that lends nothing: exclusive access alone releases nothing
    PokeDefault(u8),
    /// provided `&mut self` method whose default body calls `lend_mut` (make_mut on the helper)
    LendMutDefault(u8),
    /// provided `self: Pin<&mut Self>` method that lends nothing: releases nothing either
    PokePinDefault(u8),
}

#[derive(Clone, Debug, PartialEq, Eq, Hash, Serialize, Deserialize)]
pub struct Phase {
    pub ops: Vec<RefOp>,
    pub end: PhaseEnd,
}

#[derive(Clone, Debug, PartialEq, Eq, Hash, Serialize, Deserialize)]
pub struct ChainCase {
    pub clones: u8,
    pub phases: Vec<Phase>,
    /// threads sharing the original through `&Unimock` after the phases (0 = none)
    pub threads: u8,
    pub per_thread: u16,
    /// stack size (KiB) of the thread that drops everything: a recursive drop of a long chain overflows it
    pub small_stack: bool,
    /// keep verification-at-drop enabled for the original (its verdict is irrelevant here)
    pub verify: bool,
    /// how the original ends its life (unless by unwinding): 0 = dropped, 1 = explicit `verify()`, 2 = `report()`
    #[serde(default)]
    pub finish: u8,
    /// the instances end their lives while their thread is unwinding from a user panic (dropped by the unwinding)
    #[serde(default)]
    pub teardown_by_unwinding: bool,
}

enum Lent<'a> {
    T(&'a Tracked),
    T2(&'a Tracked2),
    U(&'a u32, u32),
    S(&'a String, String),
}

struct Shadow<'a> {
    lent: Lent<'a>,
    id: Option<u32>,
    payload: Option<String>,
    addr: usize,
    /// each make_ref creates a new value: addresses must be pairwise distinct
    unique: bool,
    owner: usize,
}

fn read_back(s: &Shadow<'_>) -> Result<(), String> {
    match &s.lent {
        Lent::T(t) => {
            if Some(t.id) != s.id || Some(&t.payload) != s.payload.as_ref() {
                return Err(format!("a lent &Tracked now reads id {} payload {:?}, expected {:?} {:?}", t.id, t.payload, s.id, s.payload));
            }
            if (*t as *const Tracked as usize) != s.addr {
                return Err("HARNESS: address of a held reference changed".into());
            }
        }
        Lent::T2(t) => {
            if Some(t.0.id) != s.id || Some(&t.0.payload) != s.payload.as_ref() {
                return Err(format!("a lent &Tracked2 now reads id {} payload {:?}, expected {:?} {:?}", t.0.id, t.0.payload, s.id, s.payload));
            }
        }
        Lent::U(u, v) => {
            if **u != *v {
                return Err(format!("a lent &u32 now reads {}, expected {v}", **u));
            }
        }
        Lent::S(x, v) => {
            if *x != v {
                return Err(format!("a lent &String now reads {x:?}, expected {v:?}"));
            }
        }
    }
    Ok(())
}

struct Book {
    reg: Arc<Registry>,
    /// ids owned by the value chain of instance i (or of its helper) and not yet releasable
    owned: Vec<Vec<u32>>,
    /// ids lent through the delegation helper of instance i: owned by the helper, so only a make_mut ON THE
    /// HELPER (a provided &mut-self method whose body lends mutably) may release them
    owned_helper: Vec<Vec<u32>>,
    /// ids that a make_mut was allowed to release
    releasable: Vec<u32>,
    /// ids of values configured with returns(): live as long as the shared state
    shared: Vec<u32>,
    /// zero-sized guards lent per instance and not yet releasable / how many may have been dropped by now
    zst_owned: Vec<usize>,
    zst_releasable: usize,
}

impl Book {
    fn check_no_early_drop(&self) -> Result<(), String> {
        for (i, ids) in self.owned.iter().enumerate() {
            for id in ids {
                if self.reg.dropped(*id) != 0 {
                    return Err(format!("value {id} lent by instance {i} was dropped while the instance is alive"));
                }
            }
        }
        for (i, ids) in self.owned_helper.iter().enumerate() {
            for id in ids {
                if self.reg.dropped(*id) != 0 {
                    return Err(format!("value {id} lent through the delegation helper of instance {i} was dropped while the instance is alive and the helper lent nothing mutably since"));
                }
            }
        }
        for id in &self.shared {
            if self.reg.dropped(*id) != 0 {
                return Err(format!("value {id} configured with returns() was dropped while the mock is alive"));
            }
        }
        let zd = ZST_DROPPED.load(std::sync::atomic::Ordering::SeqCst);
        if zd > self.zst_releasable {
            return Err(format!("{} zero-sized lent values were dropped while at most {} could have been released", zd, self.zst_releasable));
        }
        for id in &self.releasable {
            if self.reg.dropped(*id) > 1 {
                return Err(format!("value {id} was dropped {} times", self.reg.dropped(*id)));
            }
        }
        Ok(())
    }
}

fn run_phase<'a>(
    insts: &'a [Unimock],
    phase: &Phase,
    book: &mut Book,
    salt: &mut u32,
    stats: &mut Stats,
) -> Result<(), String> {
    let mut held: Vec<Shadow<'a>> = vec![];
    let n = insts.len();
    for op in &phase.ops {
        *salt += 1;
        let mut push_tracked = |held: &mut Vec<Shadow<'a>>, t: &'a Tracked, owner: usize, unique: bool| {
            held.push(Shadow {
                id: Some(t.id),
                payload: Some(t.payload.clone()),
                addr: t as *const Tracked as usize,
                lent: Lent::T(t),
                unique,
                owner,
            });
        };
        match *op {
            RefOp::MakeTracked(i) => {
                let i = i as usize % n;
                let t: &'a Tracked = insts[i].make_ref(Tracked::new(&book.reg, *salt));
                book.owned[i].push(t.id);
                push_tracked(&mut held, t, i, true);
            }
            RefOp::MakeTracked2(i) => {
                let i = i as usize % n;
                let t: &'a Tracked2 = insts[i].make_ref(Tracked2(Tracked::new(&book.reg, *salt)));
                book.owned[i].push(t.0.id);
                held.push(Shadow {
                    id: Some(t.0.id),
                    payload: Some(t.0.payload.clone()),
                    addr: t as *const Tracked2 as usize,
                    lent: Lent::T2(t),
                    unique: true,
                    owner: i,
                });
            }
            RefOp::MakeU32(i) => {
                let i = i as usize % n;
                let v = 0xabc0_0000 + *salt;
                let r: &'a u32 = insts[i].make_ref(v);
                held.push(Shadow { id: None, payload: None, addr: r as *const u32 as usize, lent: Lent::U(r, v), unique: true, owner: i });
            }
            RefOp::MakeString(i) => {
                let i = i as usize % n;
                let v = format!("string-{salt}");
                let r: &'a String = insts[i].make_ref(v.clone());
                held.push(Shadow { id: None, payload: None, addr: r as *const String as usize, lent: Lent::S(r, v), unique: true, owner: i });
            }
            RefOp::LendAnswered(i) => {
                let i = i as usize % n;
                let t: &'a Tracked = insts[i].lend((*salt % 4) as u8);
                book.owned[i].push(t.id);
                push_tracked(&mut held, t, i, true);
            }
            RefOp::LendReturned(i, x) => {
                let i = i as usize % n;
                let t: &'a Tracked = insts[i].lend(4 + x % 4);
                push_tracked(&mut held, t, i, false);
                stats.returned += 1;
            }
            RefOp::LendViaHelper(i) => {
                let i = i as usize % n;
                let t: &'a Tracked = insts[i].lend_default((*salt % 4) as u8);
                book.owned_helper[i].push(t.id);
                push_tracked(&mut held, t, i, true);
                stats.via_helper += 1;
            }
            RefOp::LendClone(i) => {
                let i = i as usize % n;
                let holder = Tracked2(Tracked::new(&book.reg, *salt));
                book.owned[i].push(holder.0.id);
                let lent: &'a (Unimock, Tracked2) = insts[i].make_ref((insts[i].clone(), holder));
                held.push(Shadow {
                    id: Some(lent.1 .0.id),
                    payload: Some(lent.1 .0.payload.clone()),
                    addr: &lent.1 as *const Tracked2 as usize,
                    lent: Lent::T2(&lent.1),
                    unique: true,
                    owner: i,
                });
                stats.lent_clone += 1;
            }
            RefOp::MakeZst(i) => {
                let i = i as usize % n;
                let r: &'a ZstGuard = insts[i].make_ref(ZstGuard::new());
                let _ = r;
                book.zst_owned[i] += 1;
                stats.zst += 1;
            }
            RefOp::Burst(i, k) => {
                let i = i as usize % n;
                for _ in 0..(k as usize % 4 + 1) * 64 {
                    *salt += 1;
                    let t: &'a Tracked = insts[i].make_ref(Tracked::new(&book.reg, *salt));
                    book.owned[i].push(t.id);
                    push_tracked(&mut held, t, i, true);
                }
            }
        }
        // every reference obtained so far still reads its own value
        for s in &held {
            read_back(s)?;
        }
        book.check_no_early_drop()?;
        stats.max_held = stats.max_held.max(held.len());
    }
    // pairwise distinct addresses among values created by make_ref
    let mut addrs: Vec<usize> = held.iter().filter(|s| s.unique).map(|s| s.addr).collect();
    let total = addrs.len();
    addrs.sort();
    addrs.dedup();
    if addrs.len() != total {
        return Err(format!("{} make_ref values share an address with another one", total - addrs.len()));
    }
    let same_type_neighbours = held.windows(3).any(|w| {
        w.iter().all(|s| matches!(s.lent, Lent::T(_)) && s.unique) && w[0].owner == w[1].owner && w[1].owner == w[2].owner
    });
    if same_type_neighbours && phase.ops.len() >= 4 {
        stats.same_type_reread = true;
    }
    Ok(())
}

#[derive(Default)]
struct Stats {
    max_held: usize,
    returned: usize,
    via_helper: usize,
    same_type_reread: bool,
    make_mut: usize,
    mut_default: usize,
    lent_clone: usize,
    zst: usize,
    threads: usize,
}

fn ref_answer<F>(f: F) -> Arc<dyn for<'u> Fn(&'u Unimock, u8) -> &'u Tracked + Send + Sync>
where
    F: for<'u> Fn(&'u Unimock, u8) -> &'u Tracked + Send + Sync + 'static,
{
    Arc::new(f)
}

fn mut_answer<F>(f: F) -> Arc<dyn for<'u> Fn(&'u mut Unimock, u8) -> &'u mut Tracked + Send + Sync>
where
    F: for<'u> Fn(&'u mut Unimock, u8) -> &'u mut Tracked + Send + Sync + 'static,
{
    Arc::new(f)
}

fn setup(reg: &Arc<Registry>) -> (impl Clause, Vec<u32>) {
    let mut shared = vec![];
    // args 0..4: answer functions that lend a fresh value through make_ref
    let reg2 = reg.clone();
    let answered = LendMock::lend
        .each_call(&|m| m.func(|x: &u8, _| *x < 4))
        .answers_arc(ref_answer(move |u: &Unimock, x: u8| u.make_ref(Tracked::new(&reg2, 9000 + x as u32))));
    // args 4..8: values configured with returns()
    let mut returned = vec![];
    for x in 4..8u8 {
        let t = Tracked::new(reg, 7000 + x as u32);
        shared.push(t.id);
        returned.push(LendMock::lend.each_call(&move |m| m.func(move |a: &u8, _| *a == x)).returns(t));
    }
    let r3 = returned.pop().unwrap();
    let r2 = returned.pop().unwrap();
    let r1 = returned.pop().unwrap();
    let r0 = returned.pop().unwrap();
    let reg3 = reg.clone();
    let lend_mut = LendMock::lend_mut
        .each_call(&|m| m.func(|_, _| true))
        .answers_arc(mut_answer(move |u: &mut Unimock, x: u8| u.make_mut(Tracked::new(&reg3, 8000 + x as u32))));
    let end = EndMock::end_req.each_call(&|m| m.func(|_, _| true)).answers(&|_, x| {
        if let Some(reg) = END_REG.lock().unwrap().as_ref() {
            let n = reg.len();
            *END_SNAPSHOT.lock().unwrap() = Some((0..n as u32).map(|id| reg.dropped(id)).collect());
        }
        x as u32
    });
    (((answered, r0, r1, r2, r3, lend_mut), end), shared)
}

#[derive(Serialize, Deserialize, Debug)]
pub struct WorkerReply {
    pub ok: bool,
    pub reason: String,
    pub nontrivial: bool,
    pub classes: Vec<String>,
}

fn execute_inner(case: &ChainCase) -> Result<(bool, Vec<String>), String> {
    let reg = Arc::new(Registry::default());
    let (clause, shared) = setup(&reg);
    let original = if case.verify { Unimock::new(clause) } else { Unimock::new(clause).no_verify_in_drop() };
    let mut insts = vec![original];
    for _ in 0..case.clones {
        let c = insts[0].clone();
        insts.push(c);
    }
    let result = execute_on(case, &mut insts, reg, shared);
    // on an early error: clones first, the original last, verification panics are irrelevant here
    while let Some(u) = insts.pop() {
        let _ = catch(move || drop(u));
    }
    result
}

fn execute_on(
    case: &ChainCase,
    insts: &mut Vec<Unimock>,
    reg: Arc<Registry>,
    shared: Vec<u32>,
) -> Result<(bool, Vec<String>), String> {
    let n = insts.len();
    ZST_MADE.store(0, std::sync::atomic::Ordering::SeqCst);
    ZST_DROPPED.store(0, std::sync::atomic::Ordering::SeqCst);
    let mut book = Book { reg: reg.clone(), owned: vec![vec![]; n], owned_helper: vec![vec![]; n], releasable: vec![], shared, zst_owned: vec![0; n], zst_releasable: 0 };
    let mut salt = 0u32;
    let mut stats = Stats::default();
    for phase in &case.phases {
        run_phase(&insts[..], phase, &mut book, &mut salt, &mut stats)?;
        match phase.end {
            PhaseEnd::Nothing => {}
            PhaseEnd::PokePinDefault(i) => {
                let i = i as usize % n;
                let r = std::pin::Pin::new(&mut insts[i]).poke_pin_default(3);
                if r != 5 {
                    return Err(format!("poke_pin_default(3) returned {r}"));
                }
                book.check_no_early_drop()?;
                stats.mut_default += 1;
            }
            PhaseEnd::PokeDefault(i) => {
                let i = i as usize % n;
                let r = insts[i].poke_default(3);
                if r != 4 {
                    return Err(format!("poke_default(3) returned {r}"));
                }
                // no make_mut happened: every value lent so far (directly or through the helper) stays alive
                book.check_no_early_drop()?;
                stats.mut_default += 1;
            }
            PhaseEnd::MakeMut(i) | PhaseEnd::LendMut(i) | PhaseEnd::LendMutDefault(i) => {
                let i = i as usize % n;
                salt += 1;
                let id;
                {
                    let t: &mut Tracked = match phase.end {
                        PhaseEnd::MakeMut(_) => insts[i].make_mut(Tracked::new(&reg, salt)),
                        PhaseEnd::LendMutDefault(_) => {
                            stats.mut_default += 1;
                            insts[i].lend_mut_default(1)
                        }
                        _ => insts[i].lend_mut(1),
                    };
                    id = t.id;
                    t.payload.push_str("-mutated");
                    if !t.payload.ends_with("-mutated") {
                        return Err("mutation through make_mut reference not visible".into());
                    }
                }
                if matches!(phase.end, PhaseEnd::LendMutDefault(_)) {
                    // make_mut ran on the HELPER: only what the helper lent earlier may have been released
                    let earlier = std::mem::take(&mut book.owned_helper[i]);
                    book.releasable.extend(earlier);
                    book.owned_helper[i].push(id);
                } else {
                    // earlier values of this instance's own chain may have been released now
                    book.zst_releasable += std::mem::take(&mut book.zst_owned[i]);
                    let earlier = std::mem::take(&mut book.owned[i]);
                    book.releasable.extend(earlier);
                    book.owned[i].push(id);
                }
                book.check_no_early_drop()?;
                stats.make_mut += 1;
            }
        }
    }

    // concurrent lending through a shared &Unimock
    if case.threads >= 2 {
        let u = &insts[0];
        let reg_ref = &reg;
        let per = case.per_thread as usize;
        let results: Vec<Result<Vec<u32>, String>> = std::thread::scope(|s| {
            let hs: Vec<_> = (0..case.threads)
                .map(|t| {
                    s.spawn(move || {
                        let mut mine: Vec<&Tracked> = vec![];
                        let mut ids = vec![];
                        for k in 0..per {
                            let v = Tracked::new(reg_ref, 100_000 * t as u32 + k as u32);
                            let expect = (v.id, v.payload.clone());
                            let r: &Tracked = u.make_ref(v);
                            if (r.id, r.payload.clone()) != expect {
                                return Err(format!("thread {t}: make_ref returned a reference to another value (id {} instead of {})", r.id, expect.0));
                            }
                            ids.push(r.id);
                            mine.push(r);
                            if k % 16 == 0 || k + 1 == per {
                                for (j, m) in mine.iter().enumerate() {
                                    if m.id != ids[j] {
                                        return Err(format!("thread {t}: reference #{j} now reads id {} instead of {}", m.id, ids[j]));
                                    }
                                    if reg_ref.dropped(m.id) != 0 {
                                        return Err(format!("thread {t}: value {} dropped while borrowed", m.id));
                                    }
                                }
                            }
                        }
                        let mut addrs: Vec<usize> = mine.iter().map(|m| *m as *const Tracked as usize).collect();
                        addrs.sort();
                        addrs.dedup();
                        if addrs.len() != mine.len() {
                            return Err(format!("thread {t}: two lent values share an address"));
                        }
                        Ok(ids)
                    })
                })
                .collect();
            hs.into_iter().map(|h| h.join().unwrap_or_else(|_| Err("HARNESS: thread panicked".into()))).collect()
        });
        let mut all = vec![];
        for r in results {
            all.extend(r?);
        }
        book.owned[0].extend(all);
        book.check_no_early_drop()?;
        stats.threads = case.threads as usize;
    }

    // teardown: clones first, then the original
    let total_values = reg.len();
    while insts.len() > 1 {
        let i = insts.len() - 1;
        let c = insts.pop().unwrap();
        if case.teardown_by_unwinding {
            let r = catch(move || {
                let _dies_here = c;
                panic!("USER-PANIC-UNWINDING-THE-INSTANCE");
            });
            if !r.err().map(|m| m.contains("USER-PANIC-UNWINDING")).unwrap_or(false) {
                return Err("HARNESS: the unwinding teardown did not end with the user panic".to_string());
            }
        } else if catch(move || drop(c)).is_err() {
            return Err("dropping a clone panicked".to_string());
        }
        book.zst_releasable += std::mem::take(&mut book.zst_owned[i]);
        for id in book.owned[i].iter().chain(book.owned_helper[i].iter()) {
            if reg.dropped(*id) != 1 {
                return Err(format!("after dropping clone {i}, its lent value {id} was dropped {} times", reg.dropped(*id)));
            }
        }
        for id in &book.shared {
            if reg.dropped(*id) != 0 {
                return Err(format!("returns()-configured value {id} dropped while the original is alive"));
            }
        }
    }
    let o = insts.pop().unwrap();
    // with verification enabled the drop may legitimately panic (unmet "never called" rules), but
    // every user clone is gone and the lent values (some own a clone) must have been released first
    let dropped = if case.teardown_by_unwinding {
        match catch(move || {
            let _dies_here = o;
            panic!("USER-PANIC-UNWINDING-THE-INSTANCE");
        }) {
            Err(m) if m.contains("USER-PANIC-UNWINDING") => Ok(()),
            other => other,
        }
    } else {
        match case.finish {
            1 => catch(move || o.verify()),
            2 => catch(move || {
                let _code = std::process::Termination::report(o);
            }),
            3 => {
                // the original is consumed by a provided by-value method whose body hands it on to a required
                // by-value method: while that runs, everything the instance lent is still owned by it
                *END_REG.lock().unwrap() = Some(reg.clone());
                *END_SNAPSHOT.lock().unwrap() = None;
                let r = catch(move || {
                    let _ = o.end_default(1);
                });
                *END_REG.lock().unwrap() = None;
                match END_SNAPSHOT.lock().unwrap().take() {
                    None => return Err("HARNESS: the answer of end_req did not run".to_string()),
                    Some(snapshot) => {
                        for id in book.owned[0].iter().chain(book.owned_helper[0].iter()) {
                            if snapshot.get(*id as usize).copied().unwrap_or(0) != 0 {
                                return Err(format!(
                                    "value {id} lent by the original was released while the instance was still alive inside a by-value provided method (before its verification)"
                                ));
                            }
                        }
                    }
                }
                r
            }
            _ => catch(move || drop(o)),
        }
    };
    if let Err(msg) = dropped {
        if msg.contains("clones still alive") {
            return Err(format!("dropping the original after every clone was dropped: the values it lent were not released before its verification: {msg}"));
        }
    }
    for id in 0..total_values as u32 {
        let d = reg.dropped(id);
        if d != 1 {
            return Err(format!("after teardown value {id} was dropped {d} times (expected exactly once)"));
        }
    }
    let (zm, zd) = (ZST_MADE.load(std::sync::atomic::Ordering::SeqCst), ZST_DROPPED.load(std::sync::atomic::Ordering::SeqCst));
    if zm != zd {
        return Err(format!("{zm} zero-sized values with a destructor were lent, {zd} destructors ran by the end of the teardown (each must run exactly once)"));
    }
    let mut classes = vec![];
    if !case.teardown_by_unwinding {
        classes.push(["original-dropped", "original-ended-by-verify()", "original-ended-by-report()", "original-consumed-by-a-by-value-provided-method"][case.finish.min(3) as usize].to_string());
    }
    if stats.make_mut > 0 {
        classes.push("make_mut-phase".to_string());
    }
    if stats.via_helper > 0 {
        classes.push("lent-via-delegation-helper".to_string());
    }
    if stats.mut_default > 0 {
        classes.push("provided-&mut-self-method-phase".to_string());
    }
    if stats.lent_clone > 0 {
        classes.push("lent-value-owning-a-clone".to_string());
    }
    if stats.zst > 0 {
        classes.push("zero-sized-lent-value-with-destructor".to_string());
    }
    if stats.mut_default > 0 && stats.via_helper > 0 {
        classes.push("helper-lent-values-then-&mut-delegation".to_string());
    }
    if stats.returned > 0 {
        classes.push("returns()-configured-borrow".to_string());
    }
    if stats.threads > 0 {
        classes.push(format!("threads-{}", stats.threads));
    }
    if stats.max_held >= 256 {
        classes.push("held>=256".to_string());
    }
    if total_values >= 5000 {
        classes.push("values>=5000".to_string());
    }
    if case.small_stack {
        classes.push("dropped-on-small-stack".to_string());
    }
    if case.teardown_by_unwinding {
        classes.push("instances-dropped-by-an-unwinding-thread".to_string());
    }
    Ok((stats.same_type_reread, classes))
}

pub fn execute(case: &ChainCase) -> WorkerReply {
    // a recursive drop of a long chain overflows the small stack (the worker then dies)
    let stack = if case.small_stack { 256 << 10 } else { 64 << 20 };
    let c2 = case.clone();
    let joined = std::thread::Builder::new()
        .stack_size(stack)
        .spawn(move || catch(|| execute_inner(&c2)))
        .expect("HARNESS: spawn")
        .join()
        .unwrap_or_else(|_| Err("thread died".to_string()));
    match joined {
        Ok(Ok((nt, classes))) => WorkerReply { ok: true, reason: String::new(), nontrivial: nt, classes },
        Ok(Err(reason)) => WorkerReply { ok: false, reason, nontrivial: false, classes: vec![] },
        Err(p) => WorkerReply { ok: false, reason: format!("unexpected panic while lending/reading: {p}"), nontrivial: false, classes: vec![] },
    }
}

pub fn worker_main() {
    vcore::worker::serve(|line| {
        let reply = match serde_json::from_str::<ChainCase>(line) {
            Ok(c) => execute(&c),
            Err(e) => WorkerReply { ok: false, reason: format!("HARNESS: bad case {e}"), nontrivial: false, classes: vec![] },
        };
        serde_json::to_string(&reply).unwrap()
    });
}

pub fn check_via(worker: &std::cell::RefCell<Worker>, case: &ChainCase) -> Result<CaseInfo, String> {
    let json = serde_json::to_string(case).unwrap();
    match worker.borrow_mut().run(&json) {
        Reply::Crash(status) => Err(format!(
            "the process died while executing the case ({status}): stack overflow in a recursive drop, or a double panic"
        )),
        Reply::Line(l) => {
            let r: WorkerReply = serde_json::from_str(&l).map_err(|e| format!("HARNESS: bad worker reply {e}: {l}"))?;
            if r.ok {
                let mut ci = CaseInfo::new(r.nontrivial);
                ci.classes = r.classes.iter().map(|c| super::leak_class(c)).collect();
                Ok(ci)
            } else if r.reason.starts_with("HARNESS") {
                panic!("{}", r.reason)
            } else {
                Err(r.reason)
            }
        }
    }
}

fn op_strategy() -> impl Strategy<Value = RefOp> {
    let i = 0..4u8;
    prop_oneof![
        6 => i.clone().prop_map(RefOp::MakeTracked),
        2 => i.clone().prop_map(RefOp::MakeTracked2),
        1 => i.clone().prop_map(RefOp::MakeU32),
        1 => i.clone().prop_map(RefOp::MakeString),
        2 => i.clone().prop_map(RefOp::LendAnswered),
        2 => (i.clone(), 0..4u8).prop_map(|(a, b)| RefOp::LendReturned(a, b)),
        2 => i.clone().prop_map(RefOp::LendViaHelper),
        1 => i.clone().prop_map(RefOp::LendClone),
        1 => i.clone().prop_map(RefOp::MakeZst),
        1 => (i, 0..4u8).prop_map(|(a, b)| RefOp::Burst(a, b)),
    ]
}

fn phase_strategy() -> impl Strategy<Value = Phase> {
    (
        vec(op_strategy(), 0..=12),
        prop_oneof![
            2 => Just(PhaseEnd::Nothing),
            2 => (0..4u8).prop_map(PhaseEnd::MakeMut),
            1 => (0..4u8).prop_map(PhaseEnd::LendMut),
            2 => (0..4u8).prop_map(PhaseEnd::PokeDefault),
            2 => (0..4u8).prop_map(PhaseEnd::PokePinDefault),
            1 => (0..4u8).prop_map(PhaseEnd::LendMutDefault),
        ],
    )
        .prop_map(|(ops, end)| Phase { ops, end })
}

pub fn case_strategy(max_threads: u8, max_per_thread: u16) -> impl Strategy<Value = ChainCase> {
    (
        0..=3u8,
        vec(phase_strategy(), 1..=4),
        prop_oneof![3 => Just(0u8), 1 => 2..=max_threads],
        1..=max_per_thread,
        any::<bool>(),
        proptest::bool::weighted(0.3),
        0..4u8,
    )
        .prop_map(|(clones, phases, threads, per_thread, small_stack, teardown_by_unwinding, finish)| ChainCase {
            clones,
            phases,
            threads,
            per_thread,
            small_stack,
            verify: per_thread % 2 == 0,
            finish,
            teardown_by_unwinding,
        })
}

/// Long chains: thousands of values of the same type on one instance, dropped on a small stack.
pub fn deep_cases() -> Vec<ChainCase> {
    let mut out = vec![];
    for bursts in [20usize, 80, 200] {
        for small_stack in [true, false] {
            for end in [PhaseEnd::Nothing, PhaseEnd::MakeMut(0)] {
                out.push(ChainCase {
                    clones: 1,
                    phases: vec![
                        Phase { ops: vec![RefOp::Burst(0, 3); bursts], end },
                        Phase { ops: vec![RefOp::Burst(1, 3); bursts / 4], end: PhaseEnd::Nothing },
                    ],
                    threads: 0,
                    per_thread: 1,
                    small_stack,
                    verify: bursts == 80,
                    finish: (bursts / 20 % 3) as u8,
                    teardown_by_unwinding: false,
                });
            }
        }
    }
    for threads in [2u8, 4, 8] {
        out.push(ChainCase { clones: 0, phases: vec![], threads, per_thread: 2000, small_stack: true, verify: false, finish: threads % 3, teardown_by_unwinding: false });
    }
    out
}

pub const RULE: &str = "cases = 1-4 phases of up to 12 lending operations (make_ref of Tracked / a second tracked type / u32 / String, calls answered by an answer function using make_ref, calls answered by a returns()-configured borrowed value, calls through a default body running on the delegation helper, bursts of 64-256 values) spread over the original and up to 3 clones, each phase optionally closed by make_mut / a make_mut-answered &mut return, then optionally 2-8 threads lending concurrently through a shared &Unimock, then teardown (optionally on a 192 KiB stack; the original ends by drop, explicit verify(), report() or by being consumed by a by-value provided method (everything it lent must still be alive inside that call), or by letting a user panic unwind through the scope that owns the instance). After every operation every reference obtained so far is re-read against a shadow copy and the drop registry is checked. deep = long chains (5k-51k values) and 2-8 threads x 2000 values. scheduled-lent-answers = every schedule (yield points at the value-chain cells, the delegator cell, counters and locks) of 2 threads x 1-2 make_ref-answered calls through one shared &Unimock (thorough: also 3x1, 2x3), sampled schedules for 2-4 threads x 2-3 calls; oracle: every call reads the value made for it, at the call and when the thread ends, at an address of its own. Non-trivial = >= 3 consecutive held values of the same type on one instance re-read after later pushes in a phase of >= 4 operations; distinct = distinct case";

pub fn run(ctx: &Ctx) -> Verdict {
    let mut v = Verdict::new("exploration", RULE);
    v.explanation = "Oracle = shadow list of (address, id, contents) for every reference still borrowed + a drop registry: no value is dropped while its owning instance is alive (except values a later make_mut may release), make_ref addresses are pairwise distinct, and after teardown every value was dropped exactly once. Cases run in a crash-isolated worker so that a stack overflow in a recursive drop is attributed to its case.".into();
    v.assumptions = vec![
        "references are held in safe Rust: the borrow checker already rules out use-after-free unless unimock's (unsafe-free) code misbehaves logically, so the checks target logical faults: wrong node returned, values replaced, early or double drops, recursion depth".into(),
        "the cells of the value chain are yield points of the scheduler (cfg unimock_verif hook), interleavings inside once_cell itself are not controlled".into(),
    ];
    v.subs.push(super::replay_corpus(ctx));
    let worker = std::cell::RefCell::new(Worker::new("c13"));
    let n = ctx.tier.pick(6_000, 60_000);
    let (mt, mp) = match ctx.tier {
        vcore::Tier::Quick => (4, 200),
        vcore::Tier::Thorough => (8, 400),
    };
    v.subs.push(vcore::run_proptest(ctx, "sequences", n, case_strategy(mt, mp), |c| check_via(&worker, c)));
    v.subs.push(vcore::run_enumerated(ctx, "deep", deep_cases(), |c| {
        check_via(&worker, c).map(|i| CaseInfo { nontrivial: true, classes: i.classes })
    }));
    // lent answers through one shared &Unimock under every schedule of 2 threads (sampled for 2-4): C10's engine
    for mut s in super::c10::lent_reports(ctx) {
        let renamed = format!("scheduled-{}", s.name);
        s.rename(renamed);
        v.subs.push(s);
    }
    v
}

pub fn replay(_sub: &str, case: Value) -> Result<(), String> {
    if _sub.starts_with("scheduled-lent-answers") {
        return super::c10::replay("lent-answers", case);
    }
    let case: ChainCase = serde_json::from_value(case).map_err(|e| format!("HARNESS: bad case: {e}"))?;
    let worker = std::cell::RefCell::new(Worker::new("c13"));
    check_via(&worker, &case).map(|_| ())
}
