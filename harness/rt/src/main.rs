use vcore::{Ctx, Tier, EXIT_INCONCLUSIVE};

fn usage() -> ! {
    eprintln!("usage: rt <PROPERTY> [quick|thorough] | rt --replay <file> | rt --child <json>");
    std::process::exit(EXIT_INCONCLUSIVE)
}

fn main() {
    vcore::panics::install_quiet_hook();
    let args: Vec<String> = std::env::args().skip(1).collect();
    if args.is_empty() {
        usage();
    }
    if args[0] == "--replay" {
        let Some(path) = args.get(1) else { usage() };
        std::process::exit(rt::props::replay_file(std::path::Path::new(path)));
    }
    if args[0] == "--replay-case" {
        // rt --replay-case <PROPERTY> <sub> <case json>: one saved case of a sub-check hosted here for another engine
        let (Some(prop), Some(sub), Some(json)) = (args.get(1), args.get(2), args.get(3)) else { usage() };
        let case: serde_json::Value = match serde_json::from_str(json) {
            Ok(v) => v,
            Err(e) => {
                println!("HARNESS: bad case json: {e}");
                std::process::exit(EXIT_INCONCLUSIVE)
            }
        };
        match vcore::panics::catch(|| rt::props::replay_case(prop, sub, case)) {
            Ok(Ok(())) => std::process::exit(0),
            Ok(Err(reason)) if reason.starts_with("HARNESS") => {
                println!("{reason}");
                std::process::exit(EXIT_INCONCLUSIVE)
            }
            Ok(Err(reason)) => {
                println!("{reason}");
                std::process::exit(1)
            }
            Err(p) => {
                println!("HARNESS: panic {p}");
                std::process::exit(EXIT_INCONCLUSIVE)
            }
        }
    }
    if args[0] == "--sub-json" {
        let prop = args.get(1).cloned().unwrap_or_default();
        let tier = if args.get(2).map(|s| s == "thorough").unwrap_or(false) { Tier::Thorough } else { Tier::Quick };
        // variant runs use a fraction of the std budget: same generators, fewer cases
        let ctx = Ctx::new(&prop, if std::env::var_os("VERIF_VARIANT_FULL").is_some() || prop == "C19" || prop.starts_with("C17") { tier } else { Tier::Quick });
        let _ = tier;
        rt::props::print_sub_reports(&ctx);
        return;
    }
    #[cfg(feature = "std")]
    if args[0] == "--child-c11" {
        let Some(json) = args.get(1) else { usage() };
        rt::props::c11::child_main(json);
        return;
    }
    if args[0] == "--worker" {
        let Some(mode) = args.get(1) else { usage() };
        rt::props::worker(mode);
        return;
    }
    let prop = args[0].clone();
    let tier = match args
        .get(1)
        .cloned()
        .or_else(|| std::env::var("VERIF_TIER").ok())
        .as_deref()
    {
        Some("thorough") => Tier::Thorough,
        Some("quick") | None => Tier::Quick,
        Some(_) => usage(),
    };
    let ctx = Ctx::new(&prop, tier);
    // run on a big stack: deep value chains / recursion in some properties
    let code = std::thread::Builder::new()
        .stack_size(256 << 20)
        .spawn(move || rt::props::run(&ctx))
        .unwrap()
        .join()
        .unwrap_or(EXIT_INCONCLUSIVE);
    std::process::exit(code);
}
