//! Reference model of unimock's runtime, written from the crate documentation
//! and the property statements (DESIGN.md §3). It has no dependency on unimock.
//!
//! It is deliberately under-specified where the properties are: `Unspecified`
//! outcomes are never compared with the implementation.

use crate::spec::*;
use std::collections::BTreeMap;

#[derive(Clone, Copy, Debug, PartialEq, Eq, Hash)]
pub enum PanicKind {
    NoMock,
    NoMatch,
    NoMatcherFn,
    NoOutput,
    WrongOrder,
    OutOfRange,
    InputsNotMatched,
    CannotReturnTwice,
    Explicit,
    CannotUnmock,
    NoDefaultImpl,
    /// panic raised by user code (answer function, matcher)
    User,
}

impl PanicKind {
    pub fn mock_induced(self) -> bool {
        !matches!(self, PanicKind::User)
    }
}

#[derive(Clone, Copy, Debug, PartialEq, Eq)]
pub enum Outcome {
    Value(u32),
    Panic(PanicKind),
    Unspecified,
}

#[derive(Clone, Copy, Debug, PartialEq, Eq, Hash, PartialOrd, Ord)]
pub enum SideEffect {
    Real(u8, u8),
    Default(u8, u8),
}

#[derive(Clone, Copy, Debug, PartialEq, Eq)]
pub enum Expect {
    None,
    Exactly(usize),
    AtLeast(usize),
}

#[derive(Clone, Debug, PartialEq, Eq)]
pub enum ConstructError {
    ModeConflict { method: u8 },
    EmptyStub { method: u8 },
    /// a single-use return value cannot be stored without a Mutex API (no std, no spin-lock)
    NoMutexApi { method: u8 },
}

#[derive(Clone, Debug)]
pub struct MPat {
    pub id: u16,
    pub mask: u8,
    pub matcher: MatcherKind,
    /// (response, exact repeat count or None for an open tail)
    pub segs: Vec<(Resp, Option<usize>)>,
    pub single_use_first: bool,
    pub first_taken: bool,
    pub expect: Expect,
    pub matched: usize,
    /// index within the method's pattern list
    pub index: usize,
}

impl MPat {
    fn from_spec(spec: &PatternSpec, entry: Entry, index: usize) -> Self {
        let ordered = entry == Entry::Next;
        let define_response_entry = matches!(entry, Entry::Some | Entry::Next);
        let mut segs = vec![];
        let mut exact_total = 0usize;
        for seg in &spec.chain {
            let n = match seg.quant {
                Quant::Once => Some(1),
                Quant::NTimes(n) => Some(n as usize),
                Quant::AtLeast(_) | Quant::None => None,
            };
            if let Some(n) = n {
                exact_total += n;
            }
            segs.push((seg.resp, n));
        }
        let single_use_first = define_response_entry
            && spec
                .chain
                .first()
                .map(|s| s.resp == Resp::Returns && matches!(s.quant, Quant::None | Quant::Once))
                .unwrap_or(false);
        let expect = match spec.chain.last() {
            None => Expect::None,
            Some(last) => match last.quant {
                Quant::Once | Quant::NTimes(_) => Expect::Exactly(exact_total),
                Quant::AtLeast(j) => Expect::AtLeast(exact_total + j as usize),
                Quant::None => {
                    if spec.chain.len() == 1 && define_response_entry && last.resp == Resp::Returns {
                        // `some_call(..).returns(v)` / `next_call(..).returns(v)`: exactly once
                        segs[0].1 = Some(1);
                        Expect::Exactly(1)
                    } else if ordered {
                        let l = segs.len() - 1;
                        segs[l].1 = Some(1);
                        Expect::Exactly(exact_total + 1)
                    } else if spec.chain.len() >= 2 {
                        Expect::AtLeast(exact_total + 1)
                    } else {
                        Expect::None
                    }
                }
            },
        };
        MPat {
            id: spec.id,
            mask: spec.mask,
            matcher: spec.matcher,
            segs,
            single_use_first,
            first_taken: false,
            expect,
            matched: 0,
            index,
        }
    }

    fn accepts(&self, arg: u8) -> bool {
        (self.mask >> arg) & 1 == 1
    }

    /// number of ordered slots this pattern occupies
    fn slots(&self) -> usize {
        match self.expect {
            Expect::Exactly(n) => n,
            _ => 0,
        }
    }

    /// Segment index governing the k-th match (0-based); None = beyond an all-exact chain.
    pub fn segment_for(&self, k: usize) -> Option<usize> {
        let mut acc = 0usize;
        for (i, (_, n)) in self.segs.iter().enumerate() {
            match n {
                Some(n) => {
                    acc += n;
                    if k < acc {
                        return Some(i);
                    }
                }
                None => return Some(i),
            }
        }
        None
    }
}

#[derive(Clone, Debug)]
pub struct MMethod {
    pub ordered: bool,
    pub pats: Vec<MPat>,
}

#[derive(Clone, Debug, PartialEq, Eq, PartialOrd, Ord, Hash)]
pub enum Line {
    /// (method, pattern id, "exactly"?)
    Pattern { method: u8, pat_id: u16, index: usize, exact: bool, bound: usize, actual: usize },
    NeverCalled { method: u8 },
}

#[derive(Clone, Debug, PartialEq, Eq)]
pub enum Verdict {
    Silent,
    /// count-based failure with exactly these lines
    Lines(Vec<Line>),
    /// mock-induced panics were recorded: the message consists of their texts
    RecordedErrors(usize),
    /// model does not predict the count-based part (after unspecified behaviour)
    Unspecified,
}

/// Set by the harness when it is built against the no-mutex feature set of the library.
pub static NO_MUTEX: std::sync::atomic::AtomicBool = std::sync::atomic::AtomicBool::new(false);

pub struct Model {
    pub partial: bool,
    pub facts: &'static [MethodFacts],
    pub methods: BTreeMap<u8, MMethod>,
    /// global ordered sequence: (method, pattern index in method)
    pub slots: Vec<(u8, usize)>,
    pub ordered_next: usize,
    pub deviated: bool,
    pub mock_errors: usize,
    /// some pattern's count went somewhere the properties do not define
    pub counts_unspecified: bool,
    pub effects: Vec<SideEffect>,
    /// tag(id, seg) of the `panics(msg)` segment that answered the most recent call (its message carries the tag)
    pub last_explicit: Option<u32>,
}

impl Model {
    pub fn new(
        partial: bool,
        clauses: &[ClauseSpec],
        facts: &'static [MethodFacts],
    ) -> Result<Model, ConstructError> {
        let mut methods: BTreeMap<u8, MMethod> = BTreeMap::new();
        let mut slots = vec![];
        for clause in clauses {
            let (method, entry, pats): (u8, Entry, Vec<&PatternSpec>) = match clause {
                ClauseSpec::Single { method, entry, pat } => (*method, *entry, vec![pat]),
                ClauseSpec::Stub { method, pats } => {
                    if pats.is_empty() {
                        return Err(ConstructError::EmptyStub { method: *method });
                    }
                    (*method, Entry::Each, pats.iter().collect())
                }
            };
            let ordered = entry == Entry::Next;
            for spec in pats {
                // a return value that cannot be stored is reported before anything else about the clause
                if NO_MUTEX.load(std::sync::atomic::Ordering::Relaxed) && MPat::from_spec(spec, entry, 0).single_use_first {
                    return Err(ConstructError::NoMutexApi { method });
                }
                let m = methods.entry(method).or_insert_with(|| MMethod {
                    ordered,
                    pats: vec![],
                });
                if m.ordered != ordered {
                    return Err(ConstructError::ModeConflict { method });
                }
                let index = m.pats.len();
                let pat = MPat::from_spec(spec, entry, index);
                if ordered {
                    for _ in 0..pat.slots() {
                        slots.push((method, index));
                    }
                }
                m.pats.push(pat);
            }
        }
        Ok(Model {
            partial,
            facts,
            methods,
            slots,
            ordered_next: 0,
            deviated: false,
            mock_errors: 0,
            counts_unspecified: false,
            effects: vec![],
            last_explicit: None,
        })
    }

    fn real(&mut self, method: u8, arg: u8) -> Outcome {
        let f = self.facts[method as usize];
        if f.has_unmock {
            self.effects.push(SideEffect::Real(method, arg));
            Outcome::Value(real_value(method, arg))
        } else {
            Outcome::Panic(PanicKind::CannotUnmock)
        }
    }

    fn default_body(&mut self, method: u8, arg: u8) -> Outcome {
        let f = self.facts[method as usize];
        if f.has_default {
            self.effects.push(SideEffect::Default(method, arg));
            Outcome::Value(default_value(method, arg))
        } else {
            Outcome::Panic(PanicKind::NoDefaultImpl)
        }
    }

    pub fn call(&mut self, method: u8, arg: u8) -> Outcome {
        let out = self.call_inner(method, arg);
        if let Outcome::Panic(k) = out {
            if k.mock_induced() {
                self.mock_errors += 1;
            }
        }
        out
    }

    fn call_inner(&mut self, method: u8, arg: u8) -> Outcome {
        let facts = self.facts[method as usize];
        let Some(m) = self.methods.get(&method) else {
            // no clause mentions the method
            return if facts.has_default {
                self.default_body(method, arg)
            } else if self.partial {
                self.real(method, arg)
            } else {
                Outcome::Panic(PanicKind::NoMock)
            };
        };

        let selected: usize;
        if !m.ordered {
            let mut found = None;
            for p in &m.pats {
                match p.matcher {
                    MatcherKind::NoFunc => return Outcome::Panic(PanicKind::NoMatcherFn),
                    MatcherKind::FuncUserPanic if p.accepts(arg) => {
                        return Outcome::Panic(PanicKind::User)
                    }
                    _ => {}
                }
                if p.accepts(arg) {
                    found = Some(p.index);
                    break;
                }
            }
            match found {
                Some(i) => selected = i,
                None => {
                    return if self.partial {
                        self.real(method, arg)
                    } else {
                        Outcome::Panic(PanicKind::NoMatch)
                    }
                }
            }
        } else {
            let i = self.ordered_next;
            self.ordered_next += 1;
            if self.deviated {
                // behaviour after the first deviation is not defined by the properties
                self.counts_unspecified = true;
                return Outcome::Unspecified;
            }
            match self.slots.get(i).copied() {
                None => {
                    self.deviated = true;
                    return Outcome::Panic(PanicKind::OutOfRange);
                }
                Some((sm, _)) if sm != method => {
                    self.deviated = true;
                    return Outcome::Panic(PanicKind::WrongOrder);
                }
                Some((_, pi)) => {
                    let p = &m.pats[pi];
                    match p.matcher {
                        MatcherKind::NoFunc => {
                            self.deviated = true;
                            return Outcome::Panic(PanicKind::NoMatcherFn);
                        }
                        MatcherKind::FuncUserPanic if p.accepts(arg) => {
                            // slot index consumed, pattern not counted: later behaviour undefined
                            self.deviated = true;
                            self.counts_unspecified = true;
                            return Outcome::Panic(PanicKind::User);
                        }
                        _ => {}
                    }
                    if !p.accepts(arg) {
                        self.deviated = true;
                        return Outcome::Panic(PanicKind::InputsNotMatched);
                    }
                    selected = pi;
                }
            }
        }

        let p = &mut self.methods.get_mut(&method).unwrap().pats[selected];
        let k = p.matched;
        p.matched += 1;
        if p.segs.is_empty() {
            return Outcome::Panic(PanicKind::NoOutput);
        }
        let seg = match p.segment_for(k) {
            Some(s) => s,
            None => {
                // beyond the end of an all-exact chain
                let last = p.segs.len() - 1;
                if last == 0 && p.single_use_first {
                    return Outcome::Panic(PanicKind::CannotReturnTwice);
                }
                // Which response is produced is not defined by the property; a
                // response with side effects could have run, so effects and a
                // possible panic are unknown as well.
                return Outcome::Unspecified;
            }
        };
        let (resp, _) = p.segs[seg];
        let id = p.id;
        match resp {
            Resp::Returns => {
                if seg == 0 && p.single_use_first {
                    if p.first_taken {
                        return Outcome::Panic(PanicKind::CannotReturnTwice);
                    }
                    p.first_taken = true;
                }
                Outcome::Value(tag(id, seg))
            }
            Resp::ReturnsDefault => Outcome::Value(0),
            Resp::Answers | Resp::AnswersArc => Outcome::Value(tag(id, seg)),
            Resp::AnswersUserPanic => Outcome::Panic(PanicKind::User),
            Resp::Panics => {
                self.last_explicit = Some(tag(id, seg));
                Outcome::Panic(PanicKind::Explicit)
            }
            Resp::Unmocked => self.real(method, arg),
            Resp::DefaultImpl => self.default_body(method, arg),
        }
    }

    pub fn verify(&self) -> Verdict {
        if self.mock_errors > 0 {
            return Verdict::RecordedErrors(self.mock_errors);
        }
        if self.counts_unspecified {
            return Verdict::Unspecified;
        }
        let mut lines = vec![];
        for (method, m) in &self.methods {
            let mut total = 0;
            for p in &m.pats {
                total += p.matched;
                match p.expect {
                    Expect::None => {}
                    Expect::Exactly(n) => {
                        if p.matched != n {
                            lines.push(Line::Pattern {
                                method: *method,
                                pat_id: p.id,
                                index: p.index,
                                exact: true,
                                bound: n,
                                actual: p.matched,
                            });
                        }
                    }
                    Expect::AtLeast(n) => {
                        if p.matched < n {
                            lines.push(Line::Pattern {
                                method: *method,
                                pat_id: p.id,
                                index: p.index,
                                exact: false,
                                bound: n,
                                actual: p.matched,
                            });
                        }
                    }
                }
            }
            if total == 0 {
                lines.push(Line::NeverCalled { method: *method });
            }
        }
        if lines.is_empty() {
            Verdict::Silent
        } else {
            lines.sort();
            Verdict::Lines(lines)
        }
    }
}
