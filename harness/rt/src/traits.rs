//! The fixed family of mocked traits used by the in-process engines. Every method
//! has the shape `(x: u8) -> u32` so that one interpreter can drive all of them;
//! they differ in the facts the properties quantify over: receiver kind, default
//! body, registered real function, trait-/method-level generics.

use crate::spec::{default_value, real_value, MethodFacts, Recv};
use std::cell::RefCell;
use unimock::*;

#[derive(Clone, Copy, Debug, PartialEq, Eq, Hash, PartialOrd, Ord)]
pub enum Effect {
    Real(u8, u8),
    Default(u8, u8),
}

thread_local! {
    static LOG: RefCell<Vec<Effect>> = const { RefCell::new(Vec::new()) };
}

pub fn log_effect(e: Effect) {
    LOG.with(|l| l.borrow_mut().push(e));
}
pub fn take_log() -> Vec<Effect> {
    LOG.with(|l| std::mem::take(&mut *l.borrow_mut()))
}

// 0, 1: neither default body nor real function
#[unimock(api=AMock)]
pub trait A {
    fn a0(&self, x: u8) -> u32;
    fn a1(&self, x: u8) -> u32;
}

// 2, 3: real functions registered. The receiver-less provided functions are not mockable but
// occupy a slot of the unmock_with list (`_`): the registrations of b0 / b1 sit at positions 1 and 3.
#[unimock(api=BMock, unmock_with=[_, real_b0, _, real_b1])]
pub trait B {
    fn version() -> u32 {
        1
    }
    fn b0(&self, x: u8) -> u32;
    fn helper() -> u32 {
        2
    }
    fn b1(&self, x: u8) -> u32;
}
pub fn real_b0(_: &impl std::any::Any, x: u8) -> u32 {
    log_effect(Effect::Real(2, x));
    real_value(2, x)
}
pub fn real_b1(_: &impl std::any::Any, x: u8) -> u32 {
    log_effect(Effect::Real(3, x));
    real_value(3, x)
}

// 4: default body, no real function
#[unimock(api=CMock)]
pub trait C {
    fn c0(&self, x: u8) -> u32 {
        log_effect(Effect::Default(4, x));
        default_value(4, x)
    }
}

// 5: default body and real function
#[unimock(api=DMock, unmock_with=[real_d0])]
pub trait D {
    fn d0(&self, x: u8) -> u32 {
        log_effect(Effect::Default(5, x));
        default_value(5, x)
    }
}
pub fn real_d0(_: &impl std::any::Any, x: u8) -> u32 {
    log_effect(Effect::Real(5, x));
    real_value(5, x)
}

// 6, 7: `&mut self` receivers; 7 has a default body
#[unimock(api=MMock)]
pub trait M {
    fn m0(&mut self, x: u8) -> u32;
    fn m1(&mut self, x: u8) -> u32 {
        log_effect(Effect::Default(7, x));
        default_value(7, x)
    }
}

// 8, 9: one generic trait, two instantiations
#[unimock(api=GenMock)]
pub trait Gen<T: 'static> {
    fn g(&self, x: u8) -> u32;
}

// 10, 11: one generic method, two instantiations
#[unimock(api=GmMock)]
pub trait Gm {
    fn gm<T: 'static>(&self, x: u8) -> u32;
}

// 12: `&mut self` with a registered real function (see known findings)
// 13: `&mut self` with a default body AND a registered real function
#[unimock(api=NMock, unmock_with=[real_n0, real_n1])]
pub trait N {
    fn n0(&mut self, x: u8) -> u32;
    fn n1(&mut self, x: u8) -> u32 {
        log_effect(Effect::Default(13, x));
        default_value(13, x)
    }
}
pub fn real_n1(_: &mut impl std::any::Any, x: u8) -> u32 {
    log_effect(Effect::Real(13, x));
    real_value(13, x)
}
pub fn real_n0(_: &mut impl std::any::Any, x: u8) -> u32 {
    log_effect(Effect::Real(12, x));
    real_value(12, x)
}

pub const N_METHODS: usize = 14;

pub static FACTS: [MethodFacts; N_METHODS] = [
    MethodFacts { path: "A::a0", recv: Recv::Ref, has_default: false, has_unmock: false },
    MethodFacts { path: "A::a1", recv: Recv::Ref, has_default: false, has_unmock: false },
    MethodFacts { path: "B::b0", recv: Recv::Ref, has_default: false, has_unmock: true },
    MethodFacts { path: "B::b1", recv: Recv::Ref, has_default: false, has_unmock: true },
    MethodFacts { path: "C::c0", recv: Recv::Ref, has_default: true, has_unmock: false },
    MethodFacts { path: "D::d0", recv: Recv::Ref, has_default: true, has_unmock: true },
    MethodFacts { path: "M::m0", recv: Recv::Mut, has_default: false, has_unmock: false },
    MethodFacts { path: "M::m1", recv: Recv::Mut, has_default: true, has_unmock: false },
    MethodFacts { path: "Gen::g", recv: Recv::Ref, has_default: false, has_unmock: false },
    MethodFacts { path: "Gen::g", recv: Recv::Ref, has_default: false, has_unmock: false },
    MethodFacts { path: "Gm::gm", recv: Recv::Ref, has_default: false, has_unmock: false },
    MethodFacts { path: "Gm::gm", recv: Recv::Ref, has_default: false, has_unmock: false },
    MethodFacts { path: "N::n0", recv: Recv::Mut, has_default: false, has_unmock: true },
    MethodFacts { path: "N::n1", recv: Recv::Mut, has_default: true, has_unmock: true },
];

/// Call method `method` with argument `x` on `u`.
pub fn call(u: &mut Unimock, method: u8, x: u8) -> u32 {
    match method {
        0 => u.a0(x),
        1 => u.a1(x),
        2 => u.b0(x),
        3 => u.b1(x),
        4 => u.c0(x),
        5 => u.d0(x),
        6 => u.m0(x),
        7 => u.m1(x),
        8 => <Unimock as Gen<u16>>::g(u, x),
        9 => <Unimock as Gen<i16>>::g(u, x),
        10 => u.gm::<u16>(x),
        11 => u.gm::<i16>(x),
        12 => u.n0(x),
        13 => u.n1(x),
        _ => panic!("HARNESS: no such method {method}"),
    }
}

/// Call a `&self` method through a shared reference (used by threaded engines).
pub fn call_shared(u: &Unimock, method: u8, x: u8) -> u32 {
    match method {
        0 => u.a0(x),
        1 => u.a1(x),
        2 => u.b0(x),
        3 => u.b1(x),
        4 => u.c0(x),
        5 => u.d0(x),
        8 => <Unimock as Gen<u16>>::g(u, x),
        9 => <Unimock as Gen<i16>>::g(u, x),
        10 => u.gm::<u16>(x),
        11 => u.gm::<i16>(x),
        _ => panic!("HARNESS: method {method} needs &mut self"),
    }
}
