//! proptest strategies for scenarios. A *raw* scenario is unconstrained data (so it
//! shrinks well); `legalise` maps it onto the set of scenarios the builder's
//! type-state accepts (construction, not rejection).

use proptest::collection::vec;
use proptest::prelude::*;

use crate::model::{Model, Outcome};
use crate::spec::*;
use crate::traits::FACTS;

#[derive(Clone, Debug)]
pub struct Cfg {
    /// candidate methods (indexes into traits::FACTS)
    pub methods: Vec<u8>,
    /// out of 256: P(method unordered), P(method ordered); rest = unmentioned
    pub p_unordered: u16,
    pub p_ordered: u16,
    /// optional per-method override of (p_unordered, p_ordered), indexed like `methods`
    pub method_modes: Option<Vec<(u16, u16)>>,
    pub resps: Vec<Resp>,
    pub matchers: Vec<MatcherKind>,
    pub max_clauses: usize,
    pub max_stub_pats: usize,
    pub max_chain: usize,
    pub max_n: u8,
    pub max_history: usize,
    pub max_clones: u8,
    /// out of 256: probability that a history step follows the model's expected next ordered call
    pub guide: u16,
    /// out of 256: probability that a history step is steered to a call some pattern of a
    /// mentioned unordered method accepts (tested after `guide`, on the same draw)
    pub prefer_match: u16,
    pub allow_empty_stub_chain: bool,
    pub partial: Option<bool>,
    pub verify_modes: Vec<VerifyMode>,
    /// stop the history after the first ordered deviation
    pub stop_at_deviation: bool,
    /// a quarter of the calls is made by a destructor while the thread unwinds from a caught user panic
    pub unwinding_calls: bool,
}

impl Cfg {
    pub fn base() -> Cfg {
        Cfg {
            methods: vec![0, 1, 2, 3, 4, 5, 6, 7],
            p_unordered: 150,
            p_ordered: 0,
            method_modes: None,
            resps: vec![Resp::Returns, Resp::Answers, Resp::AnswersArc, Resp::ReturnsDefault],
            matchers: vec![MatcherKind::FuncDebug],
            max_clauses: 6,
            max_stub_pats: 4,
            max_chain: 3,
            max_n: 3,
            max_history: 24,
            max_clones: 3,
            guide: 0,
            prefer_match: 0,
            allow_empty_stub_chain: false,
            partial: None,
            verify_modes: vec![VerifyMode::Drop],
            stop_at_deviation: true,
            unwinding_calls: true,
        }
    }
}

#[derive(Clone, Debug)]
pub struct RawPat {
    pub mask: u8,
    pub matcher: u8,
    pub chain: Vec<(u8, u8, u8)>,
}

#[derive(Clone, Debug)]
pub struct RawClause {
    pub method_sel: u8,
    pub form: u8,
    pub pats: Vec<RawPat>,
}

#[derive(Clone, Debug)]
pub struct RawCall {
    pub sel: u8,
    pub arg: u8,
    pub via: u8,
    pub guide: u8,
}

#[derive(Clone, Debug)]
pub struct RawScenario {
    pub partial: bool,
    pub modes: Vec<u8>,
    pub clauses: Vec<RawClause>,
    pub clones: u8,
    pub history: Vec<RawCall>,
    pub verify: u8,
}

/// Monotone index mapping (shrinks towards index 0).
pub fn pick(sel: u8, len: usize) -> usize {
    (sel as usize * len) >> 8
}

fn raw_pat(cfg: &Cfg) -> impl Strategy<Value = RawPat> {
    let lo = if cfg.allow_empty_stub_chain { 0 } else { 1 };
    (
        any::<u8>(),
        any::<u8>(),
        vec((any::<u8>(), any::<u8>(), 0..=cfg.max_n), lo..=cfg.max_chain),
    )
        .prop_map(|(mask, matcher, chain)| RawPat { mask, matcher, chain })
}

fn raw_clause(cfg: &Cfg) -> impl Strategy<Value = RawClause> {
    (any::<u8>(), any::<u8>(), vec(raw_pat(cfg), 1..=cfg.max_stub_pats)).prop_map(
        |(method_sel, form, pats)| RawClause {
            method_sel,
            form,
            pats,
        },
    )
}

pub fn raw_scenario(cfg: &Cfg) -> impl Strategy<Value = RawScenario> {
    (
        any::<bool>(),
        vec(any::<u8>(), cfg.methods.len()),
        vec(raw_clause(cfg), 0..=cfg.max_clauses),
        0..=cfg.max_clones,
        vec(
            (any::<u8>(), 0..ARGS, any::<u8>(), any::<u8>()).prop_map(|(sel, arg, via, guide)| RawCall {
                sel,
                arg,
                via,
                guide,
            }),
            0..=cfg.max_history,
        ),
        any::<u8>(),
    )
        .prop_map(|(partial, modes, clauses, clones, history, verify)| RawScenario {
            partial,
            modes,
            clauses,
            clones,
            history,
            verify,
        })
}

pub fn legal_quant(kind: u8, n: u8, last: bool, ordered: bool) -> Quant {
    // kind: 0..64 None, 64..128 Once, 128..208 NTimes, 208.. AtLeast
    let q = match kind {
        0..=63 => Quant::None,
        64..=127 => Quant::Once,
        128..=207 => Quant::NTimes(n),
        _ => Quant::AtLeast(n),
    };
    match q {
        Quant::None if !last => Quant::Once,
        Quant::AtLeast(n) if !last || ordered => Quant::NTimes(n),
        q => q,
    }
}

pub fn legalise_pat(cfg: &Cfg, raw: &RawPat, id: u16, ordered: bool, in_stub: bool) -> PatternSpec {
    let mut chain = vec![];
    let len = raw.chain.len();
    for (i, (r, k, n)) in raw.chain.iter().enumerate() {
        let resp = cfg.resps[pick(*r, cfg.resps.len())];
        let quant = legal_quant(*k, *n, i + 1 == len, ordered);
        chain.push(Seg { resp, quant });
    }
    if chain.is_empty() && !in_stub {
        chain.push(Seg {
            resp: cfg.resps[0],
            quant: Quant::None,
        });
    }
    let mut matcher = cfg.matchers[pick(raw.matcher, cfg.matchers.len())];
    let mut mask = raw.mask;
    if let MatcherKind::Macro(_) = matcher {
        // one of the fixed `matching!` patterns; its accept set replaces the generated mask
        let k = raw.mask % 8;
        matcher = MatcherKind::Macro(k);
        mask = MACRO_MASKS[k as usize];
    }
    if let MatcherKind::MacroEq(_) = matcher {
        let v = raw.mask % 8;
        matcher = MatcherKind::MacroEq(v);
        mask = 1 << v;
    }
    PatternSpec { id, mask, matcher, chain }
}

/// Modes per candidate method: 0 = unmentioned, 1 = unordered, 2 = ordered.
pub fn method_mode(cfg: &Cfg, idx: usize, sel: u8) -> u8 {
    let s = sel as u16;
    let (pu, po) = match &cfg.method_modes {
        Some(v) => v[idx],
        None => (cfg.p_unordered, cfg.p_ordered),
    };
    if s < pu {
        1
    } else if s < pu + po {
        2
    } else {
        0
    }
}

pub fn legalise(cfg: &Cfg, raw: &RawScenario) -> Scenario {
    let modes: Vec<u8> = raw.modes.iter().enumerate().map(|(i, s)| method_mode(cfg, i, *s)).collect();
    let mentioned: Vec<usize> = (0..cfg.methods.len()).filter(|i| modes[*i] != 0).collect();
    let mut clauses = vec![];
    let mut next_id: u16 = 0;
    if !mentioned.is_empty() {
        for rc in &raw.clauses {
            let mi = mentioned[pick(rc.method_sel, mentioned.len())];
            let method = cfg.methods[mi];
            let ordered = modes[mi] == 2;
            if ordered {
                let pat = legalise_pat(cfg, &rc.pats[0], next_id, true, false);
                next_id += 1;
                clauses.push(ClauseSpec::Single {
                    method,
                    entry: Entry::Next,
                    pat,
                });
            } else {
                match rc.form {
                    0..=89 => {
                        let pat = legalise_pat(cfg, &rc.pats[0], next_id, false, false);
                        next_id += 1;
                        clauses.push(ClauseSpec::Single {
                            method,
                            entry: Entry::Some,
                            pat,
                        });
                    }
                    90..=169 => {
                        let pat = legalise_pat(cfg, &rc.pats[0], next_id, false, false);
                        next_id += 1;
                        clauses.push(ClauseSpec::Single {
                            method,
                            entry: Entry::Each,
                            pat,
                        });
                    }
                    _ => {
                        let mut pats = vec![];
                        for rp in &rc.pats {
                            pats.push(legalise_pat(cfg, rp, next_id, false, true));
                            next_id += 1;
                        }
                        clauses.push(ClauseSpec::Stub { method, pats });
                    }
                }
            }
        }
    }
    let partial = cfg.partial.unwrap_or(raw.partial);
    let verify = cfg.verify_modes[pick(raw.verify, cfg.verify_modes.len())];
    let mut scn = Scenario {
        partial,
        clauses,
        clones: raw.clones,
        history: vec![],
        verify,
    };
    scn.history = build_history(cfg, &scn, &raw.history);
    scn
}

/// Model-guided history: with probability `cfg.guide` a step makes the call the
/// ordered sequence expects next (if any), otherwise a random call.
pub fn build_history(cfg: &Cfg, scn: &Scenario, raw: &[RawCall]) -> Vec<Call> {
    let mut out = vec![];
    let mut model = match Model::new(scn.partial, &scn.clauses, &FACTS) {
        Ok(m) => m,
        Err(_) => {
            return raw
                .iter()
                .map(|r| Call {
                    method: cfg.methods[pick(r.sel, cfg.methods.len())],
                    arg: r.arg,
                    via: r.via,
                    unwinding: false,
                })
                .collect()
        }
    };
    for r in raw {
        let mut call = Call {
            method: cfg.methods[pick(r.sel, cfg.methods.len())],
            arg: r.arg,
            via: r.via % (scn.clones + 1),
            // a quarter of the calls is made by a destructor during the unwinding of a caught user panic
            unwinding: cfg.unwinding_calls && (r.via / 16) % 4 == 3,
        };
        let draw = r.guide as u16;
        let mut steered = false;
        if draw < cfg.guide {
            if let Some((m, pi)) = model.slots.get(model.ordered_next).copied() {
                let mask = model.methods[&m].pats[pi].mask;
                let accepted: Vec<u8> = (0..ARGS).filter(|a| (mask >> a) & 1 == 1).collect();
                if !accepted.is_empty() && !model.deviated {
                    call.method = m;
                    call.arg = accepted[r.arg as usize % accepted.len()];
                    steered = true;
                }
            }
        }
        if !steered && draw < cfg.guide + cfg.prefer_match {
            let unordered: Vec<u8> = model
                .methods
                .iter()
                .filter(|(_, m)| !m.ordered && m.pats.iter().any(|p| p.mask != 0))
                .map(|(k, _)| *k)
                .collect();
            if !unordered.is_empty() {
                let m = unordered[pick(r.sel, unordered.len())];
                let mask = model.methods[&m].pats.iter().fold(0u8, |a, p| a | p.mask);
                let accepted: Vec<u8> = (0..ARGS).filter(|a| (mask >> a) & 1 == 1).collect();
                call.method = m;
                call.arg = accepted[r.arg as usize % accepted.len()];
            }
        }
        let was_deviated = model.deviated;
        let out_come = model.call(call.method, call.arg);
        out.push(call);
        if cfg.stop_at_deviation && !was_deviated && model.deviated {
            break;
        }
        let _ = out_come == Outcome::Unspecified;
    }
    out
}

pub fn scenario(cfg: Cfg) -> impl Strategy<Value = Scenario> {
    let c2 = cfg.clone();
    raw_scenario(&cfg).prop_map(move |raw| legalise(&c2, &raw))
}
