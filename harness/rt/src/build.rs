//! Interpreter from `ClauseSpec` data to *real* clauses, built through unimock's
//! public builder API by walking its type-state chain at run time. The only
//! non-public piece is the `DynClause` hook (a run-time sized tuple).

use std::sync::{Arc, OnceLock};

use unimock::build::*;
use unimock::output::Owning;
use unimock::private::Matching;
use unimock::property::*;
use unimock::verif::DynClause;
use unimock::*;

use crate::spec::*;
use crate::traits::*;

pub const USER_PANIC_ANSWER: &str = "USER-PANIC in answer function";
pub const USER_PANIC_MATCHER: &str = "USER-PANIC in matcher function";
pub const MAX_PAT_IDS: usize = 512;
pub const PAT_FILE: &str = "verif_scenario.rs";

/// `&'static str` debug texts "[P<id>]" for `Matching::pat_debug`.
pub fn pat_text(id: u16) -> &'static str {
    static TEXTS: OnceLock<Vec<String>> = OnceLock::new();
    let v = TEXTS.get_or_init(|| (0..MAX_PAT_IDS).map(|i| format!("[P{i}]")).collect());
    v[id as usize].as_str()
}

/// explicit panic message of a `panics(..)` response
pub fn explicit_panic_msg(id: u16, seg: usize) -> String {
    format!("explicit-panic-tag-{}", tag(id, seg))
}

type RefAnswer = dyn for<'u> Fn(&'u Unimock, u8) -> u32 + Send + Sync;
type MutAnswer = dyn for<'u> Fn(&'u mut Unimock, u8) -> u32 + Send + Sync;

/// Methods of the family with a `&self` receiver.
pub trait RefFn:
    for<'i> MockFn<Inputs<'i> = u8, OutputKind = Owning<u32>, AnswerFn = RefAnswer> + 'static
{
}
impl<F> RefFn for F where
    F: for<'i> MockFn<Inputs<'i> = u8, OutputKind = Owning<u32>, AnswerFn = RefAnswer> + 'static
{
}

/// Methods of the family with a `&mut self` receiver.
pub trait MutFn:
    for<'i> MockFn<Inputs<'i> = u8, OutputKind = Owning<u32>, AnswerFn = MutAnswer> + 'static
{
}
impl<F> MutFn for F where
    F: for<'i> MockFn<Inputs<'i> = u8, OutputKind = Owning<u32>, AnswerFn = MutAnswer> + 'static
{
}

/// `at_least_times` only exists for unordered patterns; the generator never asks
/// for it on ordered ones (that is a compile-time property, checked elsewhere).
pub trait OrdExt: Ordering + Copy + 'static {
    fn q_at_least<'p, F: MockFn>(
        q: Quantify<'p, F, Self>,
        n: usize,
    ) -> QuantifiedResponse<'p, F, Self, AtLeast>;
}
impl OrdExt for InAnyOrder {
    fn q_at_least<'p, F: MockFn>(
        q: Quantify<'p, F, Self>,
        n: usize,
    ) -> QuantifiedResponse<'p, F, Self, AtLeast> {
        q.at_least_times(n)
    }
}
impl OrdExt for InOrder {
    fn q_at_least<'p, F: MockFn>(
        _: Quantify<'p, F, Self>,
        _: usize,
    ) -> QuantifiedResponse<'p, F, Self, AtLeast> {
        panic!("HARNESS: at_least_times on an ordered pattern is not expressible")
    }
}

/// Table-style setup macro: all `matching!` invocations it expands to report the line of the one
/// `eq_table!` invocation, with the same rendered text `eq!(..)`, but different operands.
macro_rules! eq_table {
    ($m:ident, $F:ty, $sel:expr; $($lit:literal),*) => {
        match $sel {
            $( $lit => { let f: &dyn Fn(&mut Matching<$F>) = unimock::matching!(eq!(&$lit)); f($m) } )*
            _ => panic!("HARNESS: MacroEq operand out of range"),
        }
    };
}

/// constants for a `matching!` guard whose outermost operator is `||` (Macro kind 4)
const ALWAYS: bool = true;
const NEVER: bool = false;

macro_rules! family {
    ($modname:ident, $bound:ident, $answer:ty, $uty:ty) => {
        pub mod $modname {
            use super::*;

            pub fn matcher<F: $bound>(pat: &PatternSpec) -> impl Fn(&mut Matching<F>) {
                let mask = pat.mask;
                let kind = pat.matcher;
                let id = pat.id;
                move |m: &mut Matching<F>| match kind {
                    MatcherKind::NoFunc => {}
                    MatcherKind::Func => {
                        m.func(move |x: &u8, _| (mask >> *x) & 1 == 1);
                    }
                    MatcherKind::FuncDebug => {
                        m.func(move |x: &u8, _| (mask >> *x) & 1 == 1);
                        m.pat_debug(pat_text(id), PAT_FILE, id as u32);
                    }
                    MatcherKind::FuncUserPanic => {
                        m.func(move |x: &u8, _| {
                            if (mask >> *x) & 1 == 1 {
                                panic!("{}", USER_PANIC_MATCHER);
                            }
                            false
                        });
                        m.pat_debug(pat_text(id), PAT_FILE, id as u32);
                    }
                    MatcherKind::MacroEq(v) => {
                        // a table-style setup macro: every arm's matching! reports the line of this one invocation
                        eq_table!(m, F, v % 8; 0u8, 1u8, 2u8, 3u8, 4u8, 5u8, 6u8, 7u8);
                    }
                    MatcherKind::Macro(k) => {
                        // the pattern as a user writes it; accept sets are MACRO_MASKS[k]
                        let f: &dyn Fn(&mut Matching<F>) = match k % 8 {
                            0 => unimock::matching!((0) | (3)),
                            1 => unimock::matching!((1) | (2) | (6)),
                            2 => unimock::matching!(2..=5),
                            3 => unimock::matching!((x) if *x % 2 == 1),
                            4 => unimock::matching!((eq!(&3)) if ALWAYS || NEVER),
                            5 => unimock::matching!(eq!(&4)),
                            6 => unimock::matching!((0) | (1) | (2) | (3) | (4) | (5) | (6) | (7)),
                            _ => unimock::matching!((0 | 1) | (3..=5)),
                        };
                        f(m);
                        // keep the harness' own pattern identity in messages
                        m.pat_debug(pat_text(id), PAT_FILE, id as u32);
                    }
                }
            }

            pub enum End<'p, F: $bound, O: QrvAtLeast> {
                Qrv(QuantifyReturnValue<'p, F, u32, O>),
                Q(Quantify<'p, F, O>),
                Exact(QuantifiedResponse<'p, F, O, Exact>),
                AtLeast(QuantifiedResponse<'p, F, O, AtLeast>),
                /// stub pattern without any response
                Nothing,
            }

            impl<F: $bound, O: QrvAtLeast> End<'static, F, O> {
                pub fn push_into(self, dc: &mut DynClause) {
                    match self {
                        End::Qrv(c) => dc.push(c),
                        End::Q(c) => dc.push(c),
                        End::Exact(c) => dc.push(c),
                        End::AtLeast(c) => dc.push(c),
                        End::Nothing => panic!("HARNESS: top-level clause without response"),
                    }
                }
            }

            enum Start<'p, F: $bound, O: QrvAtLeast> {
                Single(DefineResponse<'p, F, O>),
                Multi(DefineMultipleResponses<'p, F, O>),
            }

            fn respond_multi<'p, F: $bound, O: QrvAtLeast>(
                d: DefineMultipleResponses<'p, F, O>,
                id: u16,
                seg: usize,
                resp: Resp,
            ) -> Quantify<'p, F, O> {
                let t = tag(id, seg);
                match resp {
                    Resp::Returns => d.returns(t),
                    Resp::ReturnsDefault => d.returns_default(),
                    Resp::Answers => {
                        let f: &'static $answer = Box::leak(Box::new(move |_: $uty, _x: u8| t));
                        d.answers(f)
                    }
                    Resp::AnswersArc => {
                        let f: Arc<$answer> = Arc::new(move |_: $uty, _x: u8| t);
                        d.answers_arc(f)
                    }
                    Resp::AnswersUserPanic => {
                        let f: Arc<$answer> =
                            Arc::new(move |_: $uty, _x: u8| panic!("{}", USER_PANIC_ANSWER));
                        d.answers_arc(f)
                    }
                    Resp::Panics => d.panics(explicit_panic_msg(id, seg)),
                    Resp::Unmocked => d.applies_unmocked(),
                    Resp::DefaultImpl => d.applies_default_impl(),
                }
            }

            fn respond_single<'p, F: $bound, O: QrvAtLeast>(
                d: DefineResponse<'p, F, O>,
                id: u16,
                seg: usize,
                resp: Resp,
            ) -> Quantify<'p, F, O> {
                let t = tag(id, seg);
                match resp {
                    Resp::Returns => panic!("HARNESS: handled by caller"),
                    Resp::ReturnsDefault => d.returns_default(),
                    Resp::Answers => {
                        let f: &'static $answer = Box::leak(Box::new(move |_: $uty, _x: u8| t));
                        d.answers(f)
                    }
                    Resp::AnswersArc => {
                        let f: Arc<$answer> = Arc::new(move |_: $uty, _x: u8| t);
                        d.answers_arc(f)
                    }
                    Resp::AnswersUserPanic => {
                        let f: Arc<$answer> =
                            Arc::new(move |_: $uty, _x: u8| panic!("{}", USER_PANIC_ANSWER));
                        d.answers_arc(f)
                    }
                    Resp::Panics => d.panics(explicit_panic_msg(id, seg)),
                    Resp::Unmocked => d.applies_unmocked(),
                    Resp::DefaultImpl => d.applies_default_impl(),
                }
            }

            fn quantify<'p, F: $bound, O: QrvAtLeast>(q: Quantify<'p, F, O>, quant: Quant) -> End<'p, F, O> {
                match quant {
                    Quant::None => End::Q(q),
                    Quant::Once => End::Exact(q.once()),
                    Quant::NTimes(n) => End::Exact(q.n_times(n as usize)),
                    Quant::AtLeast(n) => End::AtLeast(O::q_at_least(q, n as usize)),
                }
            }

            fn walk<'p, F: $bound, O: QrvAtLeast>(start: Start<'p, F, O>, pat: &PatternSpec) -> End<'p, F, O> {
                let mut cur = start;
                let n = pat.chain.len();
                if n == 0 {
                    return End::Nothing;
                }
                for (i, seg) in pat.chain.iter().enumerate() {
                    let end = match cur {
                        Start::Single(d) => {
                            if seg.resp == Resp::Returns {
                                let qrv = d.returns(tag(pat.id, i));
                                match seg.quant {
                                    Quant::None => End::Qrv(qrv),
                                    Quant::Once => End::Exact(qrv.once()),
                                    Quant::NTimes(k) => End::Exact(qrv.n_times(k as usize)),
                                    Quant::AtLeast(k) => End::AtLeast(qrv_at_least(qrv, k as usize)),
                                }
                            } else {
                                quantify(respond_single(d, pat.id, i, seg.resp), seg.quant)
                            }
                        }
                        Start::Multi(d) => quantify(respond_multi(d, pat.id, i, seg.resp), seg.quant),
                    };
                    if i + 1 == n {
                        return end;
                    }
                    cur = match end {
                        End::Exact(e) => Start::Multi(e.then()),
                        _ => panic!("HARNESS: illegal chain (then() after a non-exact quantifier)"),
                    };
                }
                unreachable!()
            }

            // `QuantifyReturnValue::at_least_times` needs `O: Ordering<Kind = InAnyOrder>`.
            fn qrv_at_least<'p, F: $bound, O: QrvAtLeast>(
                qrv: QuantifyReturnValue<'p, F, u32, O>,
                n: usize,
            ) -> QuantifiedResponse<'p, F, O, AtLeast> {
                // Route through a trait object free helper: only InAnyOrder reaches this.
                <O as QrvAtLeast>::go(qrv, n)
            }

            pub trait QrvAtLeast: OrdExt {
                fn go<'p, F: $bound>(
                    qrv: QuantifyReturnValue<'p, F, u32, Self>,
                    n: usize,
                ) -> QuantifiedResponse<'p, F, Self, AtLeast>;
            }
            impl QrvAtLeast for InAnyOrder {
                fn go<'p, F: $bound>(
                    qrv: QuantifyReturnValue<'p, F, u32, Self>,
                    n: usize,
                ) -> QuantifiedResponse<'p, F, Self, AtLeast> {
                    qrv.at_least_times(n)
                }
            }
            impl QrvAtLeast for InOrder {
                fn go<'p, F: $bound>(
                    _: QuantifyReturnValue<'p, F, u32, Self>,
                    _: usize,
                ) -> QuantifiedResponse<'p, F, Self, AtLeast> {
                    panic!("HARNESS: at_least_times on an ordered pattern is not expressible")
                }
            }

            /// `F.some_call(..)` / `F.each_call(..)` / `F.next_call(..)` + chain, pushed as one clause.
            pub fn push_single<F: $bound>(dc: &mut DynClause, f: F, entry: Entry, pat: &PatternSpec) {
                let m = matcher::<F>(pat);
                match entry {
                    Entry::Some => walk(Start::Single(f.some_call(&m)), pat).push_into(dc),
                    Entry::Each => walk(Start::Multi(f.each_call(&m)), pat).push_into(dc),
                    Entry::Next => walk(Start::Single(f.next_call(&m)), pat).push_into(dc),
                }
            }

            /// `F.stub(|each| { each.call(..)...; ... })` pushed as one clause.
            pub fn push_stub<F: $bound>(dc: &mut DynClause, f: F, pats: &[PatternSpec]) {
                let each = f.stub(|each| {
                    for pat in pats {
                        let m = matcher::<F>(pat);
                        let end = walk(Start::Multi(each.call(&m)), pat);
                        drop(end);
                    }
                });
                dc.push(each);
            }
        }
    };
}

family!(ref_family, RefFn, RefAnswer, &Unimock);
family!(mut_family, MutFn, MutAnswer, &mut Unimock);

pub fn push_clause(dc: &mut DynClause, clause: &ClauseSpec) {
    macro_rules! go {
        ($fam:ident, $f:expr) => {
            match clause {
                ClauseSpec::Single { entry, pat, .. } => $fam::push_single(dc, $f, *entry, pat),
                ClauseSpec::Stub { pats, .. } => $fam::push_stub(dc, $f, pats),
            }
        };
    }
    match clause.method() {
        0 => go!(ref_family, AMock::a0),
        1 => go!(ref_family, AMock::a1),
        2 => go!(ref_family, BMock::b0),
        3 => go!(ref_family, BMock::b1),
        4 => go!(ref_family, CMock::c0),
        5 => go!(ref_family, DMock::d0),
        6 => go!(mut_family, MMock::m0),
        7 => go!(mut_family, MMock::m1),
        8 => go!(ref_family, GenMock::g.with_types::<u16>()),
        9 => go!(ref_family, GenMock::g.with_types::<i16>()),
        10 => go!(ref_family, GmMock::gm.with_types::<u16>()),
        11 => go!(ref_family, GmMock::gm.with_types::<i16>()),
        12 => go!(mut_family, NMock::n0),
        13 => go!(mut_family, NMock::n1),
        m => panic!("HARNESS: no such method {m}"),
    }
}

/// A REAL tuple (production `Clause` impl of that arity) over run-time many sub-clauses.
pub fn real_tuple(v: Vec<DynClause>) -> DynClause {
    macro_rules! tuple_of {
        ($v:ident; $($n:literal => [$($i:tt),*]),* $(,)?) => {
            match $v.len() {
                $( $n => {
                    let mut it = $v.into_iter();
                    let t = ( $( { let _ = $i; it.next().unwrap() } ),* ,);
                    let mut dc = DynClause::new();
                    dc.push(t);
                    dc
                } )*
                n => panic!("HARNESS: no tuple impl of arity {n}"),
            }
        };
    }
    match v.len() {
        0 => {
            let mut dc = DynClause::new();
            dc.push(());
            dc
        }
        1 => v.into_iter().next().unwrap(),
        n if n > 16 => {
            // more than 16 clauses: a tuple of tuples, as a user would have to write it
            let mut groups: Vec<DynClause> = vec![];
            let mut it = v.into_iter().peekable();
            while it.peek().is_some() {
                let chunk: Vec<DynClause> = it.by_ref().take(16).collect();
                groups.push(real_tuple(chunk));
            }
            real_tuple(groups)
        }
        _ => tuple_of!(v;
            2 => [0, 1], 3 => [0, 1, 2], 4 => [0, 1, 2, 3], 5 => [0, 1, 2, 3, 4], 6 => [0, 1, 2, 3, 4, 5],
            7 => [0, 1, 2, 3, 4, 5, 6], 8 => [0, 1, 2, 3, 4, 5, 6, 7], 9 => [0, 1, 2, 3, 4, 5, 6, 7, 8],
            10 => [0, 1, 2, 3, 4, 5, 6, 7, 8, 9], 11 => [0, 1, 2, 3, 4, 5, 6, 7, 8, 9, 10],
            12 => [0, 1, 2, 3, 4, 5, 6, 7, 8, 9, 10, 11], 13 => [0, 1, 2, 3, 4, 5, 6, 7, 8, 9, 10, 11, 12],
            14 => [0, 1, 2, 3, 4, 5, 6, 7, 8, 9, 10, 11, 12, 13], 15 => [0, 1, 2, 3, 4, 5, 6, 7, 8, 9, 10, 11, 12, 13, 14],
            16 => [0, 1, 2, 3, 4, 5, 6, 7, 8, 9, 10, 11, 12, 13, 14, 15]),
    }
}

/// Build the clause list for a scenario (flat, in declaration order): every clause is wrapped
/// on its own (its builder type is only known at run time) and the list is a REAL tuple of
/// that arity, so the production tuple impl a user would get is what the mock is built from.
pub fn build_clauses(clauses: &[ClauseSpec]) -> DynClause {
    let leaves: Vec<DynClause> = clauses
        .iter()
        .map(|c| {
            let mut dc = DynClause::new();
            push_clause(&mut dc, c);
            dc
        })
        .collect();
    real_tuple(leaves)
}
