pub mod build;
pub mod exec;
pub mod gen;
pub mod model;
pub mod props;
pub mod sched;
pub mod spec;
pub mod traits;

#[cfg(not(feature = "std"))]
use critical_section as _;

/// Name of the unimock feature set this binary was built with.
pub fn variant() -> &'static str {
    if cfg!(feature = "std") {
        "std"
    } else if cfg!(feature = "nostd-spin") {
        "nostd-spin"
    } else {
        "nostd-nomutex"
    }
}
