pub mod build;
pub mod exec;
pub mod gen;
pub mod model;
pub mod props;
pub mod sched;
pub mod spec;
pub mod traits;
