//! Runs a scenario against the real mock and compares it with the reference model.

use std::collections::BTreeMap;
#[cfg(feature = "std")]
use std::process::Termination;

use unimock::Unimock;
use vcore::panics::catch;

use crate::build::build_clauses;
use crate::model::{self, Line, Model, Outcome, PanicKind, SideEffect};
use crate::spec::*;
use crate::traits::{self, Effect, FACTS};

#[derive(Clone, Debug, PartialEq, Eq)]
pub enum Obs {
    Value(u32),
    MockPanic(String),
    UserPanic(String),
}

impl Obs {
    pub fn from_result(r: Result<u32, String>) -> Obs {
        match r {
            Ok(v) => Obs::Value(v),
            Err(msg) if msg.starts_with("USER-PANIC") => Obs::UserPanic(msg),
            Err(msg) => Obs::MockPanic(msg),
        }
    }
}

#[derive(Clone, Debug, PartialEq, Eq)]
pub enum VerifyObs {
    Silent,
    Panic(String),
    ReportSuccess,
    ReportFailure,
}

impl VerifyObs {
    pub fn failed(&self) -> bool {
        matches!(self, VerifyObs::Panic(_) | VerifyObs::ReportFailure)
    }
}

pub struct RealRun {
    pub construct_error: Option<String>,
    pub calls: Vec<(Obs, Vec<Effect>)>,
    pub clone_drop_panics: Vec<String>,
    pub verify: Option<VerifyObs>,
}

pub fn new_mock(partial: bool, clauses: &[ClauseSpec]) -> Result<Unimock, String> {
    let dc = build_clauses(clauses);
    catch(move || {
        if partial {
            Unimock::new_partial(dc)
        } else {
            Unimock::new(dc)
        }
    })
}

pub fn verify_original(original: Unimock, mode: VerifyMode) -> VerifyObs {
    match mode {
        VerifyMode::Drop => match catch(move || drop(original)) {
            Ok(()) => VerifyObs::Silent,
            Err(m) => VerifyObs::Panic(m),
        },
        VerifyMode::Verify | VerifyMode::ExplicitVerify => match catch(move || original.verify()) {
            Ok(()) => VerifyObs::Silent,
            Err(m) => VerifyObs::Panic(m),
        },
        #[cfg(not(feature = "std"))]
        VerifyMode::Report | VerifyMode::ExplicitReport => match catch(move || original.verify()) {
            Ok(()) => VerifyObs::Silent,
            Err(m) => VerifyObs::Panic(m),
        },
        #[cfg(feature = "std")]
        VerifyMode::Report | VerifyMode::ExplicitReport => match catch(move || original.report()) {
            Ok(code) => {
                if format!("{code:?}") == format!("{:?}", std::process::ExitCode::SUCCESS) {
                    VerifyObs::ReportSuccess
                } else {
                    VerifyObs::ReportFailure
                }
            }
            Err(m) => VerifyObs::Panic(m),
        },
    }
}

/// Execute the scenario on the real implementation.
struct OnDrop<F: FnOnce()>(Option<F>);
impl<F: FnOnce()> Drop for OnDrop<F> {
    fn drop(&mut self) {
        if let Some(f) = self.0.take() {
            f()
        }
    }
}

/// Run `f` as the body of a destructor (RAII cleanup) that runs while this thread unwinds from a user panic,
/// which is caught further out. `f` must not let a panic escape (it would abort the process).
pub fn while_unwinding<R>(f: impl FnOnce() -> R) -> Result<R, String> {
    let mut slot = None;
    let mut unwinding = false;
    let _ = std::panic::catch_unwind(std::panic::AssertUnwindSafe(|| {
        let _guard = OnDrop(Some(|| {
            unwinding = std::thread::panicking();
            slot = Some(f());
        }));
        std::panic::resume_unwind(Box::new("user panic (expected)"));
    }));
    if !unwinding {
        return Err("HARNESS: the destructor did not run during an unwinding".to_string());
    }
    slot.ok_or_else(|| "HARNESS: the destructor did not run".to_string())
}

/// The call is made by a destructor that runs during an unwinding. A panic of the call itself is caught inside
/// the destructor (it must not escape from it).
pub fn call_while_unwinding(inst: &mut Unimock, method: u8, arg: u8) -> Result<u32, String> {
    while_unwinding(|| catch(|| traits::call(inst, method, arg)))?
}

pub fn run_real(scn: &Scenario) -> RealRun {
    let _ = traits::take_log();
    let original = match new_mock(scn.partial, &scn.clauses) {
        Ok(u) => u,
        Err(msg) => {
            return RealRun {
                construct_error: Some(msg),
                calls: vec![],
                clone_drop_panics: vec![],
                verify: None,
            }
        }
    };
    let original = if matches!(scn.verify, VerifyMode::ExplicitVerify | VerifyMode::ExplicitReport) { original.no_verify_in_drop() } else { original };
    let mut insts: Vec<Unimock> = vec![original];
    for _ in 0..scn.clones {
        let c = insts[0].clone();
        insts.push(c);
    }
    let mut calls = vec![];
    for call in &scn.history {
        let i = call.via as usize % insts.len();
        let inst = &mut insts[i];
        let r = if call.unwinding {
            call_while_unwinding(inst, call.method, call.arg)
        } else {
            catch(|| traits::call(inst, call.method, call.arg))
        };
        calls.push((Obs::from_result(r), traits::take_log()));
    }
    let mut clone_drop_panics = vec![];
    while insts.len() > 1 {
        let c = insts.pop().unwrap();
        if let Err(m) = catch(move || drop(c)) {
            clone_drop_panics.push(m);
        }
    }
    let original = insts.pop().unwrap();
    let verify = verify_original(original, scn.verify);
    RealRun {
        construct_error: None,
        calls,
        clone_drop_panics,
        verify: Some(verify),
    }
}

/// Identity of a verification line: which pattern or method it names.
#[derive(Clone, Debug, PartialEq, Eq, PartialOrd, Ord, Hash)]
pub enum LineKey {
    DebugPattern(u16),
    IndexPattern(String, usize),
    Method(String),
    Unparsed(String),
}

fn find_number_after(line: &str, marker: &str) -> Option<usize> {
    let mut start = 0;
    while let Some(pos) = line[start..].find(marker) {
        let from = start + pos + marker.len();
        let digits: String = line[from..].chars().take_while(|c| c.is_ascii_digit()).collect();
        if !digits.is_empty() {
            return digits.parse().ok();
        }
        start = from;
    }
    None
}

fn find_path(line: &str) -> Option<String> {
    // longest path first so that e.g. "Gm::gm" is not shadowed
    let mut paths: Vec<&str> = FACTS.iter().map(|f| f.path).collect();
    paths.sort_by_key(|p| std::cmp::Reverse(p.len()));
    paths.dedup();
    paths.into_iter().find(|p| line.contains(*p)).map(|p| p.to_string())
}

pub fn parse_line(line: &str) -> LineKey {
    if let Some(id) = find_number_after(line, "[P") {
        return LineKey::DebugPattern(id as u16);
    }
    let path = find_path(line);
    if let (Some(idx), Some(path)) = (find_number_after(line, "#"), path.clone()) {
        return LineKey::IndexPattern(path, idx);
    }
    match path {
        Some(p) => LineKey::Method(p),
        None => LineKey::Unparsed(line.to_string()),
    }
}

pub fn model_line_key(scn_patterns: &BTreeMap<u16, MatcherKind>, line: &Line) -> LineKey {
    match line {
        Line::Pattern {
            method,
            pat_id,
            index,
            ..
        } => match scn_patterns.get(pat_id) {
            Some(MatcherKind::FuncDebug) | Some(MatcherKind::FuncUserPanic) | Some(MatcherKind::Macro(_)) => {
                LineKey::DebugPattern(*pat_id)
            }
            // named by its source text `eq!(..)` only: identifiable up to its method
            Some(MatcherKind::MacroEq(_)) => LineKey::Method(FACTS[*method as usize].path.to_string()),
            _ => LineKey::IndexPattern(FACTS[*method as usize].path.to_string(), *index),
        },
        Line::NeverCalled { method } => LineKey::Method(FACTS[*method as usize].path.to_string()),
    }
}

pub fn pattern_kinds(clauses: &[ClauseSpec]) -> BTreeMap<u16, MatcherKind> {
    let mut m = BTreeMap::new();
    for c in clauses {
        for p in c.patterns() {
            m.insert(p.id, p.matcher);
        }
    }
    m
}

/// Per-call facts from the model, for classification by the property modules.
#[derive(Clone, Debug)]
pub struct CallTrace {
    pub expected: Outcome,
    pub observed: Obs,
    /// number of patterns of the called method that accept the argument
    pub accepting: usize,
}

pub struct Comparison {
    pub calls: Vec<CallTrace>,
    pub model_verdict: model::Verdict,
    pub verify: VerifyObs,
    pub mock_panic_texts: Vec<String>,
    pub final_model: Model,
}

fn effect_of(e: &SideEffect) -> Effect {
    match *e {
        SideEffect::Real(m, a) => Effect::Real(m, a),
        SideEffect::Default(m, a) => Effect::Default(m, a),
    }
}

#[derive(Clone, Copy)]
pub struct CompareOpts {
    /// check C08's message-inclusion oracle when errors were recorded
    pub check_recorded_errors: bool,
}

impl Default for CompareOpts {
    fn default() -> Self {
        CompareOpts {
            check_recorded_errors: true,
        }
    }
}

/// Run real + model, compare step by step. `Err` = disagreement (a violation).
pub fn compare(scn: &Scenario, opts: CompareOpts) -> Result<Option<Comparison>, String> {
    compare_run(scn, run_real(scn), opts)
}

/// Compare an already executed real run with the model.
pub fn compare_run(scn: &Scenario, real: RealRun, opts: CompareOpts) -> Result<Option<Comparison>, String> {
    let model = Model::new(scn.partial, &scn.clauses, &FACTS);
    let mut model = match (model, &real.construct_error) {
        (Ok(m), None) => m,
        (Err(_), Some(_)) => return Ok(None),
        (Ok(_), Some(msg)) => {
            return Err(format!(
                "construction of a consistent setup panicked: {msg:?}"
            ))
        }
        (Err(e), None) => {
            return Err(format!(
                "construction succeeded although the setup is inconsistent ({e:?})"
            ))
        }
    };

    if !real.clone_drop_panics.is_empty() {
        return Err(format!(
            "dropping a clone panicked: {:?}",
            real.clone_drop_panics[0]
        ));
    }

    let mut traces = vec![];
    let mut mock_panic_texts = vec![];
    // without the std feature a mock-induced panic raised through the ORIGINAL instance
    // deliberately disables its verification (documented no_std behaviour)
    let mut original_panicked = false;
    for (i, (call, (obs, effects))) in scn.history.iter().zip(real.calls.iter()).enumerate() {
        let accepting = model
            .methods
            .get(&call.method)
            .map(|m| m.pats.iter().filter(|p| (p.mask >> call.arg) & 1 == 1).count())
            .unwrap_or(0);
        let effects_before = model.effects.len();
        let expected = model.call(call.method, call.arg);
        let new_effects: Vec<Effect> = model.effects[effects_before..].iter().map(effect_of).collect();
        if let Obs::MockPanic(text) = obs {
            mock_panic_texts.push(text.clone());
            if call.via as usize % (scn.clones as usize + 1) == 0 {
                original_panicked = true;
            }
        }
        let describe = || {
            format!(
                "call #{i} {}({}) via instance {}",
                FACTS[call.method as usize].path, call.arg, call.via
            )
        };
        match (&expected, obs) {
            (Outcome::Unspecified, o) => {
                if matches!(o, Obs::MockPanic(_)) {
                    model.mock_errors += 1;
                }
            }
            (Outcome::Value(v), Obs::Value(o)) if v == o => {
                if &new_effects != effects {
                    return Err(format!(
                        "{}: side effects differ: expected {new_effects:?}, observed {effects:?}",
                        describe()
                    ));
                }
            }
            (Outcome::Panic(k), Obs::MockPanic(text)) if k.mock_induced() => {
                if !effects.is_empty() {
                    return Err(format!(
                        "{}: panicking call had side effects {effects:?}",
                        describe()
                    ));
                }
                // an explicit `panics(msg)` response carries the message of the segment the chain assigns
                if *k == PanicKind::Explicit {
                    if let Some(t) = model.last_explicit {
                        let want = format!("explicit-panic-tag-{t}");
                        if !text.split(|c: char| !c.is_ascii_alphanumeric() && c != '-').any(|w| w == want) {
                            return Err(format!(
                                "{}: the panic does not carry the message of the segment that answers this match ({want:?}): {text:?}",
                                describe()
                            ));
                        }
                    }
                }
                // every mock-induced panic about a call names the method
                if !text.contains(FACTS[call.method as usize].path) {
                    return Err(format!(
                        "{}: panic text does not name the method: {text:?}",
                        describe()
                    ));
                }
            }
            (Outcome::Panic(PanicKind::User), Obs::UserPanic(_)) => {}
            (e, o) => {
                return Err(format!("{}: expected {e:?}, observed {o:?}", describe()));
            }
        }
        traces.push(CallTrace {
            expected,
            observed: obs.clone(),
            accepting,
        });
    }

    let verify = real.verify.clone().unwrap();
    let verdict = if !cfg!(feature = "std") && original_panicked { model::Verdict::Unspecified } else { model.verify() };
    let kinds = pattern_kinds(&scn.clauses);
    match &verdict {
        model::Verdict::Unspecified => {}
        model::Verdict::Silent => {
            if verify.failed() {
                return Err(format!(
                    "verification failed although every expectation is met: {verify:?}"
                ));
            }
        }
        model::Verdict::Lines(lines) => {
            let mut expected: Vec<LineKey> = lines.iter().map(|l| model_line_key(&kinds, l)).collect();
            expected.sort();
            match &verify {
                VerifyObs::Silent | VerifyObs::ReportSuccess => {
                    return Err(format!(
                        "verification was silent although expectations are unmet: {lines:?}"
                    ));
                }
                VerifyObs::ReportFailure => {}
                VerifyObs::Panic(msg) => {
                    let mut actual: Vec<LineKey> = msg.lines().map(parse_line).collect();
                    actual.sort();
                    if actual != expected {
                        return Err(format!(
                            "verification message names {actual:?}, expected {expected:?}; message: {msg:?}"
                        ));
                    }
                }
            }
        }
        model::Verdict::RecordedErrors(_) => {
            if opts.check_recorded_errors {
                match &verify {
                    VerifyObs::Silent | VerifyObs::ReportSuccess => {
                        return Err(format!(
                            "verification passed although mock-induced panics occurred: {mock_panic_texts:?}"
                        ));
                    }
                    VerifyObs::ReportFailure => {}
                    VerifyObs::Panic(msg) => {
                        check_contains_all(msg, &mock_panic_texts)?;
                    }
                }
            }
        }
    }

    Ok(Some(Comparison {
        calls: traces,
        model_verdict: verdict,
        verify,
        mock_panic_texts,
        final_model: model,
    }))
}

/// Multiset inclusion of error texts in a verification message.
pub fn check_contains_all(msg: &str, texts: &[String]) -> Result<(), String> {
    let mut counts: BTreeMap<&str, usize> = BTreeMap::new();
    for t in texts {
        *counts.entry(t.as_str()).or_insert(0) += 1;
    }
    for (t, n) in counts {
        let found = msg.matches(t).count();
        if found < n {
            return Err(format!(
                "verification message contains the error text {t:?} {found} time(s), expected {n}; message: {msg:?}"
            ));
        }
    }
    Ok(())
}
