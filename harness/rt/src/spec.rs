//! Scenario data types shared by the generators, the reference model and the
//! interpreter that drives the real mock. Plain data, serialisable: a scenario
//! is also the replay-file format.

use serde::{Deserialize, Serialize};

/// Argument domain of every method in the fixed trait family: 0..ARGS.
pub const ARGS: u8 = 8;

#[derive(Clone, Copy, Debug, PartialEq, Eq, Hash, Serialize, Deserialize)]
pub enum Recv {
    Ref,
    Mut,
}

/// Static facts about one method of the fixed trait family (see traits.rs).
#[derive(Clone, Copy, Debug)]
pub struct MethodFacts {
    pub path: &'static str,
    pub recv: Recv,
    pub has_default: bool,
    /// An `unmock_with` function is registered for the method ...
    pub has_unmock: bool,
}

#[derive(Clone, Copy, Debug, PartialEq, Eq, Hash, Serialize, Deserialize)]
pub enum Entry {
    /// `some_call`
    Some,
    /// `each_call`
    Each,
    /// `next_call`
    Next,
}

#[derive(Clone, Copy, Debug, PartialEq, Eq, Hash, Serialize, Deserialize)]
pub enum Resp {
    Returns,
    ReturnsDefault,
    Answers,
    AnswersArc,
    /// answer function that panics (user panic, not mock-induced)
    AnswersUserPanic,
    Panics,
    Unmocked,
    DefaultImpl,
}

#[derive(Clone, Copy, Debug, PartialEq, Eq, Hash, Serialize, Deserialize)]
pub enum Quant {
    None,
    Once,
    NTimes(u8),
    AtLeast(u8),
}

#[derive(Clone, Copy, Debug, PartialEq, Eq, Hash, Serialize, Deserialize)]
pub struct Seg {
    pub resp: Resp,
    pub quant: Quant,
}

#[derive(Clone, Copy, Debug, PartialEq, Eq, Hash, Serialize, Deserialize)]
pub enum MatcherKind {
    /// `Matching::func` + `pat_debug`
    FuncDebug,
    /// `Matching::func` only (the pattern is then named by its index)
    Func,
    /// the matcher closure registers no function at all
    NoFunc,
    /// the matcher function panics when called with an accepted argument (user panic)
    FuncUserPanic,
    /// written with the `matching!` macro: one of the fixed patterns `MACRO_MASKS[k]`
    /// (the pattern's mask is forced to that pattern's accept set)
    Macro(u8),
    /// `matching!(eq!(&v))` for v = .0 in 0..8, all eight written by ONE macro_rules! invocation: same file,
    /// same reported line, same rendered text `eq!(..)`, different predicates. Keeps the macro's own
    /// pattern debug record (the pattern is then named by its source text, not by an id).
    MacroEq(u8),
}

/// Accept sets (bit x = argument x) of the `matching!` patterns of `MatcherKind::Macro(k)`:
/// 0: `(0) | (3)`   1: `(1) | (2) | (6)`   2: `2..=5`   3: `(x) if *x % 2 == 1`   4: `(eq!(&3)) if ALWAYS || NEVER` (a guard whose outermost operator is `||` next to eq!)
/// 5: `eq!(&4)`   6: eight alternatives `(0) | .. | (7)`   7: `(0 | 1) | (3..=5)`
pub const MACRO_MASKS: [u8; 8] = [0b0000_1001, 0b0100_0110, 0b0011_1100, 0b1010_1010, 0b0000_1000, 0b0001_0000, 0xff, 0b0011_1011];

#[derive(Clone, Debug, PartialEq, Eq, Hash, Serialize, Deserialize)]
pub struct PatternSpec {
    /// unique within the scenario; determines the tag of its responses and its debug text
    pub id: u16,
    /// bit `x` set = argument `x` accepted
    pub mask: u8,
    pub matcher: MatcherKind,
    /// may be empty only inside a stub
    pub chain: Vec<Seg>,
}

#[derive(Clone, Debug, PartialEq, Eq, Hash, Serialize, Deserialize)]
pub enum ClauseSpec {
    Single {
        method: u8,
        entry: Entry,
        pat: PatternSpec,
    },
    Stub {
        method: u8,
        pats: Vec<PatternSpec>,
    },
}

impl ClauseSpec {
    pub fn method(&self) -> u8 {
        match self {
            ClauseSpec::Single { method, .. } | ClauseSpec::Stub { method, .. } => *method,
        }
    }
    pub fn ordered(&self) -> bool {
        matches!(
            self,
            ClauseSpec::Single {
                entry: Entry::Next,
                ..
            }
        )
    }
    pub fn patterns(&self) -> Vec<&PatternSpec> {
        match self {
            ClauseSpec::Single { pat, .. } => vec![pat],
            ClauseSpec::Stub { pats, .. } => pats.iter().collect(),
        }
    }
}

#[derive(Clone, Copy, Debug, PartialEq, Eq, Hash, Serialize, Deserialize)]
pub struct Call {
    pub method: u8,
    pub arg: u8,
    /// 0 = the original instance, k>0 = clone number k (mod the number of clones)
    pub via: u8,
    /// the call is made by a destructor that runs while the thread unwinds from a (caught) user panic
    #[serde(default)]
    pub unwinding: bool,
}

#[derive(Clone, Copy, Debug, PartialEq, Eq, Hash, Serialize, Deserialize)]
pub enum VerifyMode {
    Drop,
    Verify,
    Report,
    /// `.no_verify_in_drop()` right after construction (before any clone is made), `verify()` at the end
    ExplicitVerify,
    /// `.no_verify_in_drop()` right after construction, `Termination::report()` at the end
    ExplicitReport,
}

#[derive(Clone, Debug, PartialEq, Eq, Hash, Serialize, Deserialize)]
pub struct Scenario {
    pub partial: bool,
    pub clauses: Vec<ClauseSpec>,
    /// number of clones made right after construction
    pub clones: u8,
    pub history: Vec<Call>,
    pub verify: VerifyMode,
}

/// Tag carried by the response of segment `seg` of pattern `id`.
pub fn tag(id: u16, seg: usize) -> u32 {
    id as u32 * 100 + seg as u32 + 1
}
pub fn real_value(method: u8, arg: u8) -> u32 {
    5_000_000 + method as u32 * 100 + arg as u32
}
pub fn default_value(method: u8, arg: u8) -> u32 {
    7_000_000 + method as u32 * 100 + arg as u32
}

/// Type-state legality of a chain for an entry form (what the builder accepts).
pub fn chain_is_legal(entry_each_or_stub: bool, ordered: bool, in_stub: bool, chain: &[Seg]) -> bool {
    if chain.is_empty() {
        return in_stub;
    }
    let _ = entry_each_or_stub;
    for (i, seg) in chain.iter().enumerate() {
        let last = i + 1 == chain.len();
        match seg.quant {
            Quant::None => {
                if !last {
                    return false;
                }
            }
            Quant::Once | Quant::NTimes(_) => {}
            Quant::AtLeast(_) => {
                if !last || ordered {
                    return false;
                }
            }
        }
    }
    true
}
