#![no_main]
//! E5: coverage-guided search over the E1 scenario space. Bytes are decoded into the same
//! raw scenario the proptest generators produce, legalised, executed on the real mock and
//! compared with the reference model inside the target (the oracle is in the target).

use arbitrary::Unstructured;
use libfuzzer_sys::fuzz_target;
use rt::gen::{legalise, Cfg, RawCall, RawClause, RawPat, RawScenario};
use rt::spec::{MatcherKind, Resp, VerifyMode};

fn cfg() -> Cfg {
    let mut cfg = Cfg::base();
    cfg.methods = vec![0, 1, 2, 3, 4, 5, 6, 7, 8, 9, 12];
    cfg.p_unordered = 110;
    cfg.p_ordered = 70;
    cfg.resps = vec![
        Resp::Returns,
        Resp::ReturnsDefault,
        Resp::Answers,
        Resp::AnswersArc,
        Resp::Panics,
        Resp::Unmocked,
        Resp::DefaultImpl,
        Resp::AnswersUserPanic,
    ];
    cfg.matchers = vec![MatcherKind::FuncDebug, MatcherKind::FuncDebug, MatcherKind::Func, MatcherKind::NoFunc, MatcherKind::FuncUserPanic];
    cfg.max_clauses = 8;
    cfg.max_stub_pats = 4;
    cfg.max_chain = 5;
    cfg.max_n = 4;
    cfg.max_history = 32;
    cfg.guide = 140;
    cfg.prefer_match = 80;
    cfg.allow_empty_stub_chain = true;
    cfg.stop_at_deviation = false;
    cfg.verify_modes = vec![VerifyMode::Drop, VerifyMode::Verify, VerifyMode::Report];
    cfg
}

fn decode(u: &mut Unstructured<'_>, cfg: &Cfg) -> arbitrary::Result<RawScenario> {
    let partial: bool = u.arbitrary()?;
    let mut modes = vec![];
    for _ in 0..cfg.methods.len() {
        modes.push(u.arbitrary::<u8>()?);
    }
    let n_clauses = u.int_in_range(0..=cfg.max_clauses)?;
    let mut clauses = vec![];
    for _ in 0..n_clauses {
        let n_pats = u.int_in_range(1..=cfg.max_stub_pats)?;
        let mut pats = vec![];
        for _ in 0..n_pats {
            let n_seg = u.int_in_range(0..=cfg.max_chain)?;
            let mut chain = vec![];
            for _ in 0..n_seg {
                chain.push((u.arbitrary::<u8>()?, u.arbitrary::<u8>()?, u.int_in_range(0..=cfg.max_n)?));
            }
            pats.push(RawPat { mask: u.arbitrary()?, matcher: u.arbitrary()?, chain });
        }
        clauses.push(RawClause { method_sel: u.arbitrary()?, form: u.arbitrary()?, pats });
    }
    let clones = u.int_in_range(0..=3u8)?;
    let n_calls = u.int_in_range(0..=cfg.max_history)?;
    let mut history = vec![];
    for _ in 0..n_calls {
        history.push(RawCall { sel: u.arbitrary()?, arg: u.int_in_range(0..=7u8)?, via: u.arbitrary()?, guide: u.arbitrary()? });
    }
    Ok(RawScenario { partial, modes, clauses, clones, history, verify: u.arbitrary()? })
}

fuzz_target!(|data: &[u8]| {
    // mock-induced panics are expected outcomes: replace libFuzzer's aborting panic hook
    static ONCE: std::sync::Once = std::sync::Once::new();
    ONCE.call_once(|| std::panic::set_hook(Box::new(|_| {})));
    let cfg = cfg();
    let mut u = Unstructured::new(data);
    let Ok(raw) = decode(&mut u, &cfg) else { return };
    let scn = legalise(&cfg, &raw);
    // report() prints to stderr: keep it out of the fuzzing loop unless asked for
    let mut scn = scn;
    if scn.verify == VerifyMode::Report && std::env::var_os("VERIF_FUZZ_REPORT").is_none() {
        scn.verify = VerifyMode::Verify;
    }
    let result = std::panic::catch_unwind(|| rt::exec::compare(&scn, rt::exec::CompareOpts::default()));
    let failure = match result {
        Ok(Ok(_)) => None,
        Ok(Err(reason)) => Some(reason),
        Err(_) => Some("HARNESS: panic inside the comparison".to_string()),
    };
    if let Some(reason) = failure {
        let out = std::env::var("VERIF_FUZZ_OUT").unwrap_or_else(|_| "/tmp/verif-fuzz-failure.json".into());
        let replay = serde_json::json!({"property": std::env::var("VERIF_FUZZ_PROP").unwrap_or_else(|_| "C01".into()), "sub": "fuzz", "reason": reason, "case": scn});
        let _ = std::fs::write(&out, serde_json::to_string_pretty(&replay).unwrap());
        eprintln!("FUZZ-FAILURE {reason}");
        std::process::abort();
    }
});
